(* C07 -- executable model of the Wyckoff-set assembly of
   matid/symmetry/symmetryanalyzer.py:_get_wyckoff_sets (return_parameters=False), and of the numpy
   primitives it and the index maps of C12 rest on.

     unique_sets, unique_indices = np.unique(equivalent_atoms, return_index=True)
     for i_set, index in enumerate(unique_indices):  letter/element/number of atom `index`
     for i_atom, set_number in enumerate(equivalent_atoms): sets[set_number].indices.append(i_atom)
     multiplicity = len(indices)
     sorted(sets.values(), key=attrgetter("wyckoff_letter", "atomic_number"))

   Python exceptions (IndexError of a too short array, KeyError of a letter that is not in the
   table of the group) are [None]; every theorem is about the [Some] case.
   Proofs are in WyckoffSetsProofs.v. *)
From Coq Require Import List Arith ZArith String Ascii Bool.
Import ListNotations.
From MV Require Import Symmetry.Table.
Close Scope Z_scope.
Open Scope nat_scope.

(* ---------- np.unique(a, return_index=True) ------------------------------------------------- *)
(* sorted distinct values ... *)
Fixpoint sins (v : nat) (l : list nat) : list nat :=
  match l with
  | [] => [v]
  | w :: t => if v <? w then v :: l else if v =? w then l else w :: sins v t
  end.
Definition distinct_sorted (l : list nat) : list nat := fold_right sins [] l.

(* ... each with the index of its first occurrence *)
Fixpoint first_index (v : nat) (l : list nat) : nat :=
  match l with
  | [] => 0
  | x :: r => if x =? v then 0 else S (first_index v r)
  end.
Definition unique_first (l : list nat) : list (nat * nat) :=
  map (fun v => (v, first_index v l)) (distinct_sorted l).

(* the atoms carrying label v, in increasing order (the loop that appends i_atom) *)
Definition fibre (l : list nat) (v : nat) : list nat :=
  filter (fun i => nth i l 0 =? v) (seq 0 (List.length l)).

(* numpy fancy indexing a[idx] with non-negative indices; an index out of range is IndexError *)
Definition gather {A} (a : list A) (idx : list nat) : option (list A) :=
  all_some (map (nth_error a) idx).

(* ---------- ordering of the sort key (wyckoff_letter, atomic_number) ------------------------- *)
(* Python compares str by code point, lexicographically: 'A' < 'a' < ... < 'z' *)
Fixpoint codes (s : string) : list nat :=
  match s with EmptyString => [] | String c r => nat_of_ascii c :: codes r end.
Fixpoint lex_leb (a b : list nat) : bool :=
  match a, b with
  | [], _ => true
  | _ :: _, [] => false
  | x :: a', y :: b' => (x <? y) || ((x =? y) && lex_leb a' b')
  end.
Definition key := (list nat * Z)%type.
(* tuple comparison (l1, z1) <= (l2, z2) *)
Definition key_leb (a b : key) : bool :=
  if lex_leb (fst a) (fst b) then (if lex_leb (fst b) (fst a) then (snd a <=? snd b)%Z else true) else false.

(* ---------- the sets ---------------------------------------------------------------------------- *)
Record wset := mkWS { ws_letter : string; ws_number : Z; ws_indices : list nat; ws_mult : nat }.
Definition ws_key (s : wset) : key := (codes (ws_letter s), ws_number s).

Definition build_set (eq : list nat) (letters : list string) (numbers : list Z) (vi : nat * nat) : option wset :=
  match nth_error letters (snd vi), nth_error numbers (snd vi) with
  | Some l, Some z => let idx := fibre eq (fst vi) in Some (mkWS l z idx (List.length idx))
  | _, _ => None
  end.

Definition letter_known (valid : list string) (s : string) : bool := existsb (String.eqb s) valid.

(* [valid] = the Wyckoff letters of the table of the space group (WYCKOFF_SETS[space_group][letter]
   is looked up for every set) *)
Definition sets_unsorted (valid : list string) (eq : list nat) (letters : list string) (numbers : list Z)
  : option (list wset) :=
  if (List.length letters =? List.length eq)%nat && (List.length numbers =? List.length eq)%nat then
    match all_some (map (build_set eq letters numbers) (unique_first eq)) with
    | Some ss => if forallb (fun s => letter_known valid (ws_letter s)) ss then Some ss else None
    | None => None
    end
  else None.

(* sorted(): stable; insertion from the right keeps earlier elements first among equal keys *)
Fixpoint insert_set (x : wset) (l : list wset) : list wset :=
  match l with
  | [] => [x]
  | y :: t => if key_leb (ws_key x) (ws_key y) then x :: l else y :: insert_set x t
  end.
Definition sort_sets (l : list wset) : list wset := fold_right insert_set [] l.

Definition wyckoff_sets (valid : list string) (eq : list nat) (letters : list string) (numbers : list Z)
  : option (list wset) :=
  match sets_unsorted valid eq letters numbers with Some ss => Some (sort_sets ss) | None => None end.

(* what get_material_id and the normal-form properties consume *)
Definition summary (s : wset) : string * Z * nat := (ws_letter s, ws_number s, ws_mult s).

(* ---------- agreement relation used by the correspondence ------------------------------------- *)
Definition nat_list_eqb (a b : list nat) : bool :=
  (List.length a =? List.length b)%nat && forallb (fun p => fst p =? snd p) (combine a b).
Definition str_list_eqb (a b : list string) : bool :=
  (List.length a =? List.length b)%nat && forallb (fun p => String.eqb (fst p) (snd p)) (combine a b).
Definition z_list_eqb (a b : list Z) : bool :=
  (List.length a =? List.length b)%nat && forallb (fun p => (fst p =? snd p)%Z) (combine a b).
Definition wset_eqb (a b : wset) : bool :=
  String.eqb (ws_letter a) (ws_letter b) && (ws_number a =? ws_number b)%Z
  && nat_list_eqb (ws_indices a) (ws_indices b) && (ws_mult a =? ws_mult b)%nat.
Definition wsets_eqb (a b : list wset) : bool :=
  (List.length a =? List.length b)%nat && forallb (fun p => wset_eqb (fst p) (snd p)) (combine a b).

(* the implementation's list of sets (in the order returned) equals the model's, exactly *)
Definition sets_agree (valid : list string) (eq : list nat) (letters : list string) (numbers : list Z)
  (impl : list wset) : bool :=
  match wyckoff_sets valid eq letters numbers with
  | Some ss => wsets_eqb ss impl
  | None => false
  end.
