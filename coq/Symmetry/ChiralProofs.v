(* C15 -- proofs about the chirality decision (model in Chiral.v). *)
From Coq Require Import ZArith List Bool Lia.
Import ListNotations.
From MV Require Import Symmetry.Table Symmetry.Affine Symmetry.Chiral
  Reflect.GroupChecks Reflect.NormChecks Reflect.NormChecksProofs.
Open Scope Z_scope.

(* ---------- what the loop decides -------------------------------------------------------------- *)
Lemma is_chiral_spec rots : is_chiral rots = true <-> forall r, In r rots -> mdet r <> -1.
Proof.
  unfold is_chiral. rewrite forallb_forall. split; intros H r Hr; specialize (H r Hr).
  - rewrite negb_true_iff, Z.eqb_neq in H. exact H.
  - rewrite negb_true_iff, Z.eqb_neq. exact H.
Qed.

Lemma is_chiral_false_iff rots : is_chiral rots = false <-> exists r, In r rots /\ mdet r = -1.
Proof.
  unfold is_chiral. split.
  - intros H. induction rots as [|x xs IH]; simpl in H; [discriminate|].
    apply andb_false_iff in H. destruct H as [H|H].
    + exists x. split; [left; reflexivity|]. apply negb_false_iff, Z.eqb_eq in H. exact H.
    + destruct (IH H) as [r [Hr Hd]]. exists r. split; [right; exact Hr | exact Hd].
  - intros [r [Hr Hd]]. destruct (forallb (fun r0 => negb (mdet r0 =? -1)) rots) eqn:E; [|reflexivity].
    rewrite forallb_forall in E. specialize (E r Hr). rewrite Hd in E. discriminate.
Qed.

(* when every determinant is +1 or -1 (true of every crystallographic operation in a lattice basis):
   the flag is true exactly when all operations are proper *)
Theorem is_chiral_iff_all_proper rots :
  (forall r, In r rots -> mdet r = 1 \/ mdet r = -1) ->
  (is_chiral rots = true <-> forall r, In r rots -> mdet r = 1).
Proof.
  intros Hu. rewrite is_chiral_spec. split; intros H r Hr.
  - destruct (Hu r Hr) as [E|E]; [exact E|]. exfalso. exact (H r Hr E).
  - rewrite (H r Hr). lia.
Qed.

(* on the rotation parts of a list of operations this is C14's [all_proper] *)
Lemma is_chiral_all_proper (G : list op) :
  (forall g, In g G -> mdet (fst g) = 1 \/ mdet (fst g) = -1) ->
  is_chiral (map fst G) = all_proper G.
Proof.
  intros Hu. apply eq_true_iff_eq. rewrite is_chiral_iff_all_proper.
  - unfold all_proper. rewrite forallb_forall. split.
    + intros H g Hg. apply Z.eqb_eq. apply H. apply in_map. exact Hg.
    + intros H r Hr. apply in_map_iff in Hr. destruct Hr as [g [<- Hg]]. apply Z.eqb_eq. apply H. exact Hg.
  - intros r Hr. apply in_map_iff in Hr. destruct Hr as [g [<- Hg]]. apply Hu. exact Hg.
Qed.

(* the flag depends only on the SET of determinants: order and multiplicity (supercells list every
   rotation once per lattice translation inside the cell) are irrelevant *)
Lemma is_chiral_ext_dets l1 l2 :
  (forall d, In d (map mdet l1) <-> In d (map mdet l2)) -> is_chiral l1 = is_chiral l2.
Proof.
  intros H. apply eq_true_iff_eq. rewrite !is_chiral_spec. split; intros K r Hr E.
  - assert (Hin : In (-1) (map mdet l1)) by (apply H; rewrite <- E; apply in_map; exact Hr).
    apply in_map_iff in Hin. destruct Hin as [r1 [E1 H1]]. exact (K r1 H1 E1).
  - assert (Hin : In (-1) (map mdet l2)) by (apply H; rewrite <- E; apply in_map; exact Hr).
    apply in_map_iff in Hin. destruct Hin as [r2 [E2 H2]]. exact (K r2 H2 E2).
Qed.

Lemma is_chiral_ext l1 l2 : (forall r, In r l1 <-> In r l2) -> is_chiral l1 = is_chiral l2.
Proof.
  intros H. apply is_chiral_ext_dets. intros d. rewrite !in_map_iff.
  split; intros [r [E Hr]]; exists r; (split; [exact E | apply H; exact Hr]).
Qed.

Lemma is_chiral_app l1 l2 : is_chiral (l1 ++ l2) = is_chiral l1 && is_chiral l2.
Proof. unfold is_chiral. apply forallb_app. Qed.

(* ---------- basis independence ------------------------------------------------------------------
   P = Pz / d (Pz integer, det Pz <> 0, d > 0) is an arbitrary rational change of basis: unimodular
   (|det P| = 1), a supercell (|det P| = 2, 3, 4, ...), a sublattice (|det P| < 1), with or without a
   change of orientation.  R' = P^-1 R P  <=>  P R' = R P  <=>  Pz R' = R Pz. *)
Lemma intertwine_det Pz r r' : mdet Pz <> 0 -> mmul r Pz = mmul Pz r' -> mdet r' = mdet r.
Proof.
  intros HP H. apply (f_equal mdet) in H. rewrite !mdet_mmul in H.
  apply (Z.mul_reg_l _ _ (mdet Pz) HP). rewrite <- H. ring.
Qed.

Theorem is_chiral_basis_independent Pz rots rots' :
  mdet Pz <> 0 ->
  Forall2 (fun r r' => mmul r Pz = mmul Pz r') rots rots' ->
  is_chiral rots' = is_chiral rots.
Proof.
  intros HP H. induction H as [|r r' l l' Hr _ IH]; [reflexivity|].
  unfold is_chiral in *. simpl. rewrite IH. rewrite (intertwine_det Pz r r' HP Hr). reflexivity.
Qed.

(* the same with an explicit integer inverse (unimodular change of basis): det (P^-1 R P) = det R *)
Lemma conj_det P Pinv r : mmul P Pinv = mid -> mdet (mmul Pinv (mmul r P)) = mdet r.
Proof.
  intros H. apply (f_equal mdet) in H. rewrite mdet_mmul in H.
  change (mdet mid) with 1 in H. rewrite !mdet_mmul.
  transitivity (mdet r * (mdet P * mdet Pinv)); [ring | rewrite H; ring].
Qed.

Theorem is_chiral_unimodular_conjugate P Pinv rots :
  mmul P Pinv = mid ->
  is_chiral (map (fun r => mmul Pinv (mmul r P)) rots) = is_chiral rots.
Proof.
  intros H. unfold is_chiral. induction rots as [|r l IH]; [reflexivity|].
  simpl. rewrite IH, (conj_det P Pinv r H). reflexivity.
Qed.

(* ---------- the spglib contract: what is scanned is the group, in some basis ---------------------- *)
Section Contract.
  Variable ref_rots : list m3.   (* rotation parts of the detected group in the standard setting *)
  Variable scanned : list m3.    (* the matrices get_is_chiral scans *)
  Variable Pz : m3.              (* numerator of the (rational) basis they are expressed in *)
  Hypothesis HP : mdet Pz <> 0.
  Hypothesis sound : forall r', In r' scanned -> exists r, In r ref_rots /\ mmul r Pz = mmul Pz r'.

  Lemma scanned_improper_ref : is_chiral scanned = false -> is_chiral ref_rots = false.
  Proof.
    rewrite !is_chiral_false_iff. intros [r' [Hr' Hd]]. destruct (sound r' Hr') as [r [Hr Hc]].
    exists r. split; [exact Hr|]. rewrite <- (intertwine_det Pz r r' HP Hc). exact Hd.
  Qed.

  Hypothesis complete : forall r, In r ref_rots -> exists r', In r' scanned /\ mmul r Pz = mmul Pz r'.

  Lemma scanned_chiral_eq : is_chiral scanned = is_chiral ref_rots.
  Proof.
    apply is_chiral_ext_dets. intros d. rewrite !in_map_iff. split.
    - intros [r' [E Hr']]. destruct (sound r' Hr') as [r [Hr Hc]]. exists r. split; [|exact Hr].
      rewrite <- E. symmetry. exact (intertwine_det Pz r r' HP Hc).
    - intros [r [E Hr]]. destruct (complete r Hr) as [r' [Hr' Hc]]. exists r'. split; [|exact Hr'].
      rewrite <- E. exact (intertwine_det Pz r r' HP Hc).
  Qed.
End Contract.

(* ---------- the boolean certificate check of the contract means the contract --------------------- *)
Lemma conj_ok_eq Pz r r' : conj_ok Pz r r' = true <-> mmul r Pz = mmul Pz r'.
Proof. unfold conj_ok. apply m3_eqb_eq. Qed.

Lemma s4_sound_b_spec Pz ref scanned :
  s4_sound_b Pz ref scanned = true ->
  forall r', In r' scanned -> exists r, In r ref /\ mmul r Pz = mmul Pz r'.
Proof.
  unfold s4_sound_b. rewrite forallb_forall. intros H r' Hr'. specialize (H r' Hr').
  apply existsb_exists in H. destruct H as [r [Hr Hc]]. exists r. split; [exact Hr | apply conj_ok_eq; exact Hc].
Qed.

Lemma s4_complete_b_spec Pz ref scanned :
  s4_complete_b Pz ref scanned = true ->
  forall r, In r ref -> exists r', In r' scanned /\ mmul r Pz = mmul Pz r'.
Proof.
  unfold s4_complete_b. rewrite forallb_forall. intros H r Hr. specialize (H r Hr).
  apply existsb_exists in H. destruct H as [r' [Hr' Hc]]. exists r'. split; [exact Hr' | apply conj_ok_eq; exact Hc].
Qed.

(* a complete scan that passes the check decides the chirality of the reference group *)
Lemma s4_b_full Pz ref scanned : s4_b Pz ref scanned true = true -> is_chiral scanned = is_chiral ref.
Proof.
  unfold s4_b. rewrite !andb_true_iff. simpl. intros [[HP Hs] Hc].
  apply negb_true_iff, Z.eqb_neq in HP.
  exact (scanned_chiral_eq ref scanned Pz HP (s4_sound_b_spec _ _ _ Hs) (s4_complete_b_spec _ _ _ Hc)).
Qed.

(* an early exit that passes the check has found an improper operation of the reference group *)
Lemma s4_b_prefix Pz ref scanned :
  s4_b Pz ref scanned false = true -> is_chiral scanned = false -> is_chiral ref = false.
Proof.
  unfold s4_b. rewrite !andb_true_iff. intros [[HP Hs] _].
  apply negb_true_iff, Z.eqb_neq in HP.
  exact (scanned_improper_ref ref scanned Pz HP (s4_sound_b_spec _ _ _ Hs)).
Qed.

(* what a passing case of the correspondence establishes: the implementation's flag is the chirality of
   the reference group of the number it reported *)
Theorem case_conj_sound ref flag scanned cands :
  case_conj ref flag scanned cands = true -> flag = is_chiral ref.
Proof.
  unfold case_conj. rewrite !andb_true_iff. intros [[Hm _] Hex].
  apply eqb_prop in Hm. apply existsb_exists in Hex. destruct Hex as [Pz [_ Hs]].
  destruct flag.
  - rewrite <- Hm. exact (s4_b_full Pz ref scanned Hs).
  - symmetry. exact (s4_b_prefix Pz ref scanned Hs Hm).
Qed.

(* ---------- the list of 65 ------------------------------------------------------------------------ *)
Lemma zmem_In z l : zmem z l = true <-> In z l.
Proof.
  unfold zmem. rewrite existsb_exists. split.
  - intros [y [Hy E]]. apply Z.eqb_eq in E. subst. exact Hy.
  - intros H. exists z. split; [exact H | apply Z.eqb_refl].
Qed.

Lemma is_sohncke_In n : is_sohncke n = true <-> In n sohncke65.
Proof. apply zmem_In. Qed.

Example sohncke65_has_65_distinct_numbers_in_range :
  List.length sohncke65 = 65%nat /\ NoDup sohncke65 /\ forall n, In n sohncke65 -> 1 <= n <= 230.
Proof.
  split; [reflexivity|]. split.
  - assert (H : nodup_by Z.eqb sohncke65 = true) by (vm_compute; reflexivity).
    revert H. generalize sohncke65. induction l as [|x xs IH]; intros H; [constructor|].
    simpl in H. apply andb_true_iff in H. destruct H as [H1 H2]. constructor; [|exact (IH H2)].
    intros Hin. apply negb_true_iff in H1.
    assert (existsb (Z.eqb x) xs = true) by (apply existsb_exists; exists x; split; [exact Hin | apply Z.eqb_refl]).
    congruence.
  - assert (H : forallb (fun n => (1 <=? n) && (n <=? 230)) sohncke65 = true) by (vm_compute; reflexivity).
    rewrite forallb_forall in H. intros n Hn. specialize (H n Hn).
    apply andb_true_iff in H. destruct H as [H1 H2]. apply Z.leb_le in H1, H2. lia.
Qed.

(* ---------- non-vacuity of the conditional statements -------------------------------------------- *)
(* the mirror m_y of Pm in the sheared basis a' = a, b' = a + b (Pz = columns of the new basis): *)
Example shear_example :
  let Pz := ((1, 1, 0), (0, 1, 0), (0, 0, 1)) in
  let my := ((1, 0, 0), (0, -1, 0), (0, 0, 1)) in
  let my' := ((1, 2, 0), (0, -1, 0), (0, 0, 1)) in
  mdet Pz <> 0 /\ Forall2 (fun r r' => mmul r Pz = mmul Pz r') [mid; my] [mid; my']
  /\ is_chiral [mid; my'] = false /\ is_chiral [mid; my] = false.
Proof.
  cbv zeta. split; [vm_compute; discriminate|]. split.
  - constructor; [vm_compute; reflexivity|]. constructor; [vm_compute; reflexivity|]. constructor.
  - split; reflexivity.
Qed.

(* a supercell (det Pz = 3) that the mirror does NOT keep invariant has no integer m_y': the contract's
   completeness clause is what excludes a scan that lost the mirror *)
Example supercell_example :
  let Pz := ((1, 0, 0), (2, 3, 0), (0, 0, 1)) in
  let my := ((1, 0, 0), (0, -1, 0), (0, 0, 1)) in
  mdet Pz = 3 /\ s4_b Pz [mid; my] [mid; mid; mid] false = true /\ s4_b Pz [mid; my] [mid; mid; mid] true = false.
Proof. cbv zeta. repeat split; vm_compute; reflexivity. Qed.
