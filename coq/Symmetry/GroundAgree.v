(* Agreement relation of the C05/C06 correspondence: the normalizer the implementation chose (index in
   the table, 0 = identity) and the letters it reports for the conventional atoms, against the model run
   on the same spglib letters and species. *)
From Coq Require Import ZArith List String Bool Arith.
Import ListNotations.
From MV Require Import Symmetry.GroundState.

Definition opt_str_eq (a b : option string) : bool :=
  match a, b with Some x, Some y => String.eqb x y | None, None => true | _, _ => false end.
Fixpoint opt_list_eqb (a b : list (option string)) : bool :=
  match a, b with
  | [], [] => true
  | x :: a', y :: b' => opt_str_eq x y && opt_list_eqb a' b'
  | _, _ => false end.

Definition gs_agree (tp : list perm) (L : list string) (Zs : list Z) (k : nat) (L' : list (option string)) : bool :=
  match ground_state L Zs tp with
  | Chosen c => (c_idx c =? k) && opt_list_eqb (new_letters c L) L'
  | TieError => false end.

(* what the model chooses, for diagnostics *)
Definition gs_choice (tp : list perm) (L : list string) (Zs : list Z) : option nat :=
  match ground_state L Zs tp with Chosen c => Some (c_idx c) | TieError => None end.
