(* C20 -- cell and frame helpers preserve the physical structure.
   Only statements closed by [exact]; the model is coq/Geometry/Frame.v (executable, over Q), tied to
   /repo on every run by the correspondence check of harness/props/c20.py.  Norms enter as an extra
   argument with the hypothesis L * L == c . c (no square roots).  The periodic centre of mass is
   treated over Coq's Reals in Geometry/ComReals.v (arctan2 characterised by its defining relation). *)
From Coq Require Import ZArith QArith Qabs List Bool Reals.
Import ListNotations.
From MV Require Import Geometry.Frame Geometry.FrameProofs Geometry.ComReals Geometry.ComInterval.
Open Scope Q_scope.

(* to_scaled and to_cartesian are mutual inverses for every non-singular cell *)
Theorem C20_scaled_cartesian_inverse :
  forall m, ~ det m == 0 ->
    (forall p, veq (to_cartesian m (to_scaled m p)) p) /\ (forall s, veq (to_scaled m (to_cartesian m s)) s).
Proof. exact scaled_cartesian_inverse. Qed.
Print Assumptions C20_scaled_cartesian_inverse.

(* wrapping leaves non-periodic components untouched (syntactically) and changes periodic ones by an
   integer, into [0,1) *)
Theorem C20_wrap_integer_on_pbc_only :
  forall pbc s ax,
    (getb ax pbc = false -> getc ax (wrap_v pbc s) = getc ax s) /\
    (getb ax pbc = true ->
       0 <= getc ax (wrap_v pbc s) /\ getc ax (wrap_v pbc s) < 1 /\
       exists k : Z, getc ax (wrap_v pbc s) == getc ax s - inject_Z k).
Proof. exact wrap_integer_on_pbc_only. Qed.
Print Assumptions C20_wrap_integer_on_pbc_only.

(* to_scaled(..., wrap=True, pbc): the wrapped atom is the original one moved by a lattice vector
   with zero coefficient along every non-periodic direction *)
Theorem C20_wrap_moves_by_lattice_vector :
  forall m p pbc, ~ det m == 0 ->
    exists k0 k1 k2 : Z,
      (bx (expand_pbc pbc) = false -> k0 = 0%Z) /\ (by_ (expand_pbc pbc) = false -> k1 = 0%Z) /\
      (bz (expand_pbc pbc) = false -> k2 = 0%Z) /\
      veq (to_cartesian m (to_scaled_w m p true pbc))
          (vsub p (to_cartesian m (mkV (inject_Z k0) (inject_Z k1) (inject_Z k2)))).
Proof. exact wrap_moves_by_lattice_vector. Qed.
Print Assumptions C20_wrap_moves_by_lattice_vector.

(* get_wrapped_positions: result in [0,1), an integer shift up to the snapping precision *)
Theorem C20_get_wrapped_positions_spec :
  forall prec q, 0 < prec ->
    0 <= wrapped_snap1 prec q /\ wrapped_snap1 prec q < 1 /\
    exists k : Z, Qabs (wrapped_snap1 prec q - (q - inject_Z k)) < prec.
Proof. exact wrapped_snap_spec. Qed.
Print Assumptions C20_get_wrapped_positions_spec.

(* get_minimized_cell: see mc_spec in FrameProofs.v -- same species/pbc/atom count; all atoms moved
   by one common translation along the axis; the other two cell vectors untouched; the new axis
   vector a positive multiple of the old one, of squared length max(extent^2, min_size^2) with
   extent = (smax - smin) * L; cell stays non-singular; every atom's scaled coordinate along the
   axis in [0,1], the other scaled coordinates unchanged; when padded min + max = 1 (both
   attained); when not padded 0 and 1 are attained *)
Theorem C20_minimized_cell_spec :
  forall m pbc nums ps ax ms L,
    ~ det m == 0 -> ps <> [] -> 0 < ms -> 0 < L -> L * L == dot (row ax m) (row ax m) ->
    mc_spec m pbc nums ps ax ms L (min_cell m pbc nums ps ax ms L).
Proof. exact minimized_cell_spec. Qed.
Print Assumptions C20_minimized_cell_spec.

(* ... in particular all mutual displacements between atoms are unchanged *)
Theorem C20_minimized_cell_displacements :
  forall m pbc nums ps ax ms L,
    ~ det m == 0 -> ps <> [] -> 0 < ms -> 0 < L -> L * L == dot (row ax m) (row ax m) ->
    let r := min_cell m pbc nums ps ax ms L in
    forall i j d, (i < length ps)%nat -> (j < length ps)%nat ->
      veq (vsub (nth i (mc_pos r) d) (nth j (mc_pos r) d)) (vsub (nth i ps d) (nth j ps d)).
Proof. exact minimized_cell_displacements. Qed.
Print Assumptions C20_minimized_cell_displacements.

(* non-vacuity of the hypotheses, and both branches on a sheared cell *)
Example C20_minimized_cell_hypotheses_satisfiable :
  ~ det ex_cell == 0 /\ ex_atoms <> [] /\ 6 * 6 == dot (row A2 ex_cell) (row A2 ex_cell).
Proof. exact minimized_cell_hyps. Qed.
Print Assumptions C20_minimized_cell_hypotheses_satisfiable.

(* swap_basis exchanges the two cell vectors and their pbc flags, leaves the third and the atoms *)
Theorem C20_swap_basis_spec :
  forall s a b,
    let r := swap_basis s a b in
    row a (s_cell r) = row b (s_cell s) /\ row b (s_cell r) = row a (s_cell s) /\
    getb a (s_pbc r) = getb b (s_pbc s) /\ getb b (s_pbc r) = getb a (s_pbc s) /\
    (forall c, c <> a -> c <> b -> row c (s_cell r) = row c (s_cell s) /\ getb c (s_pbc r) = getb c (s_pbc s)) /\
    s_pos r = s_pos s.
Proof. exact swap_basis_spec. Qed.
Print Assumptions C20_swap_basis_spec.

(* complete_cell: orthogonal to both inputs, squared length = length^2 (N is |a x b|) *)
Theorem C20_complete_cell_spec :
  forall a b len N, ~ N == 0 -> N * N == dot (cross a b) (cross a b) ->
    let c := complete_cell a b len N in
    dot c a == 0 /\ dot c b == 0 /\ dot c c == len * len.
Proof. exact complete_cell_spec. Qed.
Print Assumptions C20_complete_cell_spec.

Example C20_complete_cell_example :
  let a := mkV 1 2 2 in let b := mkV 2 1 (-2) in
  9 * 9 == dot (cross a b) (cross a b) /\ veq (complete_cell a b (3#2) 9) (mkV (-1) 1 (-(1#2))).
Proof. exact complete_cell_example. Qed.
Print Assumptions C20_complete_cell_example.

(* the matrix get_moments_of_inertia assembles is symmetric and is the tensor of the docstring *)
Theorem C20_inertia_tensor_symmetric :
  forall ws ps c, transpose (inertia ws ps c) = inertia ws ps c.
Proof. exact inertia_tensor_symmetric. Qed.
Print Assumptions C20_inertia_tensor_symmetric.

Theorem C20_inertia_matches_definition :
  forall ws ps c i j,
    ment (inertia ws ps c) i j ==
    wsum ws (map (fun p => (if axis_eqb i j then dotR (d c p) (d c p) else 0) - getc i (d c p) * getc j (d c p)) ps).
Proof. exact inertia_matches_definition. Qed.
Print Assumptions C20_inertia_matches_definition.

(* the tensor about the centre is invariant under a rigid translation (atoms and centre moved by t) *)
Theorem C20_inertia_translation_invariant_about_com :
  forall ws ps c t, meq (inertia ws (map (vadd t) ps) (vadd t c)) (inertia ws ps c).
Proof. exact inertia_translation_invariant. Qed.
Print Assumptions C20_inertia_translation_invariant_about_com.

(* periodic centre of mass (Reals): integer shifts of individual atoms change neither circular sum,
   hence not the set of admissible results *)
Theorem C20_com_lattice_shift_invariant :
  forall ms ss ks,
    xi ms (shift ss ks) = xi ms ss /\ zeta ms (shift ss ks) = zeta ms ss /\
    (forall r, is_com_rel ms (shift ss ks) r <-> is_com_rel ms ss r).
Proof. exact com_lattice_shift_invariant. Qed.
Print Assumptions C20_com_lattice_shift_invariant.

(* a rigid translation t moves the centre by t modulo 1 (non-zero resultant: inside is_com_rel) *)
Theorem C20_com_translation_equivariant :
  forall ms ss t r r', is_com_rel ms ss r -> is_com_rel ms (map (fun s => (s + t)%R) ss) r' ->
    exists k : Z, r' = (r + t + IZR k)%R.
Proof. exact com_translation_equivariant. Qed.
Print Assumptions C20_com_translation_equivariant.

Theorem C20_com_rel_unique_mod_1 :
  forall ms ss r r', is_com_rel ms ss r -> is_com_rel ms ss r' -> exists k : Z, r' = (r + IZR k)%R.
Proof. exact com_rel_unique_mod_1. Qed.
Print Assumptions C20_com_rel_unique_mod_1.

Example C20_is_com_rel_example : is_com_rel [3; 1]%R [0; / 2]%R 0%R.
Proof. exact is_com_rel_example. Qed.
Print Assumptions C20_is_com_rel_example.

(* the executable checker the correspondence applies to every returned periodic centre of mass is sound: acceptance means
   that 2 pi r is EXACTLY an angle of a resultant within eps (per component) of the true one (backward error).
   Interval arithmetic of CoqInterval; Print Assumptions lists the standard-library axioms of the Reals and classical logic. *)
Definition C20_backward_error (ms ss : list Q) (r eps : Q) : Prop :=
  exists e1 e2 : R,
    and (Rle (Rabs e1) (Q2R eps))
      (and (Rle (Rabs e2) (Q2R eps))
         (com_angle (Rplus (xi (Rl ms) (Rl ss)) e1) (Rplus (zeta (Rl ms) (Rl ss)) e2) (Rmult (Rmult 2%R PI) (Q2R r)))).
Theorem C20_com_checker_sound :
  forall (ms ss : list Q) (r eps : Q), com_check ms ss r eps = true -> C20_backward_error ms ss r eps.
Proof. exact com_check_sound. Qed.
Print Assumptions C20_com_checker_sound.

Example C20_com_checker_accepts : com_check [3; 1]%Q [0; 1 # 2]%Q 0%Q (1 # 1000000000)%Q = true.
Proof. exact com_check_accepts. Qed.
Print Assumptions C20_com_checker_accepts.
Example C20_com_checker_rejects_opposite : com_check [3; 1]%Q [0; 1 # 2]%Q (1 # 2)%Q (1 # 1000000000)%Q = false.
Proof. exact com_check_rejects_opposite. Qed.
Print Assumptions C20_com_checker_rejects_opposite.
