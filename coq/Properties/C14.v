(* C14 -- the built-in space-group tables agree with the International Tables, all 230 groups.
   Only statements closed by [exact].  [tables] is re-translated from matid/data/symmetry_data.py on
   every run; [ref_of] is spglib's Hall database for the standard setting; the checkers are defined
   in Reflect/GroupChecks.v and Reflect/NormChecks.v, their meaning proved in Reflect/*Proofs.v. *)
From Coq Require Import ZArith List String Bool.
Import ListNotations.
From MV Require Import Symmetry.Table Symmetry.Affine Reflect.GroupChecks Reflect.GroupChecksProofs
  Reflect.NormChecks Reflect.NormChecksProofs Reflect.CertProofs.
From MVD Require Import Generated.SGAll Generated.RefSpglib Generated.ChkAll Inst.C14Inst.
Open Scope Z_scope.

(* the translated table list is exactly the groups 1..230, in order *)
Theorem C14_tables_cover_all_230_groups : map sg_num tables = map Z.of_nat (seq 1 230).
Proof. exact tables_numbered. Qed.
Print Assumptions C14_tables_cover_all_230_groups.

(* 1. every algebraic expression string parses to exactly its numeric matrix column and constant
      (constants accepted only within 1e-7 of a multiple of 1/24); declared variables = occurring ones;
      letters are pairwise distinct *)
Theorem C14_expressions_equal_numeric : forall t, In t tables -> chk_exprs t = true /\ chk_letters t = true.
Proof. exact (fun t Ht => conj (exprs_all t Ht) (letters_all t Ht)). Qed.
Print Assumptions C14_expressions_equal_numeric.

(* 2. the general position (re-based by its first representative) is a group under composition modulo
      lattice translations and equals the standard-setting group of spglib's Hall database *)
Theorem C14_general_position_is_the_standard_group :
  forall t tr ws gp, In t tables ->
    conv_trans t = Some tr -> conv_wycks t = Some ws -> general_position ws = Some gp ->
    NoDup (group_ops tr gp)
    /\ In (mid, (0, 0, 0)) (group_ops tr gp)
    /\ (forall a b, In a (group_ops tr gp) -> In b (group_ops tr gp) -> In (op_compose a b) (group_ops tr gp))
    /\ (forall g, In g (group_ops tr gp) <-> In g (ref_of (sg_num t)))
    /\ (forall g, In g (group_ops tr gp) -> mdet (fst g) = 1 \/ mdet (fst g) = -1).
Proof. exact group_semantics. Qed.
Print Assumptions C14_general_position_is_the_standard_group.

(* ... and every table does convert (no hypothesis of the previous theorem is vacuous) *)
Theorem C14_every_table_converts : forall t, In t tables ->
  exists tr ws gp, conv_trans t = Some tr /\ conv_wycks t = Some ws /\ general_position ws = Some gp.
Proof. exact tables_convert. Qed.
Print Assumptions C14_every_table_converts.

(* 3. every listed Wyckoff position: expressions x centrings are pairwise distinct (their number is the
      multiplicity), and FOR EVERY PARAMETER VALUE wv the positions are permuted by every group
      operation and form one orbit of the first representative *)
Theorem C14_wyckoff_positions_are_orbits :
  forall t tr ws gp w, In t tables ->
    conv_trans t = Some tr -> conv_wycks t = Some ws -> general_position ws = Some gp -> In w ws ->
    NoDup (full_exprs tr w)
    /\ (forall wv : v3,
          (forall g p, In g (group_ops tr gp) -> In p (map (fun e => aff_eval e wv) (full_exprs tr w)) ->
                       In (op_apply g p) (map (fun e => aff_eval e wv) (full_exprs tr w)))
          /\ (exists e1, hd_error (iw_exprs w) = Some e1 /\
              forall p, In p (map (fun e => aff_eval e wv) (full_exprs tr w)) ->
                        exists g, In g (group_ops tr gp) /\ op_apply g (aff_eval e1 wv) = p)).
Proof. exact orbit_semantics. Qed.
Print Assumptions C14_wyckoff_positions_are_orbits.

(* 4. crystal system from the number range, point-group symbol from the (trace, det) census of the
      rotation parts, Pearson symbol = family letter + centring class (side-centrings merged) *)
Theorem C14_info_matches_group : forall t, In t tables -> chk_info t = true.
Proof. exact info_all. Qed.
Print Assumptions C14_info_matches_group.

(* 5. every tabulated normalizer is unimodular, maps the group onto itself, preserves every metric of the
      crystal system (basis of the metric space; linearity: NormChecksProofs.metric_linear), preserves
      handedness when the group has no improper operation, and permutes the Wyckoff letters as tabulated
      (certificate-checked subspace equality for the first representative of every letter) *)
Theorem C14_normalizers :
  forall t tr ws gp k rn cs, In t tables ->
    conv_trans t = Some tr -> conv_wycks t = Some ws -> general_position ws = Some gp ->
    nth_error (sg_norms t) k = Some rn -> nth_error (certs_of (sg_num t)) k = Some cs ->
    exists n, norm_to_op rn = Some n
      /\ (mdet (fst n) = 1 \/ mdet (fst n) = -1)
      /\ (op_compose n (op_inv n) = idop /\ op_compose (op_inv n) n = idop
        /\ forall g, In g (group_ops tr gp) -> In (op_compose n (op_compose g (op_inv n))) (group_ops tr gp)
                                              /\ In (op_compose (op_inv n) (op_compose g n)) (group_ops tr gp))
      /\ (forall b, In b (metric_basis (sg_num t)) -> mmul (mtrans (fst n)) (mmul b (fst n)) = b)
      /\ (all_proper (group_ops tr gp) = true -> mdet (fst n) = 1)
      /\ perm_wellformed (map iw_letter ws) (n_perm rn) = true
      /\ letters_ok tr ws n (n_perm rn) cs = true.
Proof. exact normalizer_semantics. Qed.
Print Assumptions C14_normalizers.

(* meaning of the clause [letters_ok] above: for every letter, n maps the family of its first
   representative -- for ALL rational parameter values -- onto the family of an expression of the
   tabulated image letter, up to an integer lattice vector (and by C14.3 + "n normalises the group" the
   whole orbit family of the letter onto the whole family of the image letter) *)
Theorem C14_normalizer_maps_letter_families :
  forall tr ws n p cs, letters_ok tr ws n p cs = true ->
  forall w c, In (w, c) (combine ws cs) ->
    exists l' w' e1 e2, perm_get p (iw_letter w) = Some l' /\ find_wyck ws l' = Some w'
      /\ hd_error (iw_exprs w) = Some e1 /\ nth_error (full_exprs tr w') (lc_j c) = Some e2
      /\ (forall W, exists W', q3eq (aff_evalQ (act n e1) W) (q3add (aff_evalQ e2 W') (z_as_Q (lc_z c))))
      /\ (forall W', exists W, q3eq (q3add (aff_evalQ e2 W') (z_as_Q (lc_z c))) (aff_evalQ (act n e1) W)).
Proof. exact letter_families. Qed.
Print Assumptions C14_normalizer_maps_letter_families.

(* one certificate list per normalizer, and the letter permutations (also those of the proper
   normalizers alone) are closed under composition *)
Theorem C14_normalizer_permutations_form_a_group :
  forall t, In t tables -> chk_norms t (certs_of (sg_num t)) = true /\ chk_proper_perms_closed t = true.
Proof. exact (fun t Ht => conj (norms_all t Ht) (proper_perms_all t Ht)). Qed.
Print Assumptions C14_normalizer_permutations_form_a_group.
