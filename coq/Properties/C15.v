(* C15 -- the chirality flag is true exactly for the 65 Sohncke space groups.
   Only statements closed by [exact].  [is_chiral] (Symmetry/Chiral.v) mirrors the loop of
   SymmetryAnalyzer.get_is_chiral in exact integer arithmetic; [tables] is re-translated from
   matid/data/symmetry_data.py on every run; [ref_of] is spglib's Hall database (standard setting);
   [sohncke65] is the list of the 65 Sohncke numbers transcribed from ITA.  spglib itself is an oracle:
   its contract appears as hypotheses (S4_sound / S4_complete) and is validated per run by the case
   files ([case_conj], whose meaning is C15_case_files_establish_the_property). *)
From Coq Require Import ZArith List String Bool.
Import ListNotations.
From MV Require Import Symmetry.Table Symmetry.Affine Symmetry.Chiral Symmetry.ChiralProofs
  Reflect.GroupChecks Reflect.NormChecks.
From MVD Require Import Generated.SGAll Generated.RefSpglib Generated.ChkAll Inst.C14Inst Inst.C15Inst.
Open Scope Z_scope.

(* 1. the decision: when every determinant is +-1, the flag is true iff every operation is proper *)
Theorem C15_is_chiral_iff_all_proper : forall rots,
  (forall r, In r rots -> mdet r = 1 \/ mdet r = -1) ->
  (is_chiral rots = true <-> forall r, In r rots -> mdet r = 1).
Proof. exact is_chiral_iff_all_proper. Qed.
Print Assumptions C15_is_chiral_iff_all_proper.

(* 2. basis independence: rots' = the same operations in ANY rational basis P = Pz/d (det Pz <> 0:
      unimodular changes, supercells of any index, sublattices, either orientation), R' = P^-1 R P
      written without division as R Pz = Pz R' *)
Theorem C15_is_chiral_basis_independent : forall Pz rots rots',
  mdet Pz <> 0 ->
  Forall2 (fun r r' => mmul r Pz = mmul Pz r') rots rots' ->
  is_chiral rots' = is_chiral rots.
Proof. exact is_chiral_basis_independent. Qed.
Print Assumptions C15_is_chiral_basis_independent.

(* 2'. with an explicit integer inverse (unimodular P): det (P^-1 R P) = det R *)
Theorem C15_is_chiral_unimodular_conjugate : forall P Pinv rots,
  mmul P Pinv = mid ->
  is_chiral (map (fun r => mmul Pinv (mmul r P)) rots) = is_chiral rots.
Proof. exact is_chiral_unimodular_conjugate. Qed.
Print Assumptions C15_is_chiral_unimodular_conjugate.

(* 2''. neither the order nor the multiplicity of the operations matters (atom order, origin and the
        lattice translations of a supercell only repeat/reorder rotation parts) *)
Theorem C15_is_chiral_depends_on_the_set_only : forall l1 l2,
  (forall r, In r l1 <-> In r l2) -> is_chiral l1 = is_chiral l2.
Proof. exact is_chiral_ext. Qed.
Print Assumptions C15_is_chiral_depends_on_the_set_only.

(* 3. all 230 regenerated tables: the flag computed on the rotation parts of the table's general
      position is true exactly for the numbers in the list of 65 (reflection over [tables]) *)
Theorem C15_sohncke_table : forall t tr ws gp, In t tables ->
  conv_trans t = Some tr -> conv_wycks t = Some ws -> general_position ws = Some gp ->
  (is_chiral (map fst (group_ops tr gp)) = true <-> In (sg_num t) sohncke65).
Proof. exact sohncke_table. Qed.
Print Assumptions C15_sohncke_table.

(* 3'. cross-check against spglib's standard-setting operations, for every number 1..230 *)
Theorem C15_sohncke_reference : forall n, 1 <= n <= 230 ->
  (is_chiral (map fst (ref_of n)) = true <-> In n sohncke65).
Proof. exact sohncke_ref. Qed.
Print Assumptions C15_sohncke_reference.

(* 3''. the list is what the property says it is: the groups without an improper operation *)
Theorem C15_sohncke_iff_no_improper_operation : forall n, 1 <= n <= 230 ->
  (In n sohncke65 <-> forall g, In g (ref_of n) -> mdet (fst g) = 1).
Proof. exact sohncke_iff_no_improper. Qed.
Print Assumptions C15_sohncke_iff_no_improper_operation.

Theorem C15_sohncke65_is_65_distinct_numbers :
  List.length sohncke65 = 65%nat /\ NoDup sohncke65 /\ forall n, In n sohncke65 -> 1 <= n <= 230.
Proof. exact sohncke65_has_65_distinct_numbers_in_range. Qed.
Print Assumptions C15_sohncke65_is_65_distinct_numbers.

(* 4. the property: under the spglib contract -- the scanned matrices are exactly the rotation parts of
      the group of the reported number n, expressed in SOME basis Pz -- the model of get_is_chiral
      answers true iff n is a Sohncke number; for every basis Pz, every order and multiplicity *)
Theorem C15_get_is_chiral_iff_sohncke : forall n scanned Pz,
  1 <= n <= 230 -> mdet Pz <> 0 ->
  (forall r', In r' scanned -> exists r, In r (map fst (ref_of n)) /\ mmul r Pz = mmul Pz r') ->
  (forall r, In r (map fst (ref_of n)) -> exists r', In r' scanned /\ mmul r Pz = mmul Pz r') ->
  (is_chiral scanned = true <-> In n sohncke65).
Proof. exact get_is_chiral_iff_sohncke. Qed.
Print Assumptions C15_get_is_chiral_iff_sohncke.

(* 5. meaning of a passing correspondence case: on (reported number, returned flag, the integer matrices
      actually handed to the determinant, proposed bases) the agreement relation checks model = flag and
      the contract; together they give the property's predicate for that run *)
Theorem C15_case_files_establish_the_property : forall n flag scanned cands,
  1 <= n <= 230 ->
  case_conj (map fst (ref_of n)) flag scanned cands = true ->
  (flag = true <-> In n sohncke65).
Proof. exact case_establishes_property. Qed.
Print Assumptions C15_case_files_establish_the_property.
