(* C09 -- placeholder while the proofs are being moved in *)
From Coq Require Import List ZArith Bool.
Import ListNotations.
From MV Require Import Geometry.Dimensionality.
Example C09_chain : get_dim_graph 1 (true, true, true) [(0, 0, (1, 0, 0)%Z)] = Some 1%Z /\ dim_spec 1 [(0, 0, (1, 0, 0)%Z)] = Some (1, 1).
Proof. exact ex_chain_1d. Qed.
Print Assumptions C09_chain.
