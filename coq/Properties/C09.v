(* C09 -- dimensionality is the rank of the periodic bonding network, however presented.
   Only statements closed by [exact]; models in Geometry/Dimensionality.v, proofs in
   Geometry/DimensionalityProofs.v and Base/Cover.v.

   Proved: None iff disconnected; 0 without periodic axes; the 1x / 2x minimum-image graphs are the
   quotients of the infinite bonded graph (under the C10 table specification, a Section hypothesis);
   metric mirror = discrete mirror; the covering-graph counting theorem N_2x * |K| = 2^k, hence
   "the 2x formula returns log2 |K|"; K is the GF(2)-span of the cycle voltages, hence the code mirror
   returns exactly the GF(2) rank of the specification dim_spec (None iff dim_spec is None);
   K = parity masks of the lattice translations mapping the network through atom 0 to itself;
   invariance of the mirror's answer under lattice shifts of atoms, re-numbering of atoms and change of
   lattice basis (discrete level), invariance of every image distance under rigid motions (metric level);
   voltage algebra.
   The INTEGER rank: the fraction-free elimination of dim_spec computes the determinantal rank for every list of integer
   vectors (RankElim.v); the cycle voltages generate exactly the lattice of self-translations of the infinite network, so the
   integer rank does not depend on the spanning tree, on the order or orientation of the pairs (VoltageLattice.v); the whole
   specification dim_spec (None / GF(2) rank / integer rank) is invariant under lattice shifts of atoms, re-numbering of atoms
   and change of lattice basis.
   C09_invariance_full_statement (DimensionalityProofs.v) is PROVED (InvarianceFull.v): arbitrary shift vectors, any injective
   re-numbering, any invertible change of lattice basis, with no side conditions beyond well-formedness of both presentations.
   Supercells: a presentation that COVERS another through an integer matrix has the same self-translation lattice up to that
   matrix and the same integer rank (Supercell.v); the cover relation is decided by a boolean checker proved sound and evaluated
   inside Coq on every generated base/supercell pair. *)
From Coq Require Import List Arith ZArith Bool.
Import ListNotations.
From MV Require Import Geometry.RankDet Base.Graph Base.Cover Base.ZV3 Geometry.Dimensionality Geometry.DimensionalityProofs
  Geometry.DimensionalityInvariance Geometry.RankElim Geometry.VoltageLattice Geometry.InvarianceFull Geometry.Extend Geometry.DispTensor Geometry.DimFromTensor Geometry.Sublattice Geometry.Supercell Geometry.DimWrapped.
From Coq Require Import QArith.
Local Open Scope nat_scope.

(* get_dimensionality's control flow returns None exactly when two atoms of the cell contents are not
   joined by a chain of bonds (a1 = any symmetric 1x bond relation, a2 = any 2x relation) *)
Theorem C09_none_iff_disconnected :
  forall n p a1 a2, (forall u v, u < n -> v < n -> a1 u v = a1 v u) ->
    (dim_from n p a1 a2 = None <-> exists i j, i < n /\ j < n /\ ~ reach a1 (seq 0 n) i j).
Proof. exact none_iff_disconnected. Qed.
Print Assumptions C09_none_iff_disconnected.

(* the same for the discrete mirror evaluated in the correspondence check *)
Theorem C09_none_iff_disconnected_graph :
  forall n p E,
    (get_dim_graph n p E = None <-> exists i j, i < n /\ j < n /\ ~ reach (adj1_of (nbr_tab n p E)) (seq 0 n) i j).
Proof. exact none_iff_disconnected_graph. Qed.
Print Assumptions C09_none_iff_disconnected_graph.

(* without periodic directions a connected system has dimensionality 0 (and nothing but None / 0 is possible) *)
Theorem C09_dim0_without_pbc :
  forall n p a1 a2, (forall u v, u < n -> v < n -> a1 u v = a1 v u) ->
    npbc p = 0 -> connected1 n a1 -> dim_from n p a1 a2 = Some 0%Z.
Proof. exact dim0_without_pbc. Qed.
Print Assumptions C09_dim0_without_pbc.
Theorem C09_without_pbc_none_or_0 :
  forall n p a1 a2, npbc p = 0 -> dim_from n p a1 a2 = None \/ dim_from n p a1 a2 = Some 0%Z.
Proof. exact dim_without_pbc_cases. Qed.
Print Assumptions C09_without_pbc_none_or_0.

(* the component list used for both graphs is a partition by pairwise unconnected roots; fuel |V| suffices *)
Theorem C09_components_partition :
  forall adj V, NoDup V ->
    exists rs, components adj V = map (component adj V) rs /\ incl rs V /\ indep adj V rs
               /\ (forall x, In x V -> exists r, In r rs /\ reach adj V r x).
Proof. exact components_spec. Qed.
Print Assumptions C09_components_partition.

(* under the C10 specification of the table: the 1x graph is the quotient of the infinite bonded graph by the lattice *)
Theorem C09_graph_1x_is_quotient :
  forall a b c pos n p rad thr, 0 < n -> (0 <= thr)%Z -> (forall i, i < n -> (0 <= rad i)%Z) ->
  forall tab1, tab_spec p (img_d2 a b c pos) n (cutoff n rad thr) tab1 ->
  forall i j, i < n -> j < n ->
    (bondt thr tab1 rad i j = true <-> i = j \/ exists o, okoff p o = true /\ bonded a b c pos rad thr i j o).
Proof. exact graph_1x_is_quotient. Qed.
Print Assumptions C09_graph_1x_is_quotient.

(* ... and the 2x graph (atoms numbered as ase.Atoms.repeat numbers them, radii tiled) is its quotient by (2Z)^k:
   copies cu, cv of atoms i, j are bonded iff some bonded image pair (i, j, o) has parity mask cu xor cv *)
Theorem C09_graph_2x_is_quotient :
  forall a b c pos n p rad thr, 0 < n -> (0 <= thr)%Z -> (forall i, i < n -> (0 <= rad i)%Z) ->
  forall tab2, tab_spec p (img2 a b c pos n p) (2 ^ npbc p * n) (cutoff n rad thr) tab2 ->
  forall u v, u < 2 ^ npbc p * n -> v < 2 ^ npbc p * n ->
    (bondt thr tab2 (rad2 n rad) u v = true <->
     u = v \/ exists o, okoff p o = true /\ bonded a b c pos rad thr (u mod n) (v mod n) o
                        /\ mask p o = Nat.lxor (u / n) (v / n)).
Proof. exact graph_2x_is_quotient. Qed.
Print Assumptions C09_graph_2x_is_quotient.

(* hence the metric mirror of the code equals the discrete mirror on the exact list of bonded image pairs *)
Theorem C09_metric_eq_graph :
  forall a b c pos n p rad thr, 0 < n -> (0 <= thr)%Z -> (forall i, i < n -> (0 <= rad i)%Z) ->
  forall E, wf_E n p E = true ->
  (forall i j o, i < n -> j < n -> okoff p o = true -> (i, o) <> (j, ozero) ->
     (In (i, j, o) (sym E) <-> bonded a b c pos rad thr i j o)) ->
  forall tab1 tab2,
    tab_spec p (img_d2 a b c pos) n (cutoff n rad thr) tab1 ->
    tab_spec p (img2 a b c pos n p) (2 ^ npbc p * n) (cutoff n rad thr) tab2 ->
    get_dim_metric n p rad thr tab1 tab2 = get_dim_graph n p E.
Proof. exact metric_eq_graph. Qed.
Print Assumptions C09_metric_eq_graph.

(* the hypotheses of the three theorems above are satisfiable (a chain of touching atoms along x) *)
Theorem C09_metric_hypotheses_nonvacuous :
  let a := mk3 4 0 0 in let b := mk3 0 4 0 in let c := mk3 0 0 4 in
  let pos := fun _ : nat => mk3 1 1 1 in let p := (true, false, false) in
  let rad := fun _ : nat => 1%Z in let thr := 2%Z in let E := [(0, 0, (1, 0, 0)%Z)] in
  let tab1 := fun _ _ : nat => Some 0%Z in
  let tab2 := fun u v : nat => if u =? v then Some 0%Z else Some 16%Z in
  tab_spec p (img_d2 a b c pos) 1 (cutoff 1 rad thr) tab1
  /\ tab_spec p (img2 a b c pos 1 p) (2 ^ npbc p * 1) (cutoff 1 rad thr) tab2
  /\ wf_E 1 p E = true
  /\ (forall i j o, i < 1 -> j < 1 -> okoff p o = true -> (i, o) <> (j, ozero) ->
        (In (i, j, o) (sym E) <-> bonded a b c pos rad thr i j o))
  /\ get_dim_metric 1 p rad thr tab1 tab2 = Some 1%Z /\ get_dim_graph 1 p E = Some 1%Z.
Proof. exact metric_hypotheses_satisfiable. Qed.
Print Assumptions C09_metric_hypotheses_nonvacuous.

(* covering-graph counting theorem, abstract form: connected base graph on n vertices, labels in {0..2^k-1} *)
Theorem C09_cover_count :
  forall n k, 0 < n -> forall lab adj1,
    (forall i j c, i < n -> j < n -> lab i j c = lab j i c) ->
    (forall i j c, lab i j c = true -> c < 2 ^ k) ->
    (forall i j, i < n -> j < n -> adj1 i j = true -> i = j \/ exists c, lab i j c = true) ->
    (forall i, i < n -> reach adj1 (V1 n) 0 i) ->
    ncomp (adj2 n lab) (V2 n k) * length (K n k lab) = 2 ^ k.
Proof. exact cover_count. Qed.
Print Assumptions C09_cover_count.

(* C09_full_statement: for the code mirror, N_2x * |K| = 2^k *)
Theorem C09_full_statement_proved : C09_full_statement.
Proof. exact C09_full_statement_holds. Qed.
Print Assumptions C09_full_statement_proved.

(* ... so for a connected cell with periodic axes the 2x formula returns log2 |K| (an integer in 0..k),
   K = parities a such that copy a of atom 0 is joined to copy 0 of atom 0 in the 2x supercell *)
Theorem C09_formula_is_log2K :
  forall n p E, 0 < n -> 0 < npbc p -> connectedE n p E ->
    exists d, d <= npbc p /\ length (Kset n p E) = 2 ^ d /\ get_dim_graph n p E = Some (Z.of_nat d).
Proof. exact formula_is_log2K. Qed.
Print Assumptions C09_formula_is_log2K.

(* the specification reports "disconnected" exactly when the cell contents are not connected (n sweeps of the
   potential relaxation suffice) *)
Theorem C09_spec_none_iff_disconnected :
  forall n p E, wf_E n p E = true -> 0 < n -> (dim_spec n p E = None <-> ~ connectedE n p E).
Proof. exact spec_none_iff_disconnected. Qed.
Print Assumptions C09_spec_none_iff_disconnected.

(* K is the GF(2)-span of the cycle voltages: |K| = 2^rank2 *)
Theorem C09_K_is_rank2 :
  forall n p E r2 rz, wf_E n p E = true -> 0 < n -> dim_spec n p E = Some (r2, rz) ->
    length (Kset n p E) = 2 ^ r2.
Proof. exact K_is_rank2. Qed.
Print Assumptions C09_K_is_rank2.

(* the code mirror (1x components, repeat ordering, 2x components, n_pbc - log2 N_2x) returns exactly the
   GF(2) rank of the cycle-voltage lattice of the independent specification, and None iff it reports None *)
Theorem C09_mirror_eq_spec :
  forall n p E, wf_E n p E = true -> 0 < n ->
    get_dim_graph n p E = match dim_spec n p E with Some (r2, _) => Some (Z.of_nat r2) | None => None end.
Proof. exact mirror_eq_spec2. Qed.
Print Assumptions C09_mirror_eq_spec.

(* meaning of K in the infinite periodic network: a is in K iff some lattice translation t of parity a maps the
   bonded network through atom 0 to itself (image (0, t) of atom 0 is joined to atom 0 by a chain of bonds) *)
Theorem C09_K_is_parity_of_self_translations :
  forall n p E, wf_E n p E = true -> 0 < n -> forall a,
    (In a (Kset n p E) <-> exists t, okoff p t = true /\ self_translation E t /\ mask p t = a).
Proof. exact K_is_parity_of_self_translations. Qed.
Print Assumptions C09_K_is_parity_of_self_translations.

(* lattice shifts of atoms: the lattice of self-translations is unchanged ... *)
Theorem C09_self_translation_shift_invariant :
  forall s E t, self_translation (shiftE s E) t <-> self_translation E t.
Proof. exact self_translation_shift_invariant. Qed.
Print Assumptions C09_self_translation_shift_invariant.
(* ... and so is the answer of the code mirror (shiftE s E is the bonded-pair list of the structure whose atom i
   has been moved by the lattice vector s i, see img_d2_shift) *)
Theorem C09_shift_invariance :
  forall n p E s, wf_E n p E = true -> 0 < n -> (forall i, okoff p (s i) = true) ->
    get_dim_graph n p (shiftE s E) = get_dim_graph n p E.
Proof. exact shift_invariance_mirror. Qed.
Print Assumptions C09_shift_invariance.

(* re-numbering of the atoms by a bijection pi of 0..n-1 *)
Theorem C09_permutation_invariance :
  forall n p, 0 < n -> forall pi pi',
    (forall i, i < n -> pi i < n) -> (forall i, i < n -> pi' i < n) ->
    (forall i, i < n -> pi' (pi i) = i) -> (forall i, i < n -> pi (pi' i) = i) ->
    forall E, wf_E n p E = true -> get_dim_graph n p (permE pi E) = get_dim_graph n p E.
Proof. exact permutation_invariance_mirror. Qed.
Print Assumptions C09_permutation_invariance.

(* change of lattice basis: offsets are transformed by W = U^-1 (integer, inverse W', both preserving the periodic
   axes); the answer is unchanged *)
Theorem C09_basis_change_invariance :
  forall n p, 0 < n -> forall W W',
    (forall o, lin W' (lin W o) = o) -> (forall o, lin W (lin W' o) = o) ->
    (forall o, okoff p o = true -> okoff p (lin W o) = true) ->
    (forall o, okoff p o = true -> okoff p (lin W' o) = true) ->
    forall E, wf_E n p E = true -> get_dim_graph n p (basisE W E) = get_dim_graph n p E.
Proof. exact basis_change_invariance_mirror. Qed.
Print Assumptions C09_basis_change_invariance.

(* rigid motion: orthogonal matrix applied to cell and positions, then a translation: all image distances, hence the
   bonded image pairs and everything computed from them, are unchanged *)
Theorem C09_rigid_motion_invariance :
  forall q1 q2 q3 tr a b c pos i j o, orthogonal q1 q2 q3 ->
    img_d2 (mapply q1 q2 q3 a) (mapply q1 q2 q3 b) (mapply q1 q2 q3 c)
           (fun i => add (mapply q1 q2 q3 (pos i)) tr) i j o
    = img_d2 a b c pos i j o.
Proof. exact img_d2_rigid_invariant. Qed.
Print Assumptions C09_rigid_motion_invariance.

(* the answer depends on the presentation only through connectivity and K *)
Theorem C09_mirror_determined :
  forall n p, 0 < n -> forall E E', wf_E n p E = true -> wf_E n p E' = true ->
    (connectedE n p E' <-> connectedE n p E) ->
    (connectedE n p E -> forall a, In a (Kset n p E') <-> In a (Kset n p E)) ->
    get_dim_graph n p E' = get_dim_graph n p E.
Proof. exact mirror_determined. Qed.
Print Assumptions C09_mirror_determined.

(* invariance clauses, metric level: the None answer of a structure does not depend on lattice shifts of atoms
   along periodic axes (the 1x bond relation "some admissible image within reach" is unchanged) *)
Theorem C09_shift_invariance_partial :
  forall a b c pos rad thr p (s : nat -> off) i j, (forall i, okoff p (s i) = true) ->
  ((exists o, okoff p o = true /\
      bonded a b c (fun i => let '(x, y, z) := s i in add (pos i) (lat a b c x y z)) rad thr i j o)
   <-> (exists o, okoff p o = true /\ bonded a b c pos rad thr i j o)).
Proof. exact bonded_exists_shift_invariant. Qed.
Print Assumptions C09_shift_invariance_partial.

(* cycle voltages are unchanged by lattice shifts of atoms (potentials re-labelled accordingly) ... *)
Theorem C09_voltage_shift_partial :
  forall pi pj si sj o, osub (oadd (osub pi si) (oadd (osub o sj) si)) (osub pj sj) = osub (oadd pi o) pj.
Proof. exact voltage_shift_invariant. Qed.
Print Assumptions C09_voltage_shift_partial.
(* ... transform linearly under a change of lattice basis ... *)
Theorem C09_voltage_basis_change_partial :
  forall U pi pj o, lin U (osub (oadd pi o) pj) = osub (oadd (lin U pi) (lin U o)) (lin U pj).
Proof. exact voltage_linear. Qed.
Print Assumptions C09_voltage_basis_change_partial.
(* ... and the 2x labels are additive *)
Theorem C09_mask_additive : forall p u v, mask p (oadd u v) = Nat.lxor (mask p u) (mask p v).
Proof. exact mask_oadd. Qed.
Print Assumptions C09_mask_additive.

(* the INTEGER rank of the cycle-voltage lattice, defined by determinants (Geometry/RankDet.v): it depends only on the set of
   voltages, is unchanged by every invertible change of lattice basis, and is the same for any two generating lists of one
   lattice.  (Named _partial when they were statements about rank_det only; C09_elimination_computes_rank below makes them
   statements about the number dim_spec computes.) *)
Theorem C09_integer_rank_order_independent_partial :
  forall vs vs', (forall x, In x vs <-> In x vs') -> rank_det vs = rank_det vs'.
Proof. exact rank_det_same_set. Qed.
Print Assumptions C09_integer_rank_order_independent_partial.
Theorem C09_integer_rank_basis_change_partial :
  forall U vs, udet U <> 0%Z -> rank_det (map (lin U) vs) = rank_det vs.
Proof. exact rank_det_lin. Qed.
Print Assumptions C09_integer_rank_basis_change_partial.
Theorem C09_integer_rank_same_lattice_partial :
  forall vs vs', (forall v, In v vs' -> span vs v) -> (forall v, In v vs -> span vs' v) -> rank_det vs = rank_det vs'.
Proof. exact rank_det_same_lattice. Qed.
Print Assumptions C09_integer_rank_same_lattice_partial.
Example C09_integer_rank_examples :
  rank_det [(1, 1, 0); (1, -1, 0)]%Z = 2%nat /\ rankZ [(1, 1, 0); (1, -1, 0)]%Z = 2%nat.
Proof. exact rank_det_checkerboard. Qed.
Print Assumptions C09_integer_rank_examples.

(* the GF(2) rank can differ from the integer rank: a network connected to its images only through a+b and a-b *)
Example C09_rank_mismatch_exists :
  get_dim_graph 1 (true, true, false) [(0, 0, (1, 1, 0)%Z); (0, 0, (1, -1, 0)%Z)] = Some 1%Z
  /\ dim_spec 1 (true, true, false) [(0, 0, (1, 1, 0)%Z); (0, 0, (1, -1, 0)%Z)] = Some (1, 2).
Proof. exact ex_checkerboard. Qed.
Print Assumptions C09_rank_mismatch_exists.

(* the fraction-free elimination of the specification computes the determinantal rank -- for EVERY list of integer vectors *)
Theorem C09_elimination_computes_rank : forall vs, rankZ vs = rank_det vs.
Proof. exact rankZ_eq_rank_det. Qed.
Print Assumptions C09_elimination_computes_rank.
(* ... so the run-time comparison of the correspondence can never fail on a faithful model *)
Theorem C09_rankZ_consistent_always : forall n p E, rankZ_consistent n p E = true.
Proof. exact rankZ_consistent_always. Qed.
Print Assumptions C09_rankZ_consistent_always.

(* the cycle voltages of a connected well-formed network generate exactly the lattice of the translations that map the
   network through atom 0 onto itself: independent of the spanning tree and of how the pairs are listed *)
Theorem C09_voltages_generate_self_translations :
  forall n p E, wf_E n p E = true -> 0 < n -> all_placed (potentials n E) = true ->
  forall t, span (voltages (potentials n E) E) t <-> self_translation E t.
Proof. exact voltage_lattice. Qed.
Print Assumptions C09_voltages_generate_self_translations.
Theorem C09_integer_rank_is_lattice_rank :
  forall n p E, wf_E n p E = true -> 0 < n -> all_placed (potentials n E) = true ->
  forall gens, (forall t, span gens t <-> self_translation E t) -> rankZ (voltages (potentials n E) E) = rank_det gens.
Proof. exact rankZ_is_lattice_rank. Qed.
Print Assumptions C09_integer_rank_is_lattice_rank.

(* the whole specification -- None, GF(2) rank, integer rank -- under the three re-presentations of one network *)
Theorem C09_spec_shift_invariance :
  forall n p E s, wf_E n p E = true -> 0 < n -> (forall i, okoff p (s i) = true) -> dim_spec n p (shiftE s E) = dim_spec n p E.
Proof. exact dim_spec_shift_invariant. Qed.
Print Assumptions C09_spec_shift_invariance.
Theorem C09_spec_permutation_invariance :
  forall n p E pi pi', (forall i, i < n -> pi i < n) -> (forall i, i < n -> pi' i < n) ->
  (forall i, i < n -> pi' (pi i) = i) -> (forall i, i < n -> pi (pi' i) = i) ->
  wf_E n p E = true -> 0 < n -> dim_spec n p (permE pi E) = dim_spec n p E.
Proof. exact dim_spec_perm_invariant. Qed.
Print Assumptions C09_spec_permutation_invariance.
Theorem C09_spec_basis_change_invariance :
  forall n p E W W', (forall o, lin W' (lin W o) = o) -> (forall o, lin W (lin W' o) = o) ->
  (forall o, okoff p o = true -> okoff p (lin W o) = true) -> (forall o, okoff p o = true -> okoff p (lin W' o) = true) ->
  wf_E n p E = true -> 0 < n -> dim_spec n p (basisE W E) = dim_spec n p E.
Proof. exact dim_spec_basis_invariant. Qed.
Print Assumptions C09_spec_basis_change_invariance.

(* THE INVARIANCE STATEMENT IN FULL (kept as a Definition until now): the specification of one network does not depend on its
   presentation -- arbitrary lattice shifts of atoms, any injective re-numbering, any invertible change of lattice basis *)
Theorem C09_invariance_full_statement_proved : C09_invariance_full_statement.
Proof. exact C09_invariance_full_statement_holds. Qed.
Print Assumptions C09_invariance_full_statement_proved.
(* non-vacuity: a well-formed connected network and a non-trivial re-presentation of it (sheared basis, atoms shifted) *)
Example C09_invariance_nonvacuous :
  let E := [(0, 1, (0, 0, 0)%Z); (1, 0, (1, 0, 0)%Z); (0, 0, (0, 1, 0)%Z)] in
  let p := (true, true, false) in
  wf_E 2 p E = true /\ dim_spec 2 p E = Some (2, 2) /\
  dim_spec 2 p (shiftE (fun i => if Nat.eqb i 1 then (3, -2, 0)%Z else (0, 0, 0)%Z) E) = Some (2, 2) /\
  dim_spec 2 p (basisE ((1, 1, 0), (0, 1, 0), (0, 0, 1))%Z E) = Some (2, 2).
Proof. vm_compute. repeat split; reflexivity. Qed.
Print Assumptions C09_invariance_nonvacuous.

(* C09 o C10: the tables get_dimensionality reads -- the C10 model of get_displacement_tensor on the wrapped structure and on
   structure.repeat(2 along the periodic axes) -- satisfy the table hypothesis of the theorems above (C10_disp_tensor_spec,
   the repeated system again has non-zero volume and its atoms inside its cell), so the arithmetic of get_dimensionality on
   those tables returns the answer of the discrete mirror on the TRUE bonded network, for every cell, padding and structure *)
Theorem C09_tables_of_C10_satisfy_the_table_hypothesis :
  forall (pad : Q) a b c pbc pos rad thr, (0 < pad)%Q -> vol a b c <> 0%Z -> (forall r, In r pos -> in_cell a b c pbc r) ->
  (0 < cutoff (length pos) rad thr)%Z ->
  tab_spec (p_of pbc) (img_d2 a b c (fun i => nth i pos zero3)) (length pos) (cutoff (length pos) rad thr) (tab_1x pad a b c pbc pos rad thr)
  /\ tab_spec (p_of pbc) (img2 a b c (fun i => nth i pos zero3) (length pos) (p_of pbc)) (2 ^ npbc (p_of pbc) * length pos)
       (cutoff (length pos) rad thr) (tab_2x pad a b c pbc pos rad thr).
Proof. intros pad a b c pbc pos rad thr Hp Hv Hi Hc. split; [apply tab_1x_spec | apply tab_2x_spec]; assumption. Qed.
Print Assumptions C09_tables_of_C10_satisfy_the_table_hypothesis.
Theorem C09_get_dimensionality_on_C10_tables :
  forall (pad : Q) a b c pbc pos rad thr, (0 < pad)%Q -> vol a b c <> 0%Z -> (forall r, In r pos -> in_cell a b c pbc r) ->
  0 < length pos -> (0 <= thr)%Z -> (forall i, i < length pos -> (0 <= rad i)%Z) -> (0 < cutoff (length pos) rad thr)%Z ->
  forall E, wf_E (length pos) (p_of pbc) E = true ->
  (forall i j o, i < length pos -> j < length pos -> okoff (p_of pbc) o = true -> (i, o) <> (j, ozero) ->
     (In (i, j, o) (sym E) <-> bonded a b c (fun i => nth i pos zero3) rad thr i j o)) ->
  get_dim_metric (length pos) (p_of pbc) rad thr (tab_1x pad a b c pbc pos rad thr) (tab_2x pad a b c pbc pos rad thr)
  = get_dim_graph (length pos) (p_of pbc) E.
Proof. exact get_dim_of_tensor_tables. Qed.
Print Assumptions C09_get_dimensionality_on_C10_tables.
(* non-vacuity: a sheared 2D-periodic cell with two atoms; the composed model returns 2 *)
Example C09_on_C10_tables_example :
  let a := mk3 8 0 0 in let b := mk3 3 6 0 in let c := mk3 0 0 20 in let pbc := mkP true true false in
  let pos := [mk3 1 1 1; mk3 5 3 2] in let rad := fun _ : nat => 2%Z in
  vol a b c <> 0%Z /\ (forall r, In r pos -> in_cell a b c pbc r) /\ (0 < cutoff 2 rad 2)%Z /\
  get_dim_metric 2 (p_of pbc) rad 2 (tab_1x (1 # 4) a b c pbc pos rad 2) (tab_2x (1 # 4) a b c pbc pos rad 2) = Some 2%Z.
Proof.
  cbv zeta. split; [vm_compute; discriminate|]. split.
  { simpl. intros r [<-|[<-|[]]]; vm_compute; intuition congruence. }
  split; vm_compute; reflexivity.
Qed.
Print Assumptions C09_on_C10_tables_example.

(* supercells, lattice-level half: a sublattice of finite index has the same integer rank.  PARTIAL with respect to the
   supercell clause of the property: that the supercell construction of a network has L /\ M.Z^3 as its lattice of
   self-translations (and stays connected) is evaluated on every generated base/supercell pair, not proved *)
Theorem C09_sublattice_same_rank_partial :
  forall d vs vs', d <> 0%Z -> (forall v, In v vs' -> span vs v) -> (forall v, In v vs -> span vs' (oscale d v)) -> rankZ vs' = rankZ vs.
Proof. exact sublattice_same_rankZ. Qed.
Print Assumptions C09_sublattice_same_rank_partial.
Theorem C09_supercell_lattice_rank_partial :
  forall d M vs ws, d <> 0%Z -> udet M <> 0%Z ->
  (forall w, In w ws -> span vs (lin M w)) -> (forall v, In v vs -> span (map (lin M) ws) (oscale d v)) -> rankZ ws = rankZ vs.
Proof. exact supercell_lattice_rank_partial. Qed.
Print Assumptions C09_supercell_lattice_rank_partial.
Example C09_sublattice_example :
  let vs := [(1, 1, 0); (1, -1, 0)]%Z in let vs' := [(2, 0, 0); (0, 2, 0)]%Z in
  (forall v, In v vs' -> span vs v) /\ (forall v, In v vs -> span vs' (oscale 2 v)) /\ rank_det vs' = 2 /\ rank_det vs = 2.
Proof. exact sublattice_example. Qed.
Print Assumptions C09_sublattice_example.

(* SUPERCELLS.  A presentation E' that covers E through an integer matrix M (every pair of E' projects to a pair of E, every
   pair of E lifts, atoms of E' are distinguished by original atom and shift modulo M.Z^3) has an isomorphic infinite bonded
   network: its self-translations are exactly the t' with M t' a self-translation of E ... *)
Theorem C09_supercell_self_translations :
  forall n n' p E E' M at_ sh, cover n n' p E E' M at_ sh ->
  forall t, self_translation E' t <-> self_translation E (lin M t).
Proof. exact st_cover. Qed.
Print Assumptions C09_supercell_self_translations.
(* ... hence the same integer rank whenever both presentations are connected (M adj(M) = d.I, d <> 0) *)
Theorem C09_supercell_integer_rank :
  forall n n' p E E' M at_ sh, cover n n' p E E' M at_ sh ->
  forall M' d, (forall v, lin M (lin M' v) = oscale d v) -> d <> 0%Z -> udet M <> 0%Z ->
  all_placed (potentials n E) = true -> all_placed (potentials n' E') = true ->
  rankZ (voltages (potentials n' E') E') = rankZ (voltages (potentials n E) E).
Proof. exact supercell_rankZ. Qed.
Print Assumptions C09_supercell_integer_rank.
(* the cover relation is decidable; the checker is sound, and for ase.Atoms.repeat((r0, r1, r2)) it is evaluated inside Coq on
   every generated base/supercell pair of the correspondence: whenever it accepts, the integer ranks agree *)
Theorem C09_cover_checker_sound :
  forall n n' p E E' M M' d at_ sh, d <> 0%Z -> (forall v, lin M' (lin M v) = oscale d v) ->
  cover_b n n' p E E' M M' d at_ sh = true -> cover n n' p E E' M at_ sh.
Proof. exact cover_b_sound. Qed.
Print Assumptions C09_cover_checker_sound.
Theorem C09_supercell_repeat_invariance :
  forall n n' p E E' r0 r1 r2, 0 < r0 -> 0 < r1 -> 0 < r2 -> cover_repeat_b n n' p E E' r0 r1 r2 = true ->
  all_placed (potentials n E) = true -> all_placed (potentials n' E') = true ->
  rankZ (voltages (potentials n' E') E') = rankZ (voltages (potentials n E) E).
Proof. exact supercell_repeat_rankZ_nat. Qed.
Print Assumptions C09_supercell_repeat_invariance.
(* in the property's family (GF(2) rank = integer rank on both presentations) the whole answer of the specification agrees *)
Theorem C09_supercell_spec_in_family :
  forall n n' p E E' r0 r1 r2 r r2' rz', 0 < r0 -> 0 < r1 -> 0 < r2 -> cover_repeat_b n n' p E E' r0 r1 r2 = true ->
  dim_spec n p E = Some (r, r) -> dim_spec n' p E' = Some (r2', rz') -> r2' = rz' -> dim_spec n' p E' = dim_spec n p E.
Proof. exact supercell_dim_spec_family. Qed.
Print Assumptions C09_supercell_spec_in_family.
Example C09_supercell_example :
  let p := (true, false, false) in
  let E := [(0, 1, (0, 0, 0)%Z); (1, 0, (1, 0, 0)%Z)] in
  let E' := [(0, 1, (0, 0, 0)%Z); (1, 2, (0, 0, 0)%Z); (2, 3, (0, 0, 0)%Z); (3, 0, (1, 0, 0)%Z)] in
  let at_ := fun u => u mod 2 in let sh := fun u => (Z.of_nat (u / 2), 0, 0)%Z in
  cover_b 2 4 p E E' (diagM 2 1 1) (diagM (1 * 1) (2 * 1) (2 * 1)) (2 * 1 * 1) at_ sh = true
  /\ dim_spec 2 p E = Some (1, 1) /\ dim_spec 4 p E' = Some (1, 1).
Proof. exact supercell_example. Qed.
Print Assumptions C09_supercell_example.

(* ... and with the wrapping front end (repair abcbfc3): atoms stored anywhere are first moved into the cell by whole lattice
   vectors of the periodic directions; the answer computed from the C10 tables of the WRAPPED structure is the answer of the
   discrete mirror on the bonded network of the structure AS STORED *)
Theorem C09_get_dimensionality_wraps_then_reads_C10_tables :
  forall (pad : Q) a b c pbc pos0 posw s rad thr, (0 < pad)%Q -> vol a b c <> 0%Z -> length posw = length pos0 ->
  (forall i, okoff (p_of pbc) (s i) = true) ->
  (forall i, i < length pos0 -> nth i posw zero3 = (let '(x, y, z) := s i in ZV3.add (nth i pos0 zero3) (ZV3.lat a b c x y z))) ->
  (forall r, In r posw -> in_cell a b c pbc r) ->
  0 < length pos0 -> (0 <= thr)%Z -> (forall i, i < length pos0 -> (0 <= rad i)%Z) -> (0 < cutoff (length pos0) rad thr)%Z ->
  forall E, wf_E (length pos0) (p_of pbc) E = true ->
  (forall i j o, i < length pos0 -> j < length pos0 -> okoff (p_of pbc) o = true -> (i, o) <> (j, ozero) ->
     (In (i, j, o) (sym E) <-> bonded a b c (fun i => nth i pos0 zero3) rad thr i j o)) ->
  get_dim_metric (length pos0) (p_of pbc) rad thr (tab_1x pad a b c pbc posw rad thr) (tab_2x pad a b c pbc posw rad thr)
  = get_dim_graph (length pos0) (p_of pbc) E.
Proof. exact get_dim_of_wrapped_tables. Qed.
Print Assumptions C09_get_dimensionality_wraps_then_reads_C10_tables.
