(* C03 -- SBC separates a two-material stack into exactly the two slabs.
   Only statements closed by [exact] (plus the visible Definition of the full statement).

   WHAT IS PROVED HERE AND WHAT IS NOT.  As for C02 the periodic finder's search is an unmodelled oracle.
   Proved for the hand-written model coq/Sbc/*.v of matid/clustering/sbc.py:

     C03_partial : the atoms are partitioned into two non-empty slabs (cls i = 0 / 1).  IF every finder call
       honours F1 (mask contains the seed and only atoms of the seed's slab; a region is returned; seed + basis
       indices are exactly the seed's slab; 2 or 3 periodic axes), each slab is bonded and
       merge_threshold >= 0, THEN for every seed-choice sequence / set order / `near` data the pipeline makes
       exactly TWO finder calls and returns exactly TWO clusters, duplicate-free enumerations of the two slabs
       (in the order in which the seeds were drawn); merge is the identity (overlap 0 never exceeds a
       threshold >= 0 under the strict `>`), localize is the identity (no atom in two clusters), clean is
       the identity (bonded slabs) -- whether or not the slabs are bonded to EACH OTHER.
     C03_zero_overlap_never_merges / C03_negative_threshold_outside_domain : the strict comparison and the
       parameter domain: with merge_threshold < 0 two disjoint clusters WOULD be merged.
     C03_match_species / C03_species_strict : a region grown by get_matches from a prototype cell all of whose
       atoms have atomic number zA contains only atoms of atomic number zA (substitutions and vacancies are
       never members), whatever the neighbour search reports and whichever cells are visited.  This is the
       half of F1 "no atom of the other slab enters the region".
     C03_dimensionality_shortcut_is_direct : as in C02 (the value 2 itself is evaluated by the run).
     C03_full_from_contract : the full statement follows from "F1 holds on every member of the family".

   MISSING from C03_full_statement: that the REAL finder honours F1 on every member of the family (it finds a
   prototype cell of the seed's element from every seed and tracks it through the whole slab).  Validated on
   the enumerated pairs by the conformance run, not proved. *)
From Coq Require Import List Arith Bool ZArith QArith PeanoNat.
Import ListNotations.
From MV Require Base.Graph.
From MV Require Import Base.ZV3 Geometry.Extend Geometry.CellList Geometry.Matches.
From MV Require Import Sbc.Common Sbc.CommonProofs Sbc.Driver Sbc.DriverProofs Sbc.Merge Sbc.Localize Sbc.Clean
     Sbc.Pipeline Sbc.ClusterCache Sbc.ClusterCacheProofs Sbc.Conditional Sbc.ConditionalProofs.
Local Open Scope nat_scope.

Definition C03_full_statement
  (input : Type) (family : input -> Prop) (natoms : input -> nat) (slab_of : input -> nat -> nat)
  (Znum_of : input -> nat -> Z)
  (real_finder : input -> nat -> nat -> option region * (nat -> bool))
  (merge_threshold : Q) (near_of bond_of : input -> nat -> nat -> bool) : Prop :=
  forall x, family x ->
  forall setlist choose, setlist_ok setlist -> choose_ok choose ->
  exists c1 c2,
    sbc setlist (natoms x) (Znum_of x) (real_finder x) choose merge_threshold (near_of x) (bond_of x) = Ok [c1; c2] /\
    ((is_slab (natoms x) (slab_of x) 0 c1 /\ is_slab (natoms x) (slab_of x) 1 c2) \/
     (is_slab (natoms x) (slab_of x) 1 c1 /\ is_slab (natoms x) (slab_of x) 0 c2)).

Theorem C03_partial :
  forall setlist, setlist_ok setlist ->
  forall n cls, (forall i, i < n -> cls i = 0 \/ cls i = 1) ->
  (exists a, a < n /\ cls a = 0) -> (exists b, b < n /\ cls b = 1) ->
  forall Znum finder choose, choose_ok choose ->
  forall merge_threshold, (0 <= merge_threshold)%Q ->
  forall near bond, classes_bonded n cls bond ->
  F1 n cls finder ->
  exists c1 c2,
    run_stages setlist n Znum finder choose merge_threshold near bond = Ok (mkStages 2 [c1; c2] [c1; c2] [c1; c2] [c1; c2]) /\
    sbc setlist n Znum finder choose merge_threshold near bond = Ok [c1; c2] /\
    ((is_slab n cls 0 c1 /\ is_slab n cls 1 c2) \/ (is_slab n cls 1 c1 /\ is_slab n cls 0 c2)) /\
    cmerged c1 = false /\ cmerged c2 = false /\ cradii c1 = true /\ cradii c2 = true.
Proof. exact two_slabs. Qed.
Print Assumptions C03_partial.

Theorem C03_full_from_contract :
  forall (input : Type) (family : input -> Prop) (natoms : input -> nat) (slab_of : input -> nat -> nat)
         (Znum_of : input -> nat -> Z) (real_finder : input -> nat -> nat -> option region * (nat -> bool))
         (merge_threshold : Q) (near_of bond_of : input -> nat -> nat -> bool),
  (0 <= merge_threshold)%Q ->
  (forall x : input, family x ->
     (forall i, i < natoms x -> slab_of x i = 0 \/ slab_of x i = 1) /\
     (exists a, a < natoms x /\ slab_of x a = 0) /\ (exists b, b < natoms x /\ slab_of x b = 1) /\
     classes_bonded (natoms x) (slab_of x) (bond_of x) /\ F1 (natoms x) (slab_of x) (real_finder x)) ->
  C03_full_statement input family natoms slab_of Znum_of real_finder merge_threshold near_of bond_of.
Proof. exact two_slabs_family. Qed.
Print Assumptions C03_full_from_contract.

(* best_overlap_score > merge_threshold with overlap 0: never, for a threshold >= 0 *)
Theorem C03_zero_overlap_never_merges :
  forall merge_threshold, (0 <= merge_threshold)%Q ->
  forall li lt q, score 0 li lt = Some q -> Qlt_b merge_threshold q = false.
Proof. exact score_zero_not_above. Qed.
Print Assumptions C03_zero_overlap_never_merges.

(* one matched position: a Match always carries the queried atomic number (any rows) *)
Theorem C03_match_species :
  forall a b c nums tol rows q z j f,
  match_one a b c nums tol rows q z = Match j f -> nth j nums 0%Z = z.
Proof. exact match_one_species. Qed.
Print Assumptions C03_match_species.

Theorem C03_species_strict :
  forall a b c nums tol units (zA : Z),
  (forall u p, In u units -> In p u -> snd (fst p) = zA) ->
  forall j, In j (region_basis a b c nums tol units) -> nth j nums 0%Z = zA.
Proof. exact region_species_strict. Qed.
Print Assumptions C03_species_strict.

Theorem C03_dimensionality_shortcut_is_direct :
  forall (R : Type) (gd : list nat -> radii_arg -> list nat -> R) (is_none : R -> bool) idx k p,
  In p (trace R gd is_none (pipeline_history [] idx k) (init R idx true)) ->
  fst p = gd idx (RSel idx) idx /\ snd p = gd idx (RSel idx) idx.
Proof. exact untouched_cluster_dimensionality. Qed.
Print Assumptions C03_dimensionality_shortcut_is_direct.

(* non-vacuity: three copper atoms on three nickel atoms, bonded also across the interface; a scripted
   finder satisfying F1; the model returns the two slabs *)
Example C03_hypotheses_satisfiable :
  F1 x3_n x3_cls x3_finder /\ classes_bonded x3_n x3_cls x3_bond /\ choose_ok x3_choose /\ setlist_ok canon /\
  x3_bond 2 3 = true /\
  show_idx (sbc canon x3_n x3_Z x3_finder x3_choose (1 # 2) x3_near x3_bond) = Some [[5; 4; 3]; [2; 0; 1]].
Proof. exact x3_nonvacuous. Qed.
Print Assumptions C03_hypotheses_satisfiable.

(* the hypothesis merge_threshold >= 0 is needed: with a negative threshold the two disjoint slabs are merged
   (and the species filter of merge then drops one of them) *)
Example C03_negative_threshold_outside_domain :
  show_idx (sbc canon x3_n x3_Z x3_finder x3_choose (-1 # 10) x3_near x3_bond) = Some [[2; 0; 1]].
Proof. exact x3_negative_threshold. Qed.
Print Assumptions C03_negative_threshold_outside_domain.
