(* C02 -- SBC groups a single crystal (bulk or slab) into exactly one complete cluster.
   Only statements closed by [exact] (plus the visible Definition of the full statement).

   WHAT IS PROVED HERE AND WHAT IS NOT.  The property quantifies over a crystal family and its truth
   rests on the success of the periodic finder's search (periodicfinder.py: span metric, basis choice,
   prototype-cell population, breadth-first tracking -- about 1300 lines of floating-point heuristics).
   That search is NOT modelled; the finder is an oracle ([finder k s] = answer of the k-th call, seed s).
   Proved, for the hand-written model coq/Sbc/{Driver,Merge,Localize,Clean,Pipeline}.v of
   matid/clustering/sbc.py (tied to the tree by C01's correspondence and replayed on the logged runs
   of harness/props/c02.py):

     C02_partial : IF every finder call on this input honours the strong contract F1 (the search mask
       contains the seed; a region is returned; seed + basis indices are exactly all atoms; the region's
       cell has 2 or 3 periodic axes), the crystal is bonded and merge_threshold >= 0, THEN for every
       seed-choice sequence, every set-iteration order and every `near` data the pipeline makes exactly
       ONE finder call and returns exactly ONE cluster whose index list is a duplicate-free enumeration
       of all atoms; merge, localize and clean are identities on it.
     C02_weak_contract_partial : if calls may also return None (F1_weak), at most one cluster comes back
       and, if one does, it contains every atom.
     C02_dimensionality_shortcut_is_direct : for such an untouched cluster every result of
       Cluster.get_dimensionality() is get_dimensionality evaluated on the cluster's own atoms (= the whole
       structure), with the clustering radii and the matrix of exactly those atoms (C13 mechanism).  That
       this VALUE is 3 for bulk and 2 for slabs is a statement about matid.geometry.get_dimensionality
       (C09), evaluated directly on every family member by the conformance run.
     C02_full_from_contract : the full statement follows from "F1 holds on every member of the family".

   MISSING from C02_full_statement: exactly the hypothesis of C02_full_from_contract, i.e. that the REAL
   finder honours F1 on every member of the stated crystal family (for all rotations, translations,
   permutations, seeds and noise realisations).  It is validated on an enumerated family by the
   conformance run, not proved.  (On the unchanged tree it is in fact false for some admitted members --
   see known_findings.json, keys c02:... .) *)
From Coq Require Import List Arith Bool ZArith QArith PeanoNat.
Import ListNotations.
From MV Require Base.Graph.
From MV Require Import Sbc.Common Sbc.CommonProofs Sbc.Driver Sbc.DriverProofs Sbc.Merge Sbc.Localize Sbc.Clean
     Sbc.Pipeline Sbc.ClusterCache Sbc.ClusterCacheProofs Sbc.Conditional Sbc.ConditionalProofs.
Local Open Scope nat_scope.

(* The property as given, over an abstract description of the family and of the real finder:
   [input] = family members (structure + parameters), [real_finder x] = what PeriodicFinder.get_region
   answers on member x.  Not proved: see the header. *)
Definition C02_full_statement
  (input : Type) (family : input -> Prop) (natoms : input -> nat) (Znum_of : input -> nat -> Z)
  (real_finder : input -> nat -> nat -> option region * (nat -> bool))
  (merge_threshold : Q) (near_of bond_of : input -> nat -> nat -> bool) : Prop :=
  forall x, family x ->
  forall setlist choose, setlist_ok setlist -> choose_ok choose ->
  exists c, sbc setlist (natoms x) (Znum_of x) (real_finder x) choose merge_threshold (near_of x) (bond_of x) = Ok [c]
            /\ all_atoms (natoms x) c.

Theorem C02_partial :
  forall setlist, setlist_ok setlist ->
  forall n, 0 < n ->
  forall Znum finder choose, choose_ok choose ->
  forall merge_threshold, (0 <= merge_threshold)%Q ->
  forall near bond, classes_bonded n one_class bond ->
  F1 n one_class finder ->
  exists c, run_stages setlist n Znum finder choose merge_threshold near bond = Ok (mkStages 1 [c] [c] [c] [c]) /\
            sbc setlist n Znum finder choose merge_threshold near bond = Ok [c] /\
            all_atoms n c /\ cmerged c = false /\ cradii c = true.
Proof. exact one_crystal. Qed.
Print Assumptions C02_partial.

Theorem C02_weak_contract_partial :
  forall setlist, setlist_ok setlist ->
  forall n Znum finder choose, choose_ok choose ->
  forall merge_threshold, (0 <= merge_threshold)%Q ->
  forall near bond, classes_bonded n one_class bond ->
  F1_weak n one_class finder ->
  exists k, run_stages setlist n Znum finder choose merge_threshold near bond = Ok (mkStages k [] [] [] []) \/
  exists c, run_stages setlist n Znum finder choose merge_threshold near bond = Ok (mkStages k [c] [c] [c] [c]) /\
            all_atoms n c /\ cmerged c = false /\ cradii c = true.
Proof. exact one_crystal_weak. Qed.
Print Assumptions C02_weak_contract_partial.

Theorem C02_full_from_contract :
  forall (input : Type) (family : input -> Prop) (natoms : input -> nat) (Znum_of : input -> nat -> Z)
         (real_finder : input -> nat -> nat -> option region * (nat -> bool))
         (merge_threshold : Q) (near_of bond_of : input -> nat -> nat -> bool),
  (0 <= merge_threshold)%Q ->
  (forall x : input, family x ->
     0 < natoms x /\ classes_bonded (natoms x) one_class (bond_of x) /\ F1 (natoms x) one_class (real_finder x)) ->
  C02_full_statement input family natoms Znum_of real_finder merge_threshold near_of bond_of.
Proof. exact one_crystal_family. Qed.
Print Assumptions C02_full_from_contract.

Theorem C02_dimensionality_shortcut_is_direct :
  forall (R : Type) (gd : list nat -> radii_arg -> list nat -> R) (is_none : R -> bool) idx k p,
  In p (trace R gd is_none (pipeline_history [] idx k) (init R idx true)) ->
  fst p = gd idx (RSel idx) idx /\ snd p = gd idx (RSel idx) idx.
Proof. exact untouched_cluster_dimensionality. Qed.
Print Assumptions C02_dimensionality_shortcut_is_direct.

(* non-vacuity: a concrete scripted finder satisfying F1 on a bonded four-atom crystal, the run of the model
   on it; and a finder that only satisfies the weak contract (first call returns None) *)
Example C02_hypotheses_satisfiable :
  F1 x2_n one_class x2_finder /\ classes_bonded x2_n one_class x3_bond /\ choose_ok x3_choose /\ setlist_ok canon /\
  show_idx (sbc canon x2_n x2_Z x2_finder x3_choose (1 # 2) x3_near x3_bond) = Some [[3; 0; 1; 2]].
Proof. exact x2_nonvacuous. Qed.
Print Assumptions C02_hypotheses_satisfiable.

Example C02_weak_hypotheses_satisfiable :
  F1_weak x2_n one_class x2_finder_weak /\ ~ always_productive x2_n x2_finder_weak /\
  show_idx (sbc canon x2_n x2_Z x2_finder_weak x3_choose (1 # 2) x3_near x3_bond) = Some [[2; 3; 0; 1]].
Proof. exact x2_weak_nonvacuous. Qed.
Print Assumptions C02_weak_hypotheses_satisfiable.
