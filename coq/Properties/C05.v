(* C05 -- the conventional cell is the same crystal as the input, chirality preserved.
   Model: Symmetry/GroundState.v (the normalizer search), Symmetry/Congruence.v (what applying the chosen
   normalizer does to a symmetric decorated point set).  spglib's standardisation is an oracle: the
   theorems take its output (a point set S closed under the tabulated = reference group, contract S1-S2)
   as given; that contract is validated on every generated crystal by the check. *)
From Coq Require Import ZArith List String Bool.
Import ListNotations.
From MV Require Import Symmetry.Table Symmetry.Affine Symmetry.GroundState Symmetry.GroundStateProofs Symmetry.Congruence
  Reflect.GroupChecks Reflect.GroupChecksProofs Reflect.NormChecks.
From MVD Require Import Generated.SGAll Generated.ChkAll Inst.C14Inst Inst.C05Inst.
Open Scope Z_scope.

(* the search never fails (its "could not decide" error is unreachable) and returns the identity or one
   of the tabulated normalizers, for every letter list, species list and table *)
Theorem C05_search_total_and_chosen_in_table :
  forall letters numbers table,
    exists c, ground_state letters numbers table = Chosen c /\ In c (candidates letters table).
Proof.
  exact (fun l n t => match ground_state_total l n t with
                      | ex_intro _ c (conj H1 (conj H2 _)) => ex_intro _ c (conj H1 H2) end).
Qed.
Print Assumptions C05_search_total_and_chosen_in_table.

(* for every group and every tabulated normalizer n: for EVERY decorated point set S closed under the
   group (the standardized atoms), n(S) is closed under the same group (same space group), and equals
   m(S) for an operation m with det = +1 that preserves every metric of the crystal system -- i.e. the
   returned atoms coincide with the standardized atoms up to a proper rigid motion and lattice
   translations; a chiral crystal is never returned as its mirror image.  Composition and density are
   preserved because [image] relabels points one-to-one species by species. *)
Theorem C05_conventional_congruent :
  forall t tr ws gp k rn cs, In t tables ->
    conv_trans t = Some tr -> conv_wycks t = Some ws -> general_position ws = Some gp ->
    nth_error (sg_norms t) k = Some rn -> nth_error (certs_of (sg_num t)) k = Some cs ->
    exists n, norm_to_op rn = Some n /\
      forall (P : Type) (ok : P -> Prop) (app : op -> P -> P),
        (forall a b p, app (op_compose a b) p = app a (app b p)) ->
        (forall g p, ok (app g p)) -> (forall p, ok p -> app idop p = p) ->
        forall S : P -> Z -> Prop,
          wf P ok S -> closed_under_G P app (group_ops tr gp) S ->
          closed_under_G P app (group_ops tr gp) (image P app n S)
          /\ exists m, mdet (fst m) = 1
               /\ (forall b, In b (metric_basis (sg_num t)) -> mmul (mtrans (fst m)) (mmul b (fst m)) = b)
               /\ (forall q z, image P app n S q z <-> image P app m S q z).
Proof. exact conventional_congruent. Qed.
Print Assumptions C05_conventional_congruent.

(* non-vacuity: points on the 1/24 grid with the modular action satisfy the three action hypotheses *)
Example C05_action_hypotheses_satisfiable :
  (forall a b p, op_apply (op_compose a b) p = op_apply a (op_apply b p))
  /\ (forall g p, canon (op_apply g p)) /\ (forall p, canon p -> op_apply idop p = p).
Proof. exact (conj op_apply_compose (conj op_apply_canon op_apply_id)). Qed.
Print Assumptions C05_action_hypotheses_satisfiable.
