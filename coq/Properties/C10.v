(* C10 -- the displacement tensor is a sound and, within range, exact minimum-image table.
   Only statements closed by [exact]; the model (Geometry/Extend.v, CellList.v, DispTensor.v) is the
   hand-written exact-arithmetic semantics of matid/ext/{geometry,celllist}.cpp and of the Python
   wrapper; it is tied to the current sources by the correspondence run of harness/props/c10.py.
   Integers are grid units (every finite double is an integer multiple of a common power of two, so
   the statements range over all float inputs, in exact-arithmetic semantics). *)
From Coq Require Import ZArith QArith List Bool Lia Permutation.
Import ListNotations.
From MV Require Import Base.ZV3 Geometry.Extend Geometry.ExtendProofs Geometry.CellList Geometry.CellListProofs
     Geometry.DispTensor Geometry.DispTensorProofs.
Open Scope Z_scope.

(* the copy count along an axis is the least N with N^2 A >= B
   (A = vol^2, B = ext^2 |a_j x a_k|^2: N = ceil(ext / height)) *)
Theorem C10_n_copies_least : forall A B, 0 < A -> 0 <= B ->
  let N := least_sq A B in
  0 <= N /\ B <= N * N * A /\ (forall M, 0 <= M -> B <= M * M * A -> N <= M).
Proof. exact least_sq_spec. Qed.
Print Assumptions C10_n_copies_least.

Theorem C10_n_copies_regular : forall a b c pbc ext2, vol a b c <> 0 ->
  let V := vol a b c in
  n_copies a b c pbc ext2 =
  mk3 (if px pbc then least_sq (V * V) (ext2 * dot (cross b c) (cross b c)) else 0)
      (if py pbc then least_sq (V * V) (ext2 * dot (cross c a) (cross c a)) else 0)
      (if pz pbc then least_sq (V * V) (ext2 * dot (cross a b) (cross a b)) else 0).
Proof. exact n_copies_regular. Qed.
Print Assumptions C10_n_copies_regular.

(* copies_suffice, all three axes: an admissible lattice vector n whose image of an atom of the cell
   lies within ext of a point of the (half-open) cell is inside the box of copies taken *)
Theorem C10_copies_suffice : forall a b c pbc ext2 q pj n,
  vol a b c <> 0 -> 0 <= ext2 ->
  in_cell a b c pbc q -> in_cell a b c pbc pj -> admissible pbc n ->
  norm2 (sub (sub q pj) (latv a b c n)) <= ext2 ->
  in_box (n_copies a b c pbc ext2) n.
Proof. exact copies_suffice. Qed.
Print Assumptions C10_copies_suffice.

(* bins_in_range: no stored point is binned outside the allocated array (needs padding p > 0) *)
Theorem C10_bins_in_range : forall p cu pts e,
  (0 < p)%Q -> cut_pos cu -> In e pts ->
  let g := mk_geom p cu pts in
  let b := bin_of g (e_pos e) in
  ix_in_range (g_x g) (vx b) /\ ix_in_range (g_y g) (vy b) /\ ix_in_range (g_z g) (vz b).
Proof. exact bins_in_range. Qed.
Print Assumptions C10_bins_in_range.

Theorem C10_nbr_in_range : forall ax i0 i, In i (nbr ax i0) -> ix_in_range ax i.
Proof. exact nbr_in_range. Qed.
Print Assumptions C10_nbr_in_range.

(* bins_complete: a stored point within the cutoff of any query point is in one of the visited bins *)
Theorem C10_bins_complete : forall p cu pts q e,
  (0 < p)%Q -> cut_pos cu -> In e pts -> within cu q (e_pos e) = true ->
  let g := mk_geom p cu pts in
  In (bin_of g (e_pos e)) (nbr_triples g q).
Proof. exact bins_complete. Qed.
Print Assumptions C10_bins_complete.

(* query_eq_filter: the 27-bin search returns exactly the stored points passing the cutoff test *)
Theorem C10_query_eq_filter : forall p cu pts q,
  (0 < p)%Q -> cut_pos cu ->
  let g := mk_geom p cu pts in
  (forall ie, In ie (query g pts q) <-> In ie (indexed pts) /\ within cu q (e_pos (snd ie)) = true)
  /\ NoDup (query g pts q)
  /\ Permutation (query g pts q) (filter (fun ie => within cu q (e_pos (snd ie))) (indexed pts)).
Proof. exact query_eq_filter. Qed.
Print Assumptions C10_query_eq_filter.

(* the property theorem; the six clauses are spelled out in DispTensorProofs.disp_tensor_spec_statement
   and repeated here *)
Theorem C10_disp_tensor_spec : forall p a b c pbc cu pos,
  (0 < p)%Q -> vol a b c <> 0 -> cut_pos cu ->
  (forall r, In r pos -> in_cell a b c pbc r) ->
  let T := disp_tensor p a b c pbc cu pos in
  let n := length pos in
  let R2 := cutoff_ext2 a b c pbc cu in
  let image_vec i j f := sub (sub (nth i pos zero3) (nth j pos zero3)) (latv a b c f) in
  forall i j, (i < n)%nat -> (j < n)%nat ->
    (forall e, T i j = Some e ->
       t_disp e = image_vec i j (t_fac e) /\ admissible pbc (t_fac e) /\ t_d2 e = norm2 (t_disp e)) /\
    T i i = Some zero_entry /\
    (i <> j -> T j i = option_map neg_entry (T i j)) /\
    (forall e m, T i j = Some e -> (forall f, admissible pbc f -> m <= norm2 (image_vec i j f)) -> m <= t_d2 e) /\
    (i <> j -> forall f, admissible pbc f -> norm2 (image_vec i j f) <= R2 ->
       exists e, T i j = Some e /\ forall f', admissible pbc f' -> t_d2 e <= norm2 (image_vec i j f')) /\
    (forall c0, cu = Fin c0 ->
       (forall e, T i j = Some e -> t_d2 e <= c0 * c0) /\
       ((forall f, admissible pbc f -> c0 * c0 < norm2 (image_vec i j f)) -> T i j = None)) /\
    (cu = Inf -> T i j <> None).
Proof. exact disp_tensor_spec. Qed.
Print Assumptions C10_disp_tensor_spec.

(* the table evaluated row-wise by the correspondence is the same table *)
Theorem C10_lower_rows_eq : forall p cu pts pos i j, (j < i)%nat -> (i < length pos)%nat ->
  nth j (nth i (lower_rows p cu pts pos) []) None = lower p cu pts pos i j.
Proof. exact lower_rows_eq. Qed.
Print Assumptions C10_lower_rows_eq.

(* non-vacuity *)
Example C10_copies_example :
  let a := mk3 4 0 0 in let b := mk3 1 3 0 in let c := mk3 0 1 5 in
  let pbc := mkP true true false in
  vol a b c <> 0 /\ in_cell a b c pbc (mk3 1 2 7) /\ in_cell a b c pbc (mk3 4 2 (-3)) /\
  admissible pbc (mk3 (-1) 1 0) /\
  norm2 (sub (sub (mk3 1 2 7) (mk3 4 2 (-3))) (latv a b c (mk3 (-1) 1 0))) <= 14 * 14 /\
  n_copies a b c pbc (14 * 14) = mk3 4 5 0.
Proof. exact copies_suffice_example. Qed.
Print Assumptions C10_copies_example.

Example C10_bins_example :
  let pts := [mkE (mk3 0 0 0) 0 0 zero3; mkE (mk3 10 3 (-4)) 0 1 zero3; mkE (mk3 25 7 1) 0 0 (mk3 1 0 0)] in
  let g := mk_geom (1 # 3) (Fin 6) pts in
  ax_n (g_x g) = 4 /\ bin_of g (mk3 25 7 1) = mk3 3 0 0 /\
  map fst (query g pts (mk3 8 0 0)) = [1%nat].
Proof. exact bins_example. Qed.
Print Assumptions C10_bins_example.

Example C10_tensor_example :
  let a := mk3 8 0 0 in let b := mk3 3 6 0 in let c := mk3 0 0 10 in
  let pbc := mkP true true false in
  let pos := [mk3 1 1 1; mk3 9 5 2; mk3 7 1 8] in
  vol a b c <> 0 /\ (forall r, In r pos -> in_cell a b c pbc r) /\
  disp_tensor (1 # 10000) a b c pbc (Fin 5) pos 1 0 = Some (mkT 14 (mk3 (-3) (-2) 1) (mk3 1 1 0)) /\
  disp_tensor (1 # 10000) a b c pbc (Fin 5) pos 2 0 = None /\
  disp_tensor (1 # 10000) a b c pbc Inf pos 0 2 <> None.
Proof. exact disp_tensor_example. Qed.
Print Assumptions C10_tensor_example.
