(* C19 -- radii presets and custom radii are honoured uniformly.
   Only statements closed by [exact]; the model of get_radii's preset dispatch is regenerated from
   /repo/matid/geometry/geometry.py on every run (Generated/RadiiGen.v). *)
From Coq Require Import QArith List Bool Lia.
Import ListNotations.
From MV Require Import Geometry.Radii Reflect.RadiiReflect.
From MVD Require Import Generated.RadiiGen Inst.RadiiInst.

(* Every preset resolves, for every element Z = 1..103, to the documented (ASE) table; for
   'vdw_covalent' to the van der Waals radius where one is defined and the covalent radius otherwise. *)
Theorem C19_presets_resolve_to_documented_tables :
  forall z, (1 <= z < 1 + 103)%nat ->
    fl_eqb (get (preset_table Covalent) z) (get ref_covalent z) = true /\
    fl_eqb (get (preset_table Vdw) z) (get ref_vdw z) = true /\
    fl_eqb (get (preset_table VdwCovalent) z) (vdw_covalent_spec ref_vdw ref_covalent z) = true.
Proof. exact (presets_resolve preset_table ref_covalent ref_vdw presets_check_ok). Qed.
Print Assumptions C19_presets_resolve_to_documented_tables.

(* ... so that every element with either radius gets a finite positive value (and every element
   1..103 has one of them). *)
Theorem C19_vdw_covalent_finite_positive :
  forall z, (1 <= z < 1 + 103)%nat -> positive_finite (get (preset_table VdwCovalent) z) = true.
Proof. exact (vdw_covalent_positive preset_table ref_covalent ref_vdw presets_check_ok). Qed.
Print Assumptions C19_vdw_covalent_finite_positive.

(* covalent table over the whole range ASE tabulates (0..118) *)
Theorem C19_covalent_full_range :
  forall z, (0 <= z < 0 + 119)%nat ->
    fl_eqb (get (preset_table Covalent) z) (get ref_covalent z) = true
    /\ positive_finite (get (preset_table Covalent) z) = true.
Proof. exact (covalent_full preset_table ref_covalent covalent_check_ok). Qed.
Print Assumptions C19_covalent_full_range.

(* get_radii on a list of atomic numbers is the pointwise lookup. *)
Theorem C19_get_radii_pointwise :
  forall p nums, get_radii preset_table (Preset p) nums = map (get (preset_table p)) nums.
Proof. exact (fun p nums => eq_refl). Qed.
Print Assumptions C19_get_radii_pointwise.

(* a custom per-atom array is used unchanged *)
Theorem C19_custom_unchanged :
  forall arr nums, get_radii preset_table (Custom arr) nums = arr.
Proof. exact (get_radii_custom preset_table). Qed.
Print Assumptions C19_custom_unchanged.

(* results obtained with a preset equal those obtained by passing the same numbers as a custom
   array, for every consumer that uses its radii argument only through get_radii (checked on the
   source by the translator for get_dimensionality, get_distances and SBC.get_clusters). *)
Theorem C19_preset_eq_custom :
  forall (A B : Type) (consumer : list fl -> A -> B) p nums rest,
    consumer (get_radii preset_table (Preset p) nums) rest
    = consumer (get_radii preset_table (Custom (get_radii preset_table (Preset p) nums)) nums) rest.
Proof. exact (consumer_preset_eq_custom preset_table). Qed.
Print Assumptions C19_preset_eq_custom.

(* non-vacuity: promethium has no van der Waals radius and falls back to its covalent one *)
Example C19_fallback_used :
  get ref_vdw 61 = None /\ fl_eqb (get (preset_table VdwCovalent) 61) (get ref_covalent 61) = true
  /\ positive_finite (get ref_covalent 61) = true.
Proof. exact fallback_example. Qed.
Print Assumptions C19_fallback_used.
