(* C16 -- periodic neighbour search and position matching are complete and exact.
   Only statements closed by [exact]; model files Geometry/Extend.v, CellList.v, Matches.v (shared with
   C10), tied to the current sources by the correspondence run of harness/props/c16.py. *)
From Coq Require Import ZArith QArith List Bool Lia Permutation.
Import ListNotations.
From MV Require Import Base.ZV3 Geometry.Extend Geometry.ExtendProofs Geometry.CellList Geometry.CellListProofs
     Geometry.Matches Geometry.MatchesProofs.
Open Scope Z_scope.

(* extended_exactly_once -- for EVERY cell, including singular ones and cells with one to three zero
   vectors (completion branch): membership, no duplicates, originals first, no offset along
   non-periodic or missing axes, size *)
Theorem C16_extended_exactly_once : forall a b c pbc ext2 atoms,
  let N := n_copies a b c pbc ext2 in
  let ext := extend_system a b c pbc ext2 atoms in
  (forall e, In e ext <->
     exists i at_ n, nth_error atoms i = Some at_ /\ in_box N n /\
                     e = mkE (add (a_pos at_) (latv a b c n)) (a_num at_) i n) /\
  NoDup (map (fun e => (e_idx e, e_fac e)) ext) /\ NoDup ext /\
  firstn (length atoms) ext = map (fun ia => mkE (a_pos (snd ia)) (a_num (snd ia)) (fst ia) zero3) (indexed atoms) /\
  (forall e, In e ext -> admissible (eff_pbc a b c pbc) (e_fac e)) /\
  Z.of_nat (length ext) = Z.of_nat (length atoms) * ((2 * vx N + 1) * (2 * vy N + 1) * (2 * vz N + 1)).
Proof. exact extended_exactly_once. Qed.
Print Assumptions C16_extended_exactly_once.

(* extended_covers, half-open cell reading: every image within ext of a point of the cell is present *)
Theorem C16_extended_covers : forall a b c pbc ext2 atoms q j at_ n,
  vol a b c <> 0 -> 0 <= ext2 ->
  (forall at', In at' atoms -> in_cell a b c pbc (a_pos at')) ->
  in_cell a b c pbc q -> nth_error atoms j = Some at_ -> admissible pbc n ->
  dist2 q (add (a_pos at_) (latv a b c n)) <= ext2 ->
  In (mkE (add (a_pos at_) (latv a b c n)) (a_num at_) j n) (extend_system a b c pbc ext2 atoms).
Proof. exact extended_covers. Qed.
Print Assumptions C16_extended_covers.

(* the same for a cell with one missing vector (completed by the cross product) *)
Theorem C16_extended_covers_completed : forall a b c pbc ext2 atoms q j at_ n,
  n_empty a b c = 1 ->
  (let '(a', b', c') := complete_cell a b c in
   vol a' b' c' <> 0 /\
   (forall at', In at' atoms -> in_cell a' b' c' (eff_pbc a b c pbc) (a_pos at')) /\
   in_cell a' b' c' (eff_pbc a b c pbc) q) ->
  0 <= ext2 -> nth_error atoms j = Some at_ -> admissible (eff_pbc a b c pbc) n ->
  dist2 q (add (a_pos at_) (latv a b c n)) <= ext2 ->
  In (mkE (add (a_pos at_) (latv a b c n)) (a_num at_) j n) (extend_system a b c pbc ext2 atoms).
Proof. exact extended_covers_completed. Qed.
Print Assumptions C16_extended_covers_completed.

(* ... and the counting argument for a cell with two missing vectors (1D) *)
Theorem C16_copies_suffice_1d : forall k q pj m R2 N,
  0 < dot k k -> in_seg k q -> in_seg k pj -> 0 <= N -> R2 <= N * N * dot k k ->
  norm2 (sub (sub q pj) (scale m k)) <= R2 -> Z.abs m <= N.
Proof. exact copies_suffice_1d. Qed.
Print Assumptions C16_copies_suffice_1d.

(* query_sound_complete *)
Theorem C16_query_sound_complete : forall p a b c pbc ext2 cu pos,
  (0 < p)%Q -> vol a b c <> 0 -> cut_pos cu -> 0 <= ext2 ->
  (forall r, In r pos -> in_cell a b c pbc r) ->
  let pts := cell_list_points a b c pbc ext2 pos in
  let g := mk_geom p cu pts in
  let n := length pos in
  let to_image q j f := sub q (add (nth j pos zero3) (latv a b c f)) in
  forall q,
    let rows := neighbours g pts q in
    (forall r, In r rows ->
       (r_orig r < n)%nat /\ admissible pbc (r_fac r) /\
       r_disp r = to_image q (r_orig r) (r_fac r) /\ r_d2 r = norm2 (r_disp r) /\
       within cu q (add (nth (r_orig r) pos zero3) (latv a b c (r_fac r))) = true /\
       exists e, nth_error pts (r_idx r) = Some e /\ e_idx e = r_orig r /\ e_fac e = r_fac r) /\
    NoDup (map (fun r => (r_orig r, r_fac r)) rows) /\ NoDup (map r_idx rows) /\
    (in_cell a b c pbc q ->
     forall j f, (j < n)%nat -> admissible pbc f ->
       norm2 (to_image q j f) <= ext2 ->
       within cu q (add (nth j pos zero3) (latv a b c f)) = true ->
       exists r, In r rows /\ r_orig r = j /\ r_fac r = f).
Proof. exact query_sound_complete. Qed.
Print Assumptions C16_query_sound_complete.

(* match_trichotomy (one probe of get_matches) *)
Theorem C16_match_trichotomy : forall p a b c pbc ext2 cu pos,
  (0 < p)%Q -> vol a b c <> 0 -> cut_pos cu -> 0 <= ext2 ->
  (forall r, In r pos -> in_cell a b c pbc r) ->
  forall nums tol, length nums = length pos -> 0 <= tol -> tol * tol <= ext2 ->
  match cu with Fin c0 => tol <= c0 | Inf => True end ->
  let pts := cell_list_points a b c pbc ext2 pos in
  let g := mk_geom p cu pts in
  let n := length pos in
  let to_image q j f := sub q (add (nth j pos zero3) (latv a b c f)) in
  let nearest q j f := forall j' f', (j' < n)%nat -> admissible pbc f' -> norm2 (to_image q j f) <= norm2 (to_image q j' f') in
  let nothing q := forall j f, (j < n)%nat -> admissible pbc f -> tol * tol < norm2 (to_image q j f) in
  forall q z, in_cell a b c pbc q ->
    let res := match_one a b c nums tol (neighbours g pts q) q z in
    ((exists f, res = Vacancy f) <-> nothing q) /\
    (forall f, res = Vacancy f -> f = floor_scaled a b c q) /\
    (forall j f, (res = Match j f \/ exists z1 z2, res = Subst j f z1 z2) ->
       (j < n)%nat /\ admissible pbc f /\ norm2 (to_image q j f) <= tol * tol /\ nearest q j f) /\
    (forall j f, res = Match j f -> nth j nums 0 = z) /\
    (forall j f z1 z2, res = Subst j f z1 z2 -> z1 = z /\ z2 = nth j nums 0 /\ z2 <> z).
Proof. exact match_trichotomy. Qed.
Print Assumptions C16_match_trichotomy.

(* match_species (reused by C03): unconditional *)
Theorem C16_match_species : forall p a b c pbc ext2 cu pos nums tol q z j f,
  match_one a b c nums tol
    (neighbours (mk_geom p cu (cell_list_points a b c pbc ext2 pos)) (cell_list_points a b c pbc ext2 pos) q) q z
  = Match j f -> nth j nums 0 = z.
Proof. exact match_species. Qed.
Print Assumptions C16_match_species.

(* get_matches_simple on a wrapped position *)
Theorem C16_match_simple_spec : forall p a b c pbc ext2 cu pos,
  (0 < p)%Q -> vol a b c <> 0 -> cut_pos cu -> 0 <= ext2 ->
  (forall r, In r pos -> in_cell a b c pbc r) ->
  forall nums tol, length nums = length pos -> 0 <= tol -> tol * tol <= ext2 ->
  match cu with Fin c0 => tol <= c0 | Inf => True end ->
  let pts := cell_list_points a b c pbc ext2 pos in
  let g := mk_geom p cu pts in
  let n := length pos in
  let to_image q j f := sub q (add (nth j pos zero3) (latv a b c f)) in
  let nearest q j f := forall j' f', (j' < n)%nat -> admissible pbc f' -> norm2 (to_image q j f) <= norm2 (to_image q j' f') in
  let nothing q := forall j f, (j < n)%nat -> admissible pbc f -> tol * tol < norm2 (to_image q j f) in
  forall w z, in_cell a b c pbc w ->
    let res := match_simple_one nums tol (neighbours g pts w) z in
    (forall j d, res = Some (j, d) ->
       (j < n)%nat /\ nth j nums 0 = z /\
       exists f, admissible pbc f /\ d = to_image w j f /\ norm2 d <= tol * tol /\ nearest w j f) /\
    (res = None ->
       nothing w \/
       exists j f, (j < n)%nat /\ admissible pbc f /\ norm2 (to_image w j f) <= tol * tol /\
                   nearest w j f /\ nth j nums 0 <> z).
Proof. exact match_simple_spec. Qed.
Print Assumptions C16_match_simple_spec.

(* exact wrapping lands in the half-open cell by an admissible lattice vector *)
Theorem C16_wrap_exact_in_cell : forall a b c pbc q, vol a b c <> 0 ->
  in_cell a b c pbc (wrap_exact a b c pbc q) /\
  exists nv, admissible pbc nv /\ wrap_exact a b c pbc q = sub q (latv a b c nv).
Proof. exact wrap_exact_in_cell. Qed.
Print Assumptions C16_wrap_exact_in_cell.

(* non-vacuity *)
Example C16_match_example :
  let a := mk3 8 0 0 in let b := mk3 3 6 0 in let c := mk3 0 0 10 in
  let pbc := mkP true true false in
  let pos := [mk3 1 1 1; mk3 9 5 2] in
  let pts := cell_list_points a b c pbc (6 * 6) pos in
  let g := mk_geom (1 # 10000) (Fin 5) pts in
  vol a b c <> 0 /\ (forall r, In r pos -> in_cell a b c pbc r) /\ in_cell a b c pbc (mk3 2 4 2) /\
  match_one a b c [14; 8] 2 (neighbours g pts (mk3 2 4 2)) (mk3 2 4 2) 8 = Match 1 (mk3 (-1) 0 0) /\
  match_one a b c [14; 8] 2 (neighbours g pts (mk3 2 4 2)) (mk3 2 4 2) 14 = Subst 1 (mk3 (-1) 0 0) 14 8 /\
  match_one a b c [14; 8] 2 (neighbours g pts (mk3 5 3 6)) (mk3 5 3 6) 8 = Vacancy (mk3 0 0 0).
Proof. exact match_example. Qed.
Print Assumptions C16_match_example.

Example C16_copies_example :
  in_box (n_copies (mk3 4 0 0) (mk3 1 3 0) (mk3 0 1 5) (mkP true true false) (14 * 14)) (mk3 (-1) 1 0).
Proof. exact copies_suffice_example_box. Qed.
Print Assumptions C16_copies_example.
