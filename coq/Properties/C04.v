(* C04 -- a cluster's prototype cell identifies the material it was cut from.

   HONEST SCOPE.  The for-all claim of the property depends on two engines that are not modelled: the
   periodic finder's floating-point search (core/periodicfinder.py) and spglib.  What is proved here is
   the part that is logic, and a CONDITIONAL theorem:
     (a) Cluster.get_cell() returns the region's prototype cell when no cell was set (truthiness dispatch
         mirrored exactly), and that cell has 3 periodic axes on the finder's 3D branch and exactly 2 on the
         2D branch or after the 3D->2D reduction; for every SBC output cluster it has 2 or 3 (from C01);
     (b) species counts that are k >= 1 times the primitive cell's are a whole number of formula units;
     (c) C04_partial: IF spglib's dataset for the prototype cell has the source crystal's space-group number
         and its orbits are the source's with letters moved by an element of the group's letter-permutation
         group, in any atom order (oracle contract S1), and reported sets have the multiplicity of their
         letter (S3; C07 + C14), THEN the Wyckoff occupation multiset and the material id's pre-hash string
         are equal (space group equality is part of S1).  Obtained from C06_ground_state_invariant (via
         Inst/C05Inst.ground_state_invariant_all) and the fact that the sorted list of strings depends only on
         the multiset.
   MISSING for C04_full_statement (below): F1 -- the finder returns, for every member of the family, a cell
   that is a k-fold primitive cell of the crystallite on the right branch; S1 -- spglib's answer on the
   averaged cell.  Both are validated only by the conformance run of harness/props/c04.py on an enumerated
   family (which finds members where F1 fails, see known_findings.json). *)
From Coq Require Import ZArith List String Bool Permutation.
Import ListNotations.
From MV Require Import Sbc.Common Sbc.CommonProofs Sbc.Driver Sbc.DriverProofs Sbc.Pipeline Sbc.ProtoCell
  Symmetry.Table Symmetry.GroundState Symmetry.GroundStateInvariance Reflect.GroundChecks.
From MVD Require Import Generated.SGAll Generated.ChkAll Inst.C14Inst Inst.C05Inst.
Close Scope Z_scope.
Open Scope nat_scope.

(* ---- (a) ---------------------------------------------------------------------------------------- *)
(* _cell unset and a (truthy) region: the region's cell *)
Theorem C04_get_cell_returns_region_cell : forall (A : Type) (rc : A), get_cell PyNone (PyObj true rc) = Some rc.
Proof. exact (fun A rc => get_cell_unset rc). Qed.
Print Assumptions C04_get_cell_returns_region_cell.

(* the complete dispatch, with Python truthiness: x is returned iff the cell attribute is truthy and is x, or
   it is None/falsy and the region is truthy with cell x (an empty region gives None) *)
Theorem C04_get_cell_dispatch : forall (A : Type) (cell region : pyobj A) (x : A),
  get_cell cell region = Some x <->
  cell = PyObj true x \/ ((forall a, cell <> PyObj true a) /\ region = PyObj true x).
Proof. exact (fun A => @get_cell_spec A). Qed.
Print Assumptions C04_get_cell_dispatch.

(* periodicity of the prototype cell per finder branch: the returned `dim` counts the periodic axes, is 2 or
   3, is 3 exactly on the kept 3D branch (pbc T,T,T) and 2 on the 2D branch / reduction (pbc T,T,F) *)
Theorem C04_proto_cell_periodicity : forall n_spans dimensionality accepted pbc dim,
  find_proto_cell_pbc n_spans dimensionality accepted = Some (pbc, dim) ->
  n_periodic pbc = dim /\ (dim = 2 \/ dim = 3) /\
  (dim = 3 <-> (n_spans = 3 /\ dimensionality = Some 3)) /\
  (dim = 3 -> pbc = TTT) /\ (dim = 2 -> pbc = TTF).
Proof. exact find_proto_cell_pbc_spec. Qed.
Print Assumptions C04_proto_cell_periodicity.

(* every cluster SBC returns (any finder satisfying F0 whose regions are non-empty): get_cell() is its
   region's cell, periodic in 2 or 3 directions *)
Theorem C04_output_cluster_cell :
  forall setlist, setlist_ok setlist ->
  forall n Znum finder choose merge_threshold near bond, F0 n finder -> choose_ok choose ->
  forall out, sbc setlist n Znum finder choose merge_threshold near bond = Ok out ->
  forall nonempty, (forall r, from_finder n finder r -> nonempty r = true) ->
  forall c, In c out ->
    exists pbc, sbc_get_cell nonempty c = Some pbc /\ pbc = rper (creg c) /\ (n_periodic pbc = 2 \/ n_periodic pbc = 3).
Proof. exact output_cluster_cell. Qed.
Print Assumptions C04_output_cluster_cell.

(* ---- (b) ---------------------------------------------------------------------------------------- *)
Theorem C04_whole_formula_units : forall k prim cell,
  1 <= k -> (exists x, In x prim /\ x <> 0) -> cell = scale k prim ->
  whole_units cell (reduced prim) /\ exists m, 1 <= m /\ cell = scale m (reduced prim) /\ m = k * gcd_list prim.
Proof. exact multiple_of_primitive_is_whole_units. Qed.
Print Assumptions C04_whole_formula_units.

Theorem C04_reduced_formula_of_multiple : forall k l,
  1 <= k -> (exists x, In x l /\ x <> 0) -> reduced (scale k l) = reduced l.
Proof. exact reduced_scale. Qed.
Print Assumptions C04_reduced_formula_of_multiple.

(* ---- (c) ---------------------------------------------------------------------------------------- *)
(* sorted(strings) depends only on the multiset of strings (Python's str order = String.leb) *)
Theorem C04_sorted_strings_depend_on_multiset : forall l l', Permutation l l' -> sort_str l = sort_str l'.
Proof. exact sort_str_permutation. Qed.
Print Assumptions C04_sorted_strings_depend_on_multiset.

(* the boolean by which the check validates S1 on real spglib datasets means S1 *)
Theorem C04_s1_checker_sound : forall gl perms L Zs L' Zs', s1_holds gl perms L Zs L' Zs' = true ->
  exists pi, In pi (ident_perm gl :: perms) /\
             Permutation (combine L' Zs') (map (fun lz => (hat pi (fst lz), snd lz)) (combine L Zs)).
Proof. exact s1_holds_sound. Qed.
Print Assumptions C04_s1_checker_sound.

(* CONDITIONAL on the oracle contracts S1 (4th premise) and S3 (last two premises): same Wyckoff occupation
   multiset, same count map, same material-id pre-hash string, for every regenerated table with normalizers,
   every letter permutation pi of the group, every pair of datasets.  The space-group number is the table's
   for both analyses (that it is the same for the prototype cell is part of S1). *)
Theorem C04_partial :
  forall t, In t tables -> table_perms t <> [] ->
  forall (mult : string -> nat) (sym : Z -> string) (src proto : list orbit) (pi : perm) (c c' : cand) (two_d : bool),
    In pi (ident_perm (table_letters t) :: table_perms t) ->
    incl (letters_of src) (table_letters t) -> incl (letters_of proto) (table_letters t) ->
    Permutation proto (relabel (hat pi) src) ->
    ground_state (letters_of src) (numbers_of src) (table_perms t) = Chosen c ->
    ground_state (letters_of proto) (numbers_of proto) (table_perms t) = Chosen c' ->
    (forall o, In o src -> o_n o = mult (hat (c_perm c) (o_letter o)) /\ 1 <= o_n o) ->
    (forall o, In o proto -> o_n o = mult (hat (c_perm c') (o_letter o)) /\ 1 <= o_n o) ->
    Permutation (wsets (c_perm c') proto) (wsets (c_perm c) src)
    /\ (forall w z, count (c_perm c') (atoms_of proto) w z = count (c_perm c) (atoms_of src) w z)
    /\ material_string sym two_d (sg_num t) (wsets (c_perm c') proto) = material_string sym two_d (sg_num t) (wsets (c_perm c) src).
Proof.
  exact (fun t Ht Hne mult sym src proto pi c c' two_d =>
           material_id_invariant (table_letters t) (table_perms t) mult sym
             (chk_norms_total t (certs_of (sg_num t)) (norms_all t Ht))
             (ground_state_invariant_all t Ht Hne) src proto pi c c' two_d (sg_num t)).
Qed.
Print Assumptions C04_partial.

(* the hypotheses of C04_partial are satisfiable: rock salt with the two sublattices exchanged (Sbc/ProtoCell.v,
   module RockSaltExample: S1 by the swap a<->b, the two searches choose identity / swap, both give
   "225 Cl b 4, Na a 4") *)
Theorem C04_partial_hypotheses_satisfiable :
  Permutation RockSaltExample.proto (relabel (hat RockSaltExample.swap) RockSaltExample.src)
  /\ ground_state (letters_of RockSaltExample.src) (numbers_of RockSaltExample.src) RockSaltExample.perms
     = Chosen (mkCand (ident_perm (letters_of RockSaltExample.src)) true 0)
  /\ ground_state (letters_of RockSaltExample.proto) (numbers_of RockSaltExample.proto) RockSaltExample.perms
     = Chosen (mkCand RockSaltExample.swap false 1)
  /\ (material_string RockSaltExample.sym false 225%Z (wsets RockSaltExample.swap RockSaltExample.proto) = "225 Cl b 4, Na a 4"
      /\ material_string RockSaltExample.sym false 225%Z (wsets (ident_perm (letters_of RockSaltExample.src)) RockSaltExample.src) = "225 Cl b 4, Na a 4")%string.
Proof. exact (conj RockSaltExample.s1 (conj RockSaltExample.gs_src (conj RockSaltExample.gs_proto RockSaltExample.strings_equal))). Qed.
Print Assumptions C04_partial_hypotheses_satisfiable.

(* ---- the full statement (NOT proved) -------------------------------------------------------------- *)
Section Full.
  Variable Structure : Type.
  Variable in_family : Structure -> Prop.        (* single crystals of C02 rattled <= 0.02 A; graphene, h-BN, MX2 monolayers *)
  Variable is_monolayer : Structure -> bool.
  Variable table_of : Structure -> sgtable.      (* the source crystal's space group *)
  Variable source : Structure -> list orbit * cand.   (* spglib's orbits of its own unit cell, representation chosen *)
  Variable formula : Structure -> list nat.      (* reduced formula, species-aligned *)
  (* the README workflow on the real code: space-group number, spglib orbits and chosen representation for
     cluster.get_cell(), that cell's pbc and species counts; None = not exactly one cluster / an exception *)
  Variable workflow : Structure -> option (Z * list orbit * cand * list bool * list nat).
  Variable sym : Z -> string.

  (* Missing for a proof: F1 (finder success: `workflow s` is Some, the cell is a k-fold primitive cell built
     on the 3D branch for bulk/slabs and on the 2D branch for monolayers) and S1 (spglib on the averaged cell).
     Given F1 and S1, conjunct 2-3 follow from C04_partial, conjunct 4 from C04_proto_cell_periodicity and
     conjunct 5 from C04_whole_formula_units. *)
  Definition C04_full_statement : Prop :=
    forall s, in_family s ->
      exists os c' pbc counts,
        workflow s = Some (sg_num (table_of s), os, c', pbc, counts)
        /\ Permutation (wsets (c_perm c') os) (wsets (c_perm (snd (source s))) (fst (source s)))
        /\ material_string sym (is_monolayer s) (sg_num (table_of s)) (wsets (c_perm c') os)
           = material_string sym (is_monolayer s) (sg_num (table_of s)) (wsets (c_perm (snd (source s))) (fst (source s)))
        /\ n_periodic pbc = (if is_monolayer s then 2 else 3)
        /\ whole_units counts (formula s).
End Full.
