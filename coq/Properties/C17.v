(* C17 -- Classifier output is consistent with dimensionality and with its own region.
   Only statements closed by [exact].  Model: Classify/Dispatch.v (hand-written mirror of
   Classifier.classify / cross_validate_region, LinkedUnitCollection.get_basis_indices /
   get_connected_directions and Class2DWithCell.basis_indices / outliers); the periodic finder is a
   universally quantified function  seed -> max_cell_size -> pos_tol -> option region;
   [dim] is the dimensionality of the wrapped copy.

   C17_full_statement (the property as given) additionally says that the *implementation* returns
   normally and leaves the caller's Atoms untouched.  Those two clauses concern unmodelled
   numpy/ASE/C++ code and Python aliasing; they are observed by the harness on every run, not
   proved.  What is proved is the statement about the dispatch: C17_dispatch_statement. *)
From Coq Require Import List Bool Arith ZArith QArith Lia Permutation.
Import ListNotations.
From MV Require Import Classify.Dispatch Classify.DispatchProofs.
Local Open Scope nat_scope.

(* The property, model level, in one statement: for every finder honouring F0, every configuration
   in which self.abs_pos_tol gets assigned (at least one tolerance mode "relative" -- the default is
   both -- or the repaired source, see C17_both_absolute_raises), every state of the
   Classifier object and every well-formed input: a Classification is returned; its class matches
   the dimensionality table; exactly Surface/Material2D carry a region, and that region has a
   prototype cell, covers >= min_coverage of the atoms, is connected in exactly two directions and
   its basis atoms and outliers partition {0..n-1}; a repeated call returns the same. *)
Definition C17_full_statement : Prop :=
  forall finder cfg st inp,
    tolerances_assigned cfg -> well_formed inp -> F0 finder (n_atoms inp) ->
    exists c reg,
      classify finder cfg st inp = Returned c reg
      /\ class_ok (dim inp) (n_atoms inp) c
      /\ (reg <> None <-> has_cell_class c)
      /\ (forall r, reg = Some r ->
            cell r <> None
            /\ (min_cov cfg * inject_Z (Z.of_nat (n_atoms inp))
                <= inject_Z (Z.of_nat (length (basis_indices r))))%Q
            /\ count_true (connected_directions r) = 2
            /\ partitions (n_atoms inp) (basis_indices r) (outliers (n_atoms inp) r))
      /\ classify finder cfg (fst (classify_step finder cfg st inp)) inp = Returned c reg.

Theorem C17_dispatch_statement : C17_full_statement.
Proof. exact dispatch_statement. Qed.
Print Assumptions C17_dispatch_statement.

(* The class table, for every finder, configuration, object state and input (no hypotheses):
   None -> Unknown; 0 -> Atom iff one atom else Class0D; 1 -> Class1D; 3 -> Class3D;
   2 -> Class2D / Surface / Material2D whenever the call returns; >= 4 -> Python None. *)
Theorem C17_class_matches_dimensionality :
  forall finder cfg st inp,
    match dim inp with
    | None => classify finder cfg st inp = Returned Unknown None
    | Some 0 => classify finder cfg st inp
                = Returned (if Nat.eqb (n_atoms inp) 1 then Atom else Class0D) None
    | Some 1 => classify finder cfg st inp = Returned Class1D None
    | Some 2 =>
        forall out, classify finder cfg st inp = out ->
          match out with
          | Returned c reg => is_2d_class c /\ (reg <> None <-> has_cell_class c)
          | ReturnedNone => False
          | RaisedTypeError => update_state cfg inp st = None
          | OutOfDomain => seed_indices (order inp) (num inp) = None
          end
    | Some 3 => classify finder cfg st inp = Returned Class3D None
    | Some _ => classify finder cfg st inp = ReturnedNone
    end.
Proof. exact class_matches_dimensionality. Qed.
Print Assumptions C17_class_matches_dimensionality.

(* A Classification object is returned whenever abs_pos_tol gets assigned. *)
Theorem C17_returns_classification :
  forall finder cfg st inp,
    (rel_pos cfg = true \/ (rel_del cfg = true /\ pos_tol cfg <> None) \/
     (rel_pos cfg = false /\ rel_del cfg = false /\ else_assigns cfg = true /\ pos_tol cfg <> None) \/
     (rel_pos cfg = false /\ rel_del cfg = false /\ else_assigns cfg = false /\ st <> None)) ->
    (forall d, dim inp = Some d -> d <= 3) ->
    seed_indices (order inp) (num inp) <> None ->
    exists c reg, classify finder cfg st inp = Returned c reg.
Proof. exact returns_classification. Qed.
Print Assumptions C17_returns_classification.

(* FINDING (outside the "varied thresholds" of the property, inside its "returns normally"): with
   pos_tol_mode = delaunay_threshold_mode = "absolute" a fresh Classifier raises TypeError on every
   two-dimensional structure, whatever the finder would answer -- as long as the source has no
   `else:` branch assigning self.abs_pos_tol ([else_assigns] is read from the AST on every run; with
   fixes/classifier-abs-pos-tol.diff applied it is true and C17_dispatch_statement covers this
   configuration as well). *)
Theorem C17_both_absolute_raises :
  forall finder cfg inp seeds,
    rel_pos cfg = false -> rel_del cfg = false -> else_assigns cfg = false -> dim inp = Some 2 ->
    seed_indices (order inp) (num inp) = Some seeds -> seeds <> [] -> sizes cfg <> [] ->
    classify finder cfg initial_state inp = RaisedTypeError.
Proof. exact both_absolute_raises. Qed.
Print Assumptions C17_both_absolute_raises.

Theorem C17_returns_normally_refuted_both_absolute :
  exists finder cfg inp,
    F0 finder (n_atoms inp) /\ well_formed inp
    /\ rel_pos cfg = false /\ rel_del cfg = false /\ else_assigns cfg = false /\ pos_tol cfg <> None
    /\ classify finder cfg initial_state inp = RaisedTypeError.
Proof. exact returns_normally_refuted_both_absolute. Qed.
Print Assumptions C17_returns_normally_refuted_both_absolute.

(* Surface / Material2D under the finder contract F0 (indices in range, prototype cell attached). *)
Theorem C17_surface_or_2d_has_region :
  forall finder cfg inp, F0 finder (n_atoms inp) ->
  forall st c r,
    classify finder cfg st inp = Returned c (Some r) ->
    has_cell_class c
    /\ cell r <> None
    /\ (min_cov cfg * inject_Z (Z.of_nat (n_atoms inp)) <= inject_Z (Z.of_nat (length (basis_indices r))))%Q
    /\ count_true (connected_directions r) = 2
    /\ partitions (n_atoms inp) (basis_indices r) (outliers (n_atoms inp) r).
Proof. exact surface_or_2d_has_region. Qed.
Print Assumptions C17_surface_or_2d_has_region.

(* ... and what holds for every finder at all: the region is one the finder returned, Material2D
   iff is_2d, coverage, exactly two connected directions, duplicate-free views, outliers = the
   in-range complement of the basis. *)
Theorem C17_surface_or_2d_region_any_finder :
  forall finder cfg st inp c r,
    classify finder cfg st inp = Returned c (Some r) ->
    has_cell_class c
    /\ (c = Material2D <-> is_2d r = true)
    /\ dim inp = Some 2
    /\ (exists s z t, finder s z t = Some r)
    /\ (min_cov cfg * inject_Z (Z.of_nat (n_atoms inp)) <= inject_Z (Z.of_nat (length (basis_indices r))))%Q
    /\ count_true (connected_directions r) = 2
    /\ NoDup (basis_indices r) /\ NoDup (outliers (n_atoms inp) r)
    /\ (forall i, In i (outliers (n_atoms inp) r) <-> i < n_atoms inp /\ ~ In i (basis_indices r)).
Proof. exact surface_or_2d_region. Qed.
Print Assumptions C17_surface_or_2d_region_any_finder.

Theorem C17_region_iff_refinement :
  forall finder cfg st inp c reg,
    classify finder cfg st inp = Returned c reg -> (reg <> None <-> has_cell_class c).
Proof. exact region_iff_refinement. Qed.
Print Assumptions C17_region_iff_refinement.

(* F0 is satisfiable (a concrete finder, Surface with one outlier) ... *)
Theorem C17_F0_satisfiable :
  F0 ex_finder (n_atoms ex_inp) /\ well_formed ex_inp /\ tolerances_assigned ex_cfg
  /\ classify ex_finder ex_cfg initial_state ex_inp = Returned Surface (Some ex_region)
  /\ basis_indices ex_region = [0; 1; 2] /\ outliers 4 ex_region = [3]
  /\ connected_directions ex_region = [true; true; false]
  /\ n_calls ex_finder ex_cfg initial_state ex_inp = 2.
Proof. exact F0_satisfiable. Qed.
Print Assumptions C17_F0_satisfiable.

(* ... and necessary for the partition clause. *)
Theorem C17_partition_refuted_without_F0 :
  exists finder cfg inp r,
    well_formed inp /\ tolerances_assigned cfg
    /\ classify finder cfg initial_state inp = Returned Surface (Some r)
    /\ ~ partitions (n_atoms inp) (basis_indices r) (outliers (n_atoms inp) r).
Proof. exact partition_needs_F0. Qed.
Print Assumptions C17_partition_refuted_without_F0.

(* cross_validate_region: the first region with zero outliers wins and stops the search; else the
   first region of maximal positive size; else nothing. *)
Theorem C17_cross_validate_is_argmax :
  forall finder n cs, cv_result finder n cs (cross_validate finder n cs).
Proof. exact cross_validate_is_argmax. Qed.
Print Assumptions C17_cross_validate_is_argmax.

(* seed selection: one atom of every species present, in range, at least one *)
Theorem C17_seed_indices_spec :
  forall n num order,
    length num = n -> Permutation order (seq 0 n) ->
    exists seeds, seed_indices order num = Some seeds
      /\ (forall s, In s seeds -> s < n)
      /\ NoDup (map (nth_error num) seeds)
      /\ (forall i, i < n -> exists s, In s seeds /\ nth_error num s = nth_error num i)
      /\ (0 < n -> seeds <> []).
Proof. exact seed_indices_spec. Qed.
Print Assumptions C17_seed_indices_spec.

(* get_connected_directions: direction d is connected iff one node has in-edges +e_d and -e_d *)
Theorem C17_connected_directions_spec :
  forall r d, d < 3 ->
    nth d (connected_directions r) false = true
    <-> exists e, In e (graph r) /\ has_both e d = true.
Proof. exact connected_directions_spec. Qed.
Print Assumptions C17_connected_directions_spec.

(* get_basis_indices: the set of non-None entries of the units *)
Theorem C17_basis_indices_spec :
  forall r i, In i (basis_indices r) <-> exists u, In u (units r) /\ In (Some i) u.
Proof. exact basis_indices_In. Qed.
Print Assumptions C17_basis_indices_spec.

(* determinism of repeated calls on the same object, from every state and in every mode; and
   independence of the object's history in a relative mode *)
Theorem C17_repeated_call_same_result :
  forall finder cfg inp st,
    classify_step finder cfg (fst (classify_step finder cfg st inp)) inp = classify_step finder cfg st inp.
Proof. exact repeated_call_same_result. Qed.
Print Assumptions C17_repeated_call_same_result.

Theorem C17_state_independent :
  forall finder cfg inp st1 st2,
    (rel_pos cfg || rel_del cfg)%bool = true ->
    classify_step finder cfg st1 inp = classify_step finder cfg st2 inp.
Proof. exact classify_state_independent. Qed.
Print Assumptions C17_state_independent.
