(* C18 -- Classifier recognises pristine slabs and monolayers and isolates adsorbates.
   Only a CONDITIONAL theorem is possible here: the recognition itself is done by the periodic
   finder (1 300 lines of floating-point heuristics, an oracle in this development).

   C18_full_statement: every member of the stated family (a predicate [member] on finder, configuration,
   object state, input, crystal atoms, monolayer flag -- NOT formalised: it talks about real crystal
   geometry and about what the real PeriodicFinder returns for it) is classified as Surface
   (resp. Material2D) with outliers exactly the atoms outside the crystal.
   C18_partial reduces it to the contract F1_contract; that every family member satisfies the contract
   is validated by a conformance run of the real code on an enumeration of the family (harness/props/
   c18.py) -- it is NOT proved.  Missing for a proof: a model of periodicfinder.py and of the
   dimensionality of slab geometries, and the invariance of both under rotation/translation/permutation. *)
From Coq Require Import List Bool Arith ZArith QArith Lia Permutation.
Import ListNotations.
From MV Require Import Classify.Dispatch Classify.DispatchProofs.
Local Open Scope nat_scope.

Definition C18_full_statement
  (member : (nat -> Q -> Q -> option region) -> config -> state -> input -> list nat -> bool -> Prop) : Prop :=
  forall finder cfg st inp slab two_d,
    member finder cfg st inp slab two_d -> recognised_as finder cfg st inp slab two_d.

(* If every member of the family honours the contract (dimensionality 2, F1, coverage, adsorbate species
   absent from the crystal, ...), the full statement holds for that family. *)
Theorem C18_partial :
  forall member : (nat -> Q -> Q -> option region) -> config -> state -> input -> list nat -> bool -> Prop,
    (forall finder cfg st inp slab two_d,
        member finder cfg st inp slab two_d -> F1_contract finder cfg st inp slab two_d) ->
    C18_full_statement member.
Proof. exact (fun member H finder cfg st inp slab two_d Hm =>
                contract_implies_recognised finder cfg st inp slab two_d (H _ _ _ _ _ _ Hm)). Qed.
Print Assumptions C18_partial.

(* one input: contract => Surface (slab) / Material2D (monolayer), basis = the crystal, outliers = the rest *)
Theorem C18_contract_implies_recognised :
  forall finder cfg st inp slab two_d,
    F1_contract finder cfg st inp slab two_d ->
    exists r,
      classify finder cfg st inp = Returned (if two_d then Material2D else Surface) (Some r)
      /\ (forall i, In i (basis_indices r) <-> In i slab)
      /\ (forall i, In i (outliers (n_atoms inp) r) <-> i < n_atoms inp /\ ~ In i slab)
      /\ cell r <> None.
Proof. exact contract_implies_recognised. Qed.
Print Assumptions C18_contract_implies_recognised.

(* pristine monolayer: Material2D with no outliers *)
Theorem C18_monolayer_no_outliers :
  forall finder cfg st inp slab,
    F1_contract finder cfg st inp slab true -> (forall i, i < n_atoms inp -> In i slab) ->
    exists r, classify finder cfg st inp = Returned Material2D (Some r) /\ outliers (n_atoms inp) r = [].
Proof. exact contract_implies_no_outliers. Qed.
Print Assumptions C18_monolayer_no_outliers.

(* the contract is satisfiable: 3-atom slab + one oxygen adsorbate *)
Theorem C18_contract_satisfiable :
  F1_contract f1_finder ex_cfg initial_state ex_inp [0; 1; 2] false
  /\ classify f1_finder ex_cfg initial_state ex_inp = Returned Surface (Some ex_region)
  /\ outliers 4 ex_region = [3].
Proof. exact F1_contract_satisfiable. Qed.
Print Assumptions C18_contract_satisfiable.
