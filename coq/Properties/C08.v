(* C08 -- reported free Wyckoff parameters regenerate the atoms of their set.
   Only statements closed by [exact].  The solver model is Symmetry/ParamSolve.v (grid units: U per
   lattice period, any U > 0); [tables] is re-translated from matid/data/symmetry_data.py and
   [read_index_is_component] from the assignment statement inside
   SymmetryAnalyzer._get_wyckoff_sets on every run (Generated/SolverRule.v), so the reflection
   instance behind C08_first_rep_solvable is about the rule as written in the current source. *)
From Coq Require Import ZArith List String Bool.
Import ListNotations.
From MV Require Import Symmetry.Table Symmetry.Affine Symmetry.ParamSolve Symmetry.ParamSolveProofs
  Reflect.GroupChecks Reflect.GroupChecksProofs Reflect.SolveChecks.
From MVD Require Import Generated.SGAll Generated.ChkAll Generated.SolverRule Inst.C14Inst Inst.C08Inst.
Open Scope Z_scope.

(* 1. SOUNDNESS, for every table entry, every set of atoms, every pair of tolerance tests: a returned
      result comes from an atom R of the set whose parameter vector W (read off R by the code's rule,
      zero on the variables that are not free) reproduces R through the first representative within the
      self-test tolerance; all test positions at W, in particular e1(W), lie within the symmetry tolerance
      of atoms of the set; exactly the free variables are reported; every reported value is in [0,1) and
      equals W_i modulo the lattice, or is 0 when W_i lies within 1e-5 of a lattice point. *)
Theorem C08_solver_sound :
  forall U snap rule cs ct vars exprs trans atoms r,
    0 < U -> vars <> [] ->
    solve_set U snap rule cs ct vars exprs trans atoms = Some r ->
    exists e1 R W,
      hd_error exprs = Some e1 /\ In R atoms /\ W = solve_W rule vars e1 R
      /\ cs (eval e1 W) R = true
      /\ (forall t, In t (test_positions exprs trans W) -> exists a, In a atoms /\ ct t a = true)
      /\ (exists a, In a atoms /\ ct (eval e1 W) a = true)
      /\ (forall i, (i < 3)%nat -> has_var vars i = false -> vget W i = 0)
      /\ (forall i, (i < 3)%nat ->
            if has_var vars i
            then exists x, xyz_get r i = Some x /\ 0 <= x < U
                   /\ (x = vget W i mod U
                       \/ (x = 0 /\ (vget W i mod U < snap \/ U - vget W i mod U < snap)))
            else xyz_get r i = None).
Proof. exact solver_sound. Qed.
Print Assumptions C08_solver_sound.

(* a position without variables reports nothing and cannot fail *)
Theorem C08_no_variables_nothing_to_solve :
  forall U snap rule cs ct exprs trans atoms,
    solve_set U snap rule cs ct [] exprs trans atoms = Some (None, None, None).
Proof. exact solve_set_no_vars. Qed.
Print Assumptions C08_no_variables_nothing_to_solve.

(* 2. FIRST_REP_SOLVABLE (reflection over all 230 regenerated tables, 1731 entries, for the rule as
      written in the current source): the first representative exists and for every free variable the
      component the code READS carries that variable with coefficient 1 and no other variable ... *)
Theorem C08_first_rep_solvable :
  forall t ws w, In t tables -> conv_wycks t = Some ws -> In w ws ->
    wyck_solvable read_index_is_component w = true.
Proof. exact first_rep_solvable. Qed.
Print Assumptions C08_first_rep_solvable.

(* ... which means: from an atom congruent to e1(v) the code reads v back, modulo the lattice *)
Theorem C08_first_rep_reads_parameters_back :
  forall t ws w, In t tables -> conv_wycks t = Some ws -> In w ws ->
    exists e1, hd_error (iw_exprs w) = Some e1 /\
      forall (s : Z) (v R : v3),
        (forall i, (i < 3)%nat -> has_var (iw_vars w) i = false -> vget v i = 0) ->
        congV (24 * s) R (eval (aff_scale s e1) v) ->
        congV (24 * s) (solve_W read_index_is_component (iw_vars w) (aff_scale s e1) R) v.
Proof. exact first_rep_reads_parameters_back. Qed.
Print Assumptions C08_first_rep_reads_parameters_back.

(* 3. COMPLETENESS, for every table entry with variables, every grid 1/(24 s), every parameter vector v
      (zero on the variables that are not free) and every pair of tolerance tests that accept points
      congruent modulo the lattice: if the set contains the positions of the letter at v, the call
      succeeds; the result is the wrapped W of the first atom (in index order) that passes, and it is
      wrap(v) when the first atom of the set is congruent to e1(v). *)
Theorem C08_solver_complete :
  forall t tr ws w,
    In t tables -> conv_trans t = Some tr -> conv_wycks t = Some ws -> In w ws -> iw_vars w <> [] ->
    forall (s snap : Z) (cs ct : v3 -> v3 -> bool), 0 < s ->
      (forall p a, vmodU (24 * s) p = vmodU (24 * s) a -> cs p a = true) ->
      (forall p a, vmodU (24 * s) p = vmodU (24 * s) a -> ct p a = true) ->
    forall (v : v3) (atoms : list v3),
      (forall i, (i < 3)%nat -> has_var (iw_vars w) i = false -> vget v i = 0) ->
      (forall c e, In c (centrings tr) -> In e (iw_exprs w) ->
         exists a, In a atoms /\ congV (24 * s) a (vadd (eval (aff_scale s e) v) (vscale s c))) ->
      exists e1, hd_error (iw_exprs w) = Some e1
      /\ (exists r, solve_set (24 * s) snap read_index_is_component cs ct (iw_vars w) (entry_of s w) (trans_of s tr) atoms = Some r)
      /\ (forall R rest, atoms = R :: rest -> congV (24 * s) R (eval (aff_scale s e1) v) ->
            solve_set (24 * s) snap read_index_is_component cs ct (iw_vars w) (entry_of s w) (trans_of s tr) atoms
            = Some (report (iw_vars w) (wrapW (24 * s) snap v))).
Proof. exact solver_complete_on_tables. Qed.
Print Assumptions C08_solver_complete.

(* ... in orbit form (with C14.3): it is enough that the set contains the image of the first
   representative under every operation of the space group (at parameter v) *)
Theorem C08_solver_complete_on_orbits :
  forall t tr ws gp w,
    In t tables -> conv_trans t = Some tr -> conv_wycks t = Some ws -> general_position ws = Some gp ->
    In w ws -> iw_vars w <> [] ->
    forall (s snap : Z) (cs ct : v3 -> v3 -> bool), 0 < s ->
      (forall p a, vmodU (24 * s) p = vmodU (24 * s) a -> cs p a = true) ->
      (forall p a, vmodU (24 * s) p = vmodU (24 * s) a -> ct p a = true) ->
    forall (v : v3) (atoms : list v3),
      (forall i, (i < 3)%nat -> has_var (iw_vars w) i = false -> vget v i = 0) ->
    exists e1, hd_error (iw_exprs w) = Some e1 /\
      ((forall g, In g (group_ops tr gp) ->
          exists a, In a atoms /\ congV (24 * s) a (eval (aff_scale s (act g e1)) v)) ->
       exists r, solve_set (24 * s) snap read_index_is_component cs ct (iw_vars w) (entry_of s w) (trans_of s tr) atoms = Some r).
Proof. exact solver_complete_on_orbits. Qed.
Print Assumptions C08_solver_complete_on_orbits.

(* the hypothesis on the tolerance tests is satisfied by the code's own distance rule (any metric, any
   non-negative threshold) and by exact coincidence modulo the lattice *)
Theorem C08_distance_rule_accepts_congruent_points :
  forall U G tol2 p a, 0 < U -> 0 <= tol2 -> vmodU U p = vmodU U a ->
    close_metric U G tol2 p a = true /\ close_exact U p a = true.
Proof. exact (fun U G tol2 p a HU Ht H => conj (close_metric_congruent U G tol2 p a HU Ht H) (close_exact_congruent U p a H)). Qed.
Print Assumptions C08_distance_rule_accepts_congruent_points.

(* 4. the flag *)
Theorem C08_has_free_params_iff :
  forall varsets, has_free_params varsets = true <-> exists vs, In vs varsets /\ vs <> [].
Proof. exact has_free_params_iff. Qed.
Print Assumptions C08_has_free_params_iff.

(* 5. END TO END.  The full property in the model: on the orbit of e1(v) the call succeeds, reports a
      value in [0,1) for exactly the free variables, and the REPORTED values substituted into the first
      representative give a point that the symmetry-tolerance test accepts for some atom of the set. *)
Definition C08_full_statement : Prop :=
  forall t tr ws w,
    In t tables -> conv_trans t = Some tr -> conv_wycks t = Some ws -> In w ws -> iw_vars w <> [] ->
    forall (s snap : Z) (cs ct : v3 -> v3 -> bool), 0 < s -> 0 <= snap ->
      (forall p a, vmodU (24 * s) p = vmodU (24 * s) a -> cs p a = true) ->
      (forall p a, vmodU (24 * s) p = vmodU (24 * s) a -> ct p a = true) ->
    forall (v : v3) (atoms : list v3),
      (forall i, (i < 3)%nat -> has_var (iw_vars w) i = false -> vget v i = 0) ->
      (forall c e, In c (centrings tr) -> In e (iw_exprs w) ->
         exists a, In a atoms /\ congV (24 * s) a (vadd (eval (aff_scale s e) v) (vscale s c))) ->
      exists r e1,
        solve_set (24 * s) snap read_index_is_component cs ct (iw_vars w) (entry_of s w) (trans_of s tr) atoms = Some r
        /\ hd_error (entry_of s w) = Some e1
        /\ (forall i, (i < 3)%nat ->
              if has_var (iw_vars w) i then exists x, xyz_get r i = Some x /\ 0 <= x < 24 * s
              else xyz_get r i = None)
        /\ exists a, In a atoms /\
             ct (eval e1 (oval (xyz_get r 0), oval (xyz_get r 1), oval (xyz_get r 2))) a = true.

(* PROVED PART.  Missing from C08_full_statement: the last clause is proved for the parameter vector W
   BEFORE get_wrapped_positions (e1(W) is accepted for an atom); the reported value is W_i modulo the
   lattice or, when W_i lies within 1e-5 of a lattice point, 0 -- the snap moves the substituted point by
   up to 1e-5 lattice units, which an arbitrary tolerance test [ct] need not absorb (and for
   symmetry_tol below 1e-5 lattice periods the implementation's doesn't).  Also outside the theorem: the
   8-digit decimal constants the code uses instead of the exact k/24 (C14 bounds the difference by 1e-7)
   and float rounding -- both absorbed by the tolerances in the implementation, covered by the
   correspondence only. *)
Theorem C08_parameters_regenerate_partial :
  forall t tr ws w,
    In t tables -> conv_trans t = Some tr -> conv_wycks t = Some ws -> In w ws -> iw_vars w <> [] ->
    forall (s snap : Z) (cs ct : v3 -> v3 -> bool), 0 < s ->
      (forall p a, vmodU (24 * s) p = vmodU (24 * s) a -> cs p a = true) ->
      (forall p a, vmodU (24 * s) p = vmodU (24 * s) a -> ct p a = true) ->
    forall (v : v3) (atoms : list v3),
      (forall i, (i < 3)%nat -> has_var (iw_vars w) i = false -> vget v i = 0) ->
      (forall c e, In c (centrings tr) -> In e (iw_exprs w) ->
         exists a, In a atoms /\ congV (24 * s) a (vadd (eval (aff_scale s e) v) (vscale s c))) ->
      exists r e1 R W,
        solve_set (24 * s) snap read_index_is_component cs ct (iw_vars w) (entry_of s w) (trans_of s tr) atoms = Some r
        /\ hd_error (entry_of s w) = Some e1 /\ In R atoms
        /\ cs (eval e1 W) R = true
        /\ (exists a, In a atoms /\ ct (eval e1 W) a = true)
        /\ (forall i, (i < 3)%nat -> has_var (iw_vars w) i = false -> vget W i = 0)
        /\ (forall i, (i < 3)%nat ->
              if has_var (iw_vars w) i
              then exists x, xyz_get r i = Some x /\ 0 <= x < 24 * s
                     /\ (x = vget W i mod (24 * s)
                         \/ (x = 0 /\ (vget W i mod (24 * s) < snap \/ 24 * s - vget W i mod (24 * s) < snap)))
              else xyz_get r i = None).
Proof. exact parameters_regenerate. Qed.
Print Assumptions C08_parameters_regenerate_partial.

(* non-vacuity: a concrete set (the shape of group 98 letter e, first representative (-x, x, 0)) on which
   the hypotheses of the completeness theorem hold and the call returns x = 37/240; with the rule of the
   unpatched source (read component idx) the same call fails *)
Theorem C08_example_hypotheses_hold :
  solve_set 240 0 true (close_exact 240) (close_exact 240) ["x"%string] ex_exprs [] ex_atoms
  = Some (report ["x"%string] (wrapW 240 0 (37, 0, 0)))
  /\ solve_set 240 0 false (close_exact 240) (close_exact 240) ["x"%string] ex_exprs [] ex_atoms = None.
Proof. exact (conj ex_complete_hypotheses_hold ex_unpatched_rule_fails). Qed.
Print Assumptions C08_example_hypotheses_hold.
