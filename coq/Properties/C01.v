(* C01 -- SBC always returns a well-formed, disjoint, connected set of clusters.
   Only statements closed by [exact].  The model (coq/Sbc/{Driver,Merge,Localize,Clean,Pipeline}.v) is
   hand-written and tied to /repo on every run by the correspondence of harness/props/c01.py.
   Quantification: every number of atoms n, every atomic-number assignment, every finder satisfying
   the weak contract F0, every choice function returning a member of its argument, every
   set-to-list iteration order, every distance matrix / bonding relation, every threshold.

   What is NOT a theorem here (no formal counterpart in the model; observed on every run by
   harness/props/c01.py and reported as a violation with a replay when it fails):
     - the caller's Atoms object is untouched (deep comparison before/after);
     - equal (structure, parameters, seed) give equal output (runs repeated);
     - no exception other than the front end's ValueError escapes (unmodelled numpy/ASE/finder code);
     - that the matrix handed to the pipeline is the minimum-image table of C10 minus the radii of C19 (the
       composition itself IS a theorem: C01_out_connected_true_minimum_image below; connectivity is also recomputed
       independently from ASE's minimum-image distances on every returned cluster).
   Notes (outside the property's parameter domain, not violations):
     - max_cell_size <= 0 makes search_mask[seed] false: F0 fails and the driver loop never ends;
     - bond_threshold <= 0: np.clip(.., 0, 1.1*eps) bonds every pair (Sbc/Examples.v clip_nonpositive_threshold);
     - Cluster.get_cell() tests `if self._region:` -- a LinkedUnitCollection is a dict, so an *empty*
       region would yield None; the finder never returns one (checked per call by the predicate). *)
From Coq Require Import List Arith Bool ZArith QArith PeanoNat.
Import ListNotations.
Local Open Scope nat_scope.
From MV Require Base.Graph.
From MV Require Import Sbc.Common Sbc.CommonProofs Sbc.Driver Sbc.DriverProofs Sbc.Merge Sbc.MergeProofs
     Sbc.Localize Sbc.LocalizeProofs Sbc.Clean Sbc.CleanProofs Sbc.Pipeline Sbc.PipelineProofs Sbc.Examples.

(* ValueError <-> some cell vector is zero and that axis is periodic *)
Theorem C01_front_end_error_iff : forall z0 z1 z2 p0 p1 p2 : bool,
  front_end [z0; z1; z2] [p0; p1; p2] = FeValueError
  <-> (z0 = true /\ p0 = true) \/ (z1 = true /\ p1 = true) \/ (z2 = true /\ p2 = true).
Proof. exact front_end_error_iff. Qed.
Print Assumptions C01_front_end_error_iff.

(* the driver loop ends within n finder calls (fuel n is never exhausted): mask[seed] removes the seed *)
Theorem C01_drive_terminates :
  forall setlist, setlist_ok setlist -> forall n Znum finder choose, F0 n finder -> choose_ok choose ->
  exists cs k, run_driver setlist Znum finder choose n = Ok (cs, k) /\ Forall (wf n Znum finder) cs.
Proof. exact drive_terminates. Qed.
Print Assumptions C01_drive_terminates.

(* _merge_clusters terminates (fuel = number of clusters) without ZeroDivisionError and keeps clusters well formed *)
Theorem C01_merge_terminates :
  forall setlist, setlist_ok setlist -> forall n Znum finder merge_threshold cs,
  Forall (wf n Znum finder) cs ->
  exists out, merge_clusters setlist Znum merge_threshold cs = Ok out /\ Forall (wf n Znum finder) out.
Proof. exact merge_terminates. Qed.
Print Assumptions C01_merge_terminates.

(* _localize_clusters raises nothing, only removes atoms, and leaves every atom in at most one cluster *)
Theorem C01_localize_disjoint :
  forall setlist, setlist_ok setlist -> forall n near cs,
  exists cs', localize setlist n near cs = Ok cs' /\ Forall2 loop_rel cs cs' /\
              forall a, a < n -> disj_at a cs'.
Proof. exact localize_spec. Qed.
Print Assumptions C01_localize_disjoint.

(* the whole run returns normally (no fuel exhaustion, no exception of the modelled code) *)
Theorem C01_returns_normally :
  forall setlist, setlist_ok setlist -> forall n Znum finder choose merge_threshold near bond,
  F0 n finder -> choose_ok choose ->
  exists out, sbc setlist n Znum finder choose merge_threshold near bond = Ok out /\
              out_ok n Znum finder bond out.
Proof. exact sbc_spec. Qed.
Print Assumptions C01_returns_normally.

Section Output.
  Variable setlist : list nat -> list nat.
  Hypothesis Hsl : setlist_ok setlist.
  Variables (n : nat) (Znum : nat -> Z) (finder : nat -> nat -> option region * (nat -> bool))
            (choose : nat -> list nat -> nat) (merge_threshold : Q) (near bond : nat -> nat -> bool).
  Hypothesis HF0 : F0 n finder.
  Hypothesis Hchoose : choose_ok choose.
  Variable out : list cluster.
  Hypothesis Hout : sbc setlist n Znum finder choose merge_threshold near bond = Ok out.

  Theorem C01_out_in_range : forall c i, In c out -> In i (cidx c) -> i < n.
  Proof. exact (out_in_range setlist Hsl n Znum finder choose merge_threshold near bond HF0 Hchoose out Hout). Qed.

  Theorem C01_out_nodup : forall c, In c out -> NoDup (cidx c).
  Proof. exact (out_nodup setlist Hsl n Znum finder choose merge_threshold near bond HF0 Hchoose out Hout). Qed.

  Theorem C01_out_nonempty : forall c, In c out -> cidx c <> [].
  Proof. exact (out_nonempty setlist Hsl n Znum finder choose merge_threshold near bond HF0 Hchoose out Hout). Qed.

  Theorem C01_out_pairwise_disjoint :
    forall k1 k2 c1 c2 x, nth_error out k1 = Some c1 -> nth_error out k2 = Some c2 -> k1 <> k2 ->
                          In x (cidx c1) -> In x (cidx c2) -> False.
  Proof. exact (out_pairwise_disjoint_nth setlist Hsl n Znum finder choose merge_threshold near bond HF0 Hchoose out Hout). Qed.

  Theorem C01_out_species : forall c i, In c out -> In i (cidx c) -> In (Znum i) (cspec c).
  Proof. exact (out_species setlist Hsl n Znum finder choose merge_threshold near bond HF0 Hchoose out Hout). Qed.

  (* every atom of an output cluster is reached from a root atom by bonds inside the cluster ... *)
  Theorem C01_out_connected_rooted : forall c, In c out -> exists v, connected_from bond (cidx c) v.
  Proof. exact (out_connected_rooted setlist Hsl n Znum finder choose merge_threshold near bond HF0 Hchoose out Hout). Qed.

  (* ... and with a symmetric bonding relation any two atoms are joined inside the cluster *)
  Theorem C01_out_connected : forall c a b,
    (forall x y, bond x y = bond y x) -> In c out -> In a (cidx c) -> In b (cidx c) ->
    Graph.reach bond (cidx c) a b.
  Proof. exact (out_connected setlist Hsl n Znum finder choose merge_threshold near bond HF0 Hchoose out Hout). Qed.

  (* the region (prototype cell) of an output cluster is one the finder returned: 2 or 3 periodic axes *)
  Theorem C01_out_cell_periodicity : forall c, In c out ->
    from_finder n finder (creg c) /\ (count_true (rper (creg c)) = 2 \/ count_true (rper (creg c)) = 3).
  Proof. exact (out_cell_periodicity setlist Hsl n Znum finder choose merge_threshold near bond HF0 Hchoose out Hout). Qed.
End Output.
Print Assumptions C01_out_in_range.
Print Assumptions C01_out_nodup.
Print Assumptions C01_out_nonempty.
Print Assumptions C01_out_pairwise_disjoint.
Print Assumptions C01_out_species.
Print Assumptions C01_out_connected_rooted.
Print Assumptions C01_out_connected.
Print Assumptions C01_out_cell_periodicity.

(* connectivity in terms of the radii-corrected distance matrix: symmetric D, positive bond threshold *)
Theorem C01_out_connected_distance :
  forall setlist, setlist_ok setlist ->
  forall n Znum finder choose merge_threshold near (D : nat -> nat -> Q) (thr : Q) out c a b,
  F0 n finder -> choose_ok choose -> (0 < thr)%Q -> (forall x y, D x y = D y x) ->
  sbc setlist n Znum finder choose merge_threshold near (bond_of D thr) = Ok out ->
  In c out -> In a (cidx c) -> In b (cidx c) -> bonded_path D thr (cidx c) a b.
Proof. exact out_connected_Q. Qed.
Print Assumptions C01_out_connected_distance.

(* clean keeps a largest bonded component of the cluster it cleans *)
Theorem C01_clean_keeps_largest_component : forall bond c c',
  NoDup (cidx c) -> clean_one bond c = Some c' ->
  CleanProofs.same_meta c c' /\
  (exists v, In v (cidx c) /\ cidx c' = group_of bond (cidx c) v /\ connected_from bond (cidx c') v) /\
  (forall g, In g (dbscan_groups bond (cidx c)) -> length g <= length (cidx c')).
Proof. exact clean_one_spec. Qed.
Print Assumptions C01_clean_keeps_largest_component.

(* np.clip + `<= eps` is `D <= eps` for every positive eps *)
Theorem C01_bond_criterion : forall D thr i j, (0 < thr)%Q -> bond_of D thr i j = true <-> (D i j <= thr)%Q.
Proof. exact bond_of_pos. Qed.
Print Assumptions C01_bond_criterion.

(* non-vacuity: a concrete finder satisfying F0 with overlapping regions, and the model's run on it *)
Example C01_hypotheses_satisfiable :
  F0 ex_n ex_finder /\ choose_ok ex_choose /\ setlist_ok canon /\
  exists out, sbc canon ex_n ex_Z ex_finder ex_choose (3 # 4) ex_near ex_bond = Ok out /\ length out = 2.
Proof. exact ex_nonvacuous. Qed.
Print Assumptions C01_hypotheses_satisfiable.

From MV Require Import Base.ZV3 Geometry.Extend Sbc.BondFromTable Sbc.PipelineBond.
(* C01 o C10: run with the bonding relation read off the minimum-image table of the wrapped structure (grid integers;
   radii and threshold rationals in grid units), every output cluster is connected by pairs that satisfy the property's
   own criterion -- SOME periodic image of the partner lies within thr + r_i + r_j (minimum-image distance minus radii
   <= threshold) -- and, within the range where an unbounded-cutoff table is exact (C10), the table relation IS that
   criterion. *)
Theorem C01_out_connected_true_minimum_image :
  forall setlist, setlist_ok setlist ->
  forall (p : Q) (a b c : v3) (pbc : pbc3) (pos : list v3) (rad : nat -> Q) (thr : Q)
         (Znum : nat -> Z) finder choose (merge_threshold : Q) (near : nat -> nat -> bool) out cl u v,
    (0 < p)%Q -> vol a b c <> 0%Z -> (forall r, In r pos -> in_cell a b c pbc r) ->
    F0 (length pos) finder -> choose_ok choose ->
    sbc setlist (length pos) Znum finder choose merge_threshold near (bond p a b c pbc pos rad thr) = Ok out ->
    In cl out -> In u (cidx cl) -> In v (cidx cl) ->
    Graph.reach (bond p a b c pbc pos rad thr) (cidx cl) u v /\
    (forall x y, bond p a b c pbc pos rad thr x y = true ->
       (x < length pos)%nat /\ (y < length pos)%nat /\ true_bonded a b c pbc pos rad thr x y).
Proof. exact sbc_connected_true_minimum_image. Qed.
Print Assumptions C01_out_connected_true_minimum_image.

Theorem C01_table_relation_is_the_criterion :
  forall (p : Q) (a b c : v3) (pbc : pbc3) (pos : list v3) (rad : nat -> Q) (thr : Q),
    (0 < p)%Q -> vol a b c <> 0%Z -> (forall r, In r pos -> in_cell a b c pbc r) ->
    forall i j, (i < length pos)%nat -> (j < length pos)%nat -> in_exact_range a b c pbc rad thr i j ->
      (table_bond p a b c pbc pos rad thr i j = true <-> true_bonded a b c pbc pos rad thr i j).
Proof. exact table_bond_iff. Qed.
Print Assumptions C01_table_relation_is_the_criterion.

Example C01_table_relation_example :
  let a := mk3 8 0 0 in let b := mk3 3 6 0 in let c := mk3 0 0 10 in
  let pbc := mkP true true false in
  let pos := [mk3 1 1 1; mk3 9 5 2; mk3 7 1 8] in
  let rad := fun _ : nat => 1%Q in
  vol a b c <> 0%Z /\
  bond (1 # 10000) a b c pbc pos rad 2 1 0 = true /\
  bond (1 # 10000) a b c pbc pos rad 2 2 0 = false /\
  in_exact_range a b c pbc rad 2 1 0.
Proof. exact table_bond_example. Qed.
Print Assumptions C01_table_relation_example.
