(* C12 -- original, primitive and conventional descriptions are mutually consistent.
   Only statements closed by [exact].
   * centring algebra: by reflection over the 230 regenerated tables (Generated/SGnnn.v) x the five
     matrices regenerated from SymmetryAnalyzer._get_primitive_system (Generated/Centring.v) x the
     Hermann-Mauguin symbols of spglib's database (Generated/HMSymbols.v, reference data);
     checker Reflect/CentringChecks.v, meaning Reflect/CentringChecksProofs.v.
   * index maps original -> primitive -> conventional: model Symmetry/Primitive.v (executable, compared
     with the implementation on every run), theorems Symmetry/PrimitiveProofs.v for EVERY dataset;
     spglib's contract S3 appears only as the named hypotheses
     [orbits_share_letter], [m2p_fibres_share_letter], [std_fibres], [fibres_const], ... *)
From Coq Require Import ZArith QArith Qabs List String Bool.
Import ListNotations.
From MV Require Import Symmetry.Table Symmetry.Affine Reflect.GroupChecks Reflect.NormChecks
  Reflect.CentringChecks Reflect.CentringChecksProofs Symmetry.WyckoffSets Symmetry.WyckoffSetsProofs
  Symmetry.Primitive Symmetry.PrimitiveProofs.
From MVD Require Import Generated.SGAll Generated.ChkAll Generated.Centring Generated.HMSymbols Inst.C14Inst Inst.C12Inst.

(* For every space group k+1 (table and symbol at index k), with the centring letter of its
   Hermann-Mauguin symbol: the columns of the code's transformation matrix (the code forms
   transform.T @ conv_cell) generate exactly the lattice Z^3 + centring translations of the table;
   the multiplicity of the letter (1, 2, 3, 4 for P, A/C/I, R, F) is the number of centring vectors and
   24^3 / |det (24 transform)|; for EVERY conventional cell A over Q the primitive cell has
   |det| = |det A| / multiplicity; the letter agrees with the centring class proved in C14. *)
Theorem C12_centring_matrices_generate_the_centred_lattice :
  forall k t hm, nth_error tables k = Some t -> nth_error hm_short k = Some hm ->
  exists tr tq t24 tm mult,
    conv_trans t = Some tr
    /\ transform_of centring_mats (hm_centring hm) = Some tq
    /\ times24 tq = Some t24 /\ to_qm3 tq = Some tm
    /\ mult_of (hm_centring hm) = Some mult /\ (1 <= mult <= 4)%Z
    /\ (forall v, in_prim_lattice t24 v <-> in_conv_lattice tr v)
    /\ NoDup (centrings tr) /\ Z.of_nat (List.length (centrings tr)) = mult
    /\ (Z.abs (mdet t24) * mult = 13824)%Z
    /\ (forall a : qm3', Qabs (qdet (prim_cell tm a)) * inject_Z mult == Qabs (qdet a))%Q
    /\ centring_class tr = class_of (hm_centring hm).
Proof. exact centring_tables. Qed.
Print Assumptions C12_centring_matrices_generate_the_centred_lattice.

(* tables and symbols are both complete and aligned: 230 each, table k has number k+1 *)
Theorem C12_tables_and_symbols_aligned :
  map sg_num tables = map Z.of_nat (seq 1 230) /\ List.length hm_short = 230%nat
  /\ map (fun c => List.length (filter (fun hm => String.eqb (hm_centring hm) c) hm_short)) ["P"; "A"; "C"; "I"; "F"; "R"]%string
     = [149; 4; 16; 38; 16; 7]%nat.
Proof. exact (conj tables_numbered (conj hm_short_230 centring_census)). Qed.
Print Assumptions C12_tables_and_symbols_aligned.

(* the multiplicity used by the index-map model is the checked one *)
Theorem C12_multiplicity_of_letter :
  forall c m, centring_mult c = Some m -> mult_of c = Some (Z.of_nat m) /\ (1 <= m <= 4)%nat.
Proof. exact (fun c m H => conj (mult_agree c m H) (centring_mult_range c m H)). Qed.
Print Assumptions C12_multiplicity_of_letter.

(* prim_volume, for an arbitrary transformation matrix: det (transform.T @ A) = det transform * det A *)
Theorem C12_prim_volume :
  forall t a : qm3', (qdet (prim_cell t a) == qdet t * qdet a)%Q.
Proof. exact qdet_prim_cell. Qed.
Print Assumptions C12_prim_volume.

(* letters and equivalence arrays have one entry per atom in each of the three descriptions *)
Theorem C12_one_entry_per_atom :
  forall perm c ds d, describe perm c ds = Some d ->
    List.length (d_orig_letters d) = List.length (ds_wyckoffs ds)
    /\ List.length (d_orig_equiv d) = List.length (ds_wyckoffs ds)
    /\ List.length (d_conv_letters d) = List.length (ds_std_types ds)
    /\ List.length (d_conv_equiv d) = List.length (ds_std_types ds)
    /\ List.length (d_prim_letters d) = List.length (d_prim_numbers d)
    /\ List.length (d_prim_equiv d) = List.length (d_prim_numbers d).
Proof. exact one_entry_per_atom. Qed.
Print Assumptions C12_one_entry_per_atom.

(* primitive atom count = conventional atom count / multiplicity, when the fibres of
   std_mapping_to_primitive have the size of the multiplicity (S3) *)
Theorem C12_prim_count :
  forall perm c ds d m, describe perm c ds = Some d -> centring_mult c = Some m -> std_fibres ds m ->
    (List.length (d_prim_numbers d) * m = List.length (ds_std_types ds))%nat.
Proof. exact prim_count. Qed.
Print Assumptions C12_prim_count.

(* equivalent atoms share their letter, in each description (S3 on the dataset: original atoms of one
   crystallographic orbit carry one letter) *)
Theorem C12_equivalent_atoms_share_letter :
  forall perm c ds d, describe perm c ds = Some d -> orbits_share_letter ds ->
    (forall a b e, nth_error (d_orig_equiv d) a = Some e -> nth_error (d_orig_equiv d) b = Some e ->
       nth_error (d_orig_letters d) a = nth_error (d_orig_letters d) b)
    /\ (forall j j' e, nth_error (d_conv_equiv d) j = Some e -> nth_error (d_conv_equiv d) j' = Some e ->
       nth_error (d_conv_letters d) j = nth_error (d_conv_letters d) j')
    /\ (forall k k' e, nth_error (d_prim_equiv d) k = Some e -> nth_error (d_prim_equiv d) k' = Some e ->
       nth_error (d_prim_letters d) k = nth_error (d_prim_letters d) k').
Proof.
  exact (fun p c ds d H HS => conj (orig_equivalent_share_letter p c ds d H HS)
           (conj (conv_equivalent_share_letter p c ds d H HS) (prim_equivalent_share_letter p c ds d H HS))).
Qed.
Print Assumptions C12_equivalent_atoms_share_letter.

(* the letters of the original atoms are spglib's letters mapped through the chosen permutation, the
   classes are spglib's; and they are the letters of the conventional atoms over the same primitive atom *)
Theorem C12_original_letters_permuted :
  forall perm c ds d, describe perm c ds = Some d ->
    Forall2 (fun w l => perm_lookup perm w = Some l) (ds_wyckoffs ds) (d_orig_letters d)
    /\ d_orig_equiv d = ds_orbits ds.
Proof. exact original_letters_permuted. Qed.
Print Assumptions C12_original_letters_permuted.

Theorem C12_original_and_conventional_letters_agree :
  forall perm c ds d, describe perm c ds = Some d -> m2p_fibres_share_letter ds ->
    forall a j v u, (a < List.length (ds_wyckoffs ds))%nat ->
      nth_error (ds_std_m2p ds) j = Some v -> nth_error (ds_m2p ds) a = Some u ->
      nth_error (distinct_sorted (ds_m2p ds)) v = Some u ->
      (j < List.length (ds_std_types ds))%nat ->
      nth_error (d_orig_letters d) a = nth_error (d_conv_letters d) j.
Proof. exact original_and_conventional_letters_agree. Qed.
Print Assumptions C12_original_and_conventional_letters_agree.

(* (letter, element) counts: conventional = multiplicity x primitive, and original x n_conv =
   conventional x n_orig (exact ratio of the atom counts), from the fibre sizes (S3) *)
Theorem C12_count_ratio_conventional_primitive :
  forall perm c ds d m, describe perm c ds = Some d -> centring_mult c = Some m -> std_fibres ds m ->
    std_types_const_on_fibres ds ->
    forall key, (count_key key (d_conv_letters d) (ds_std_types ds)
                 = m * count_key key (d_prim_letters d) (d_prim_numbers d))%nat.
Proof. exact count_ratio_conv_prim. Qed.
Print Assumptions C12_count_ratio_conventional_primitive.

Theorem C12_count_ratio_original_conventional :
  forall perm c ds d numbers m q, describe perm c ds = Some d -> centring_mult c = Some m ->
    std_fibres ds m -> m2p_fibres ds q -> original_contract ds numbers ->
    forall key, (count_key key (d_orig_letters d) numbers * m
                 = q * count_key key (d_conv_letters d) (ds_std_types ds))%nat
      /\ (List.length (ds_wyckoffs ds) * m = q * List.length (ds_std_types ds))%nat.
Proof. exact count_ratio_orig_conv. Qed.
Print Assumptions C12_count_ratio_original_conventional.

(* non-vacuity: a C-centred crystal given as a two-fold supercell, with a <-> b permuted *)
Theorem C12_hypotheses_satisfiable :
  describe ex_perm "C" ex_ds = Some ex_descr
  /\ (orbits_share_letter ex_ds /\ m2p_fibres_share_letter ex_ds /\ std_fibres ex_ds 2 /\ centring_mult "C" = Some 2%nat)
  /\ (std_types_const_on_fibres ex_ds /\ m2p_fibres ex_ds 2 /\ original_contract ex_ds [8; 8; 29; 29]%Z).
Proof. exact (conj ex_describe (conj ex_contract ex_contract2)). Qed.
Print Assumptions C12_hypotheses_satisfiable.
