(* C06 -- symmetry results are a normal form: independent of how the crystal is presented.
   Proved: the part MatID itself is responsible for -- the normalizer search picks a representation whose
   (letter, element, multiplicity) multiset does not depend on which origin-equivalent letter assignment
   (any element of the group's letter-permutation group) and which atom order spglib returned, and never
   fails.  What two presentations of one crystal give to the search (same number; letter lists related
   by such a permutation) is the oracle contract, validated pairwise by the check. *)
From Coq Require Import ZArith List String Bool Permutation.
Import ListNotations.
From MV Require Import Symmetry.Table Symmetry.GroundState Symmetry.GroundStateProofs Symmetry.GroundStateInvariance
  Reflect.GroundChecks.
From MVD Require Import Generated.SGAll Inst.C05Inst.

Theorem C06_ground_state_invariant :
  forall t, In t tables -> table_perms t <> [] ->
  forall letters numbers letters' numbers' pi c c',
    In pi (ident_perm (table_letters t) :: table_perms t) -> incl letters (table_letters t) ->
    List.length letters = List.length numbers -> List.length letters' = List.length numbers' ->
    Permutation (combine letters' numbers') (map (fun lz => (hat pi (fst lz), snd lz)) (combine letters numbers)) ->
    ground_state letters numbers (table_perms t) = Chosen c ->
    ground_state letters' numbers' (table_perms t) = Chosen c' ->
    forall w z, count (c_perm c') (combine letters' numbers') w z = count (c_perm c) (combine letters numbers) w z.
Proof. exact ground_state_invariant_all. Qed.
Print Assumptions C06_ground_state_invariant.

(* the loop with its early exit is the plain lexicographic selection (order of the survivors = table order) *)
Theorem C06_loop_is_lexicographic_selection :
  forall atoms zs ws reps, loop_w atoms ws zs reps false = sel atoms (keys ws zs) reps.
Proof. exact (fun atoms zs ws reps => loop_w_spec atoms zs ws reps false (fun H => False_ind _ (Bool.diff_false_true H))). Qed.
Print Assumptions C06_loop_is_lexicographic_selection.
