(* C07 -- Wyckoff sets are exactly the symmetry orbits of the conventional cell.
   Only statements closed by [exact].  Model of _get_wyckoff_sets: Symmetry/WyckoffSets.v (executable,
   compared with the implementation on every run); proofs: Symmetry/WyckoffSetsProofs.v,
   Symmetry/WyckoffOrbit.v; the tables are regenerated from matid/data/symmetry_data.py (C14 instances).

   The set theorems hold for EVERY equivalence array / letter array / number array (any answer of
   spglib); spglib's contract S3 enters only where it is written as a hypothesis ([S3_arrays],
   [S3_uniform], [is_orbit_partition]). *)
From Coq Require Import ZArith List String Bool Permutation Sorted.
Import ListNotations.
From MV Require Import Symmetry.Table Symmetry.Affine Reflect.GroupChecks Reflect.NormChecks
  Symmetry.WyckoffSets Symmetry.WyckoffSetsProofs Symmetry.WyckoffOrbit Symmetry.Primitive Symmetry.PrimitiveProofs.
From MVD Require Import Generated.SGAll Generated.ChkAll Inst.C14Inst Inst.C07Inst.

(* the index lists of the returned sets partition the atoms {0..n-1}; no set is empty *)
Theorem C07_sets_partition :
  forall valid eq letters numbers sets, wyckoff_sets valid eq letters numbers = Some sets ->
    Permutation (List.concat (map ws_indices sets)) (seq 0 (List.length eq))
    /\ Forall (fun s => ws_indices s <> []) sets.
Proof. exact sets_partition. Qed.
Print Assumptions C07_sets_partition.

(* the same, atom by atom: no atom occurs twice, and i is an atom iff it lies in some set *)
Theorem C07_every_atom_in_exactly_one_set :
  forall valid eq letters numbers sets, wyckoff_sets valid eq letters numbers = Some sets ->
    NoDup (List.concat (map ws_indices sets))
    /\ forall i, (i < List.length eq)%nat <-> exists s, In s sets /\ In i (ws_indices s).
Proof. exact sets_cover_disjoint. Qed.
Print Assumptions C07_every_atom_in_exactly_one_set.

(* multiplicity = number of atoms of the set *)
Theorem C07_multiplicity_eq_size :
  forall valid eq letters numbers sets, wyckoff_sets valid eq letters numbers = Some sets ->
    forall s, In s sets -> ws_mult s = List.length (ws_indices s).
Proof. exact multiplicity_eq_size. Qed.
Print Assumptions C07_multiplicity_eq_size.

(* every set is one whole class of the equivalence array (= one crystallographic orbit under S3) *)
Theorem C07_set_is_equivalence_class :
  forall valid eq letters numbers sets, wyckoff_sets valid eq letters numbers = Some sets ->
    forall s, In s sets -> exists v, In v eq /\ forall i, In i (ws_indices s) <-> (i < List.length eq)%nat /\ nth i eq 0%nat = v.
Proof. exact set_is_class. Qed.
Print Assumptions C07_set_is_equivalence_class.

(* under S3 (equivalent atoms share letter and element) every atom of a set carries the set's letter
   and element *)
Theorem C07_set_uniform :
  forall valid eq letters numbers sets, wyckoff_sets valid eq letters numbers = Some sets ->
    S3_arrays eq letters numbers ->
    forall s i, In s sets -> In i (ws_indices s) ->
      nth_error letters i = Some (ws_letter s) /\ nth_error numbers i = Some (ws_number s).
Proof. exact set_uniform. Qed.
Print Assumptions C07_set_uniform.

(* the same for the sets as the analyzer builds them, from the dataset through the index maps
   original -> primitive -> conventional and the chosen letter permutation: S3 on the DATASET (atoms of
   one crystallographic orbit share the letter; conventional atoms of one class share the species)
   implies that every atom of a returned set carries the set's letter and element *)
Theorem C07_set_uniform_from_dataset :
  forall valid perm c ds d sets,
    describe perm c ds = Some d -> orbits_share_letter ds -> conv_classes_share_species d ds ->
    wyckoff_sets valid (d_conv_equiv d) (d_conv_letters d) (ds_std_types ds) = Some sets ->
    forall s i, In s sets -> In i (ws_indices s) ->
      nth_error (d_conv_letters d) i = Some (ws_letter s) /\ nth_error (ds_std_types ds) i = Some (ws_number s).
Proof. exact sets_uniform_from_dataset. Qed.
Print Assumptions C07_set_uniform_from_dataset.

(* the returned list is sorted by (letter, atomic number); letters compare by code point as in Python *)
Theorem C07_sorted_by_letter_then_Z :
  forall valid eq letters numbers sets, wyckoff_sets valid eq letters numbers = Some sets ->
    StronglySorted set_le sets
    /\ (forall s t, set_le s t -> lex_leb (codes (ws_letter s)) (codes (ws_letter t)) = true
                                  /\ (ws_letter s = ws_letter t -> (ws_number s <= ws_number t)%Z)).
Proof. exact (fun v e l n s H => conj (sorted_by_letter_then_Z v e l n s H) set_le_spec). Qed.
Print Assumptions C07_sorted_by_letter_then_Z.

(* every letter of a returned set is a letter of the group's table *)
Theorem C07_set_letters_known :
  forall valid eq letters numbers sets, wyckoff_sets valid eq letters numbers = Some sets ->
    forall s, In s sets -> letter_known valid (ws_letter s) = true.
Proof. exact set_letters_known. Qed.
Print Assumptions C07_set_letters_known.

(* (letter, element, multiplicity) of the sets do not depend on the order in which the atoms are listed *)
Theorem C07_sets_perm_invariant_as_multiset :
  forall valid eq letters numbers eq' letters' numbers' sets sets',
    wyckoff_sets valid eq letters numbers = Some sets ->
    wyckoff_sets valid eq' letters' numbers' = Some sets' ->
    Permutation (atoms_of eq letters numbers) (atoms_of eq' letters' numbers') ->
    S3_uniform (atoms_of eq letters numbers) ->
    map summary sets = map summary sets'.
Proof. exact sets_perm_invariant_as_multiset. Qed.
Print Assumptions C07_sets_perm_invariant_as_multiset.

(* applying the letter permutation of the chosen normalizer relabels the sets: same atoms, same
   element, letter perm(l) *)
Theorem C07_sets_letters_permuted :
  forall valid valid' (f : string -> option string) eq letters letters' numbers sets sets',
    Forall2 (fun l l' => f l = Some l') letters letters' ->
    wyckoff_sets valid eq letters numbers = Some sets ->
    wyckoff_sets valid' eq letters' numbers = Some sets' ->
    forall s', In s' sets' -> exists s, In s sets /\ ws_indices s' = ws_indices s /\ ws_number s' = ws_number s
                                     /\ ws_mult s' = ws_mult s /\ f (ws_letter s) = Some (ws_letter s').
Proof. exact sets_letters_permuted. Qed.
Print Assumptions C07_sets_letters_permuted.

(* orbit closure: for every group, every tabulated normalizer n, every rational point set (scale D)
   whose classes are exactly the orbits of the table's group G -- spglib's contract on the
   standardized cell -- the same classes are exactly the orbits of G after applying n
   (g' . (n . x) = n . (g . x) with g' = n g n^-1 in G, and conjugation is onto G); n permutes the
   Wyckoff letters as tabulated (C14.5). *)
Theorem C07_orbit_closure :
  forall D t tr ws gp k rn cs, (0 < D)%Z -> In t tables ->
    conv_trans t = Some tr -> conv_wycks t = Some ws -> general_position ws = Some gp ->
    nth_error (sg_norms t) k = Some rn -> nth_error (certs_of (sg_num t)) k = Some cs ->
    exists n, norm_to_op rn = Some n
      /\ (forall pts cls, is_orbit_partition D (group_ops tr gp) pts cls ->
                          is_orbit_partition D (group_ops tr gp) (map (papply D n) pts) cls)
      /\ perm_wellformed (map iw_letter ws) (n_perm rn) = true
      /\ letters_ok tr ws n (n_perm rn) cs = true.
Proof. exact orbit_closure_tables. Qed.
Print Assumptions C07_orbit_closure.

(* the mechanism, for any finite group given as a duplicate-free list of normalised operations *)
Theorem C07_orbit_closure_general :
  forall D (G : list op) (n : op) pts cls, (0 < D)%Z -> unimod (fst n) -> NoDup G ->
    (forall g, In g G -> op_norm g = g) -> (forall g, In g G -> In (conj_op n g) G) ->
    is_orbit_partition D G pts cls -> is_orbit_partition D G (map (papply D n) pts) cls.
Proof.
  exact (fun D G n pts cls HD Hu Hnd Hno Hn => orbit_closure D HD G n pts cls Hu Hn (conj_onto G n Hu Hnd Hno Hn)).
Qed.
Print Assumptions C07_orbit_closure_general.

(* non-vacuity: concrete states satisfying the hypotheses *)
Theorem C07_hypotheses_satisfiable :
  (wyckoff_sets ["a"; "e"; "A"]%string [0; 1; 0; 1]%nat ["e"; "A"; "e"; "A"]%string [8; 29; 8; 29]%Z
     = Some [mkWS "A" 29 [1; 3]%nat 2; mkWS "e" 8 [0; 2]%nat 2]
   /\ S3_arrays [0; 1; 0; 1]%nat ["e"; "A"; "e"; "A"]%string [8; 29; 8; 29]%Z)
  /\ is_orbit_partition 1 ex_G ex_pts ex_cls
  /\ (unimod (fst ex_n) /\ (forall g, In g ex_G -> In (conj_op ex_n g) ex_G)
      /\ is_orbit_partition 1 ex_G (map (papply 1 ex_n) ex_pts) ex_cls).
Proof. exact (conj ex_sets (conj ex_orbits_hold ex_normalizer_hypotheses)). Qed.
Print Assumptions C07_hypotheses_satisfiable.
