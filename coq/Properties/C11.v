(* C11 -- 2D materials get a vacuum-, orientation- and labelling-independent normal form.   (PARTIAL)

   Only statements closed by [exact].  Model: coq/Symmetry/Conv2D.v (executable, over Q, built on the C20 frame
   model Geometry/Frame.v), tied to /repo on every run by the correspondence check of harness/props/c11.py.
   Norms enter as an argument L with the hypothesis L * L == c . c (no square roots).

   Proved for all inputs of the model: the vacuum rule; that the cell handed to spglib does not depend on the amount
   of vacuum in the input; the axis detection; every normal-form clause of the post-processing (periodic in (a, b)
   only, non-periodic vector last, atoms inside, thickness = max(extent, min_2d_thickness), in-plane vectors and species
   untouched, same structure); the "2D " prefix makes the id string differ from every bulk id string.

   NOT proved (Symmetry/Conv2DProofs.C11_full_statement stays a Definition): that material id, space group,
   (letter, element, multiplicity) multiset and in-plane lattice parameters are the same for two presentations of one
   layer (vacuum, axis relabelling, in-plane supercells, rigid motions incl. flips, translations, atom order).  These
   depend on what spglib returns for the padded cell (number, standardised cell, origin).  The part MatID adds on top
   of spglib -- the normalizer search -- is covered by C06_ground_state_invariant (Properties/C06.v): the multiset does
   not depend on which origin-equivalent letter assignment and atom order spglib delivered.  The invariance clauses are
   validated by the contract-conformance family run of harness/props/c11.py. *)
From Coq Require Import ZArith QArith Qabs List Bool Ascii.
Import ListNotations.
From MV Require Import Geometry.Frame Geometry.FrameProofs Symmetry.Conv2D Symmetry.Conv2DProofs.
Open Scope Q_scope.

(* ---- the symmetry-breaking vacuum ---- *)
(* thickness' = max(5, 3 t): at least 5, at least 3 t, monotone in t; at least 2 t (and 5 - t) of it is vacuum *)
Theorem C11_vacuum_rule_partial :
  forall t, 5 <= vac_thickness t /\ 3 * t <= vac_thickness t /\
            (forall t', t <= t' -> vac_thickness t <= vac_thickness t') /\
            (0 <= t -> 2 * t <= vac_thickness t - t /\ 5 - t <= vac_thickness t - t).
Proof.
  exact (fun t => conj (vac_thickness_ge_5 t) (conj (vac_thickness_ge_3t t)
           (conj (fun t' => vac_thickness_monotone t t') (vacuum_left t)))).
Qed.
Print Assumptions C11_vacuum_rule_partial.

(* the analyzed cell: the two periodic vectors are untouched, the non-periodic one keeps its direction and gets
   length max(5, 3 t) (squared length stated), t = get_thickness of the input *)
Theorem C11_analyzed_cell_partial :
  forall m pbc ps i L, 0 < L -> L * L == dot (row i m) (row i m) ->
    let t := get_thickness m pbc ps i L in
    let m' := analyzed_cell m pbc ps i L in
    (forall a, a <> i -> row a m' = row a m) /\
    veq (row i m') (vscale (vac_thickness t / L) (row i m)) /\ 0 < vac_thickness t / L /\
    dot (row i m') (row i m') == vac_thickness t * vac_thickness t /\
    5 * 5 <= dot (row i m') (row i m').
Proof. exact analyzed_cell_spec. Qed.
Print Assumptions C11_analyzed_cell_partial.

(* independence of the amount of vacuum, as far as MatID itself is concerned: stretching the non-periodic cell vector by
   any k > 0 (atoms keep their cartesian positions) gives the same cell to spglib *)
Theorem C11_analyzed_cell_vacuum_independent_partial :
  forall m pbc ps i L k, ~ det m == 0 -> 0 < L -> 0 < k -> getb i pbc = false ->
    meq (analyzed_cell (set_row i m (vscale k (row i m))) pbc ps i (k * L)) (analyzed_cell m pbc ps i L).
Proof. exact analyzed_cell_vacuum_independent. Qed.
Print Assumptions C11_analyzed_cell_vacuum_independent_partial.

(* ---- the non-periodic axis of the standardised cell ---- *)
(* the first row of the transformation matrix that has an entry > prec at the non-periodic input index and entries
   < prec elsewhere; MatIDError exactly when no row qualifies *)
Theorem C11_detect_partial :
  forall prec T i,
    match detect prec T i with
    | Some a => axis_hit_P prec (row a T) i /\ forall b, before b a -> ~ axis_hit_P prec (row b T) i
    | None => forall b, ~ axis_hit_P prec (row b T) i
    end.
Proof. exact detect_spec. Qed.
Print Assumptions C11_detect_partial.

(* for a signed permutation matrix the row carrying the non-periodic input axis is found *)
Theorem C11_detect_signed_permutation_partial :
  forall prec T i a, 0 < prec -> prec < 1 ->
    (getc i (row a T) == 1 \/ getc i (row a T) == -(1)) -> getc (nxt i) (row a T) == 0 -> getc (nxt (nxt i)) (row a T) == 0 ->
    (forall b, b <> a -> getc i (row b T) == 0) ->
    detect prec T i = Some a.
Proof. exact detect_signed_permutation. Qed.
Print Assumptions C11_detect_signed_permutation_partial.

(* control flow of the 2D branch: which of ValueError / MatIDError / result occurs, and that the result is the
   pipeline applied with the detected axis *)
Theorem C11_conventional_2d_cases_partial :
  forall prec eps in_pbc T m nums ps t ms L,
    match conventional_2d prec eps in_pbc T m nums ps t ms L with
    | Conv r => n_pbc in_pbc = 2%nat /\ exists i np, first_false in_pbc = Some i /\ detect prec T i = Some np /\
                r = pipeline eps m nums ps np t ms L
    | MatIDError_ => n_pbc in_pbc = 2%nat /\ exists i, first_false in_pbc = Some i /\ forall b, ~ axis_hit_P prec (row b T) i
    | Not2D => n_pbc in_pbc = 3%nat
    | ValueError_ => n_pbc in_pbc <> 2%nat /\ n_pbc in_pbc <> 3%nat
    end.
Proof. exact conventional_2d_cases. Qed.
Print Assumptions C11_conventional_2d_cases_partial.

(* ---- the normal form: for every ideal system (cell m, atoms ps, species nums), every detected axis np, every
   centring vector t and every min_2d_thickness ms > 0 ---- *)
Theorem C11_normal_form_partial :
  forall eps m nums ps np t ms L,
    ~ det m == 0 -> ps <> [] -> 0 < ms -> 0 < L -> L * L == dot (row np m) (row np m) ->
    let r := pipeline eps m nums ps np t ms L in
    (* periodic in (a, b) only, non-periodic vector last; species unchanged (as a list, hence as a multiset) *)
    mc_pbc r = mkB true true false /\ mc_numbers r = nums /\ length (mc_pos r) = length ps /\
    (* the in-plane cell vectors are those of the ideal cell: untouched by translation, wrap, swap and minimisation *)
    row A0 (mc_cell r) = row (ip0 np) m /\ row A1 (mc_cell r) = row (ip1 np) m /\
    (* the last vector is the non-periodic vector of the ideal cell times a positive factor *)
    (exists k, 0 < k /\ veq (row A2 (mc_cell r)) (vscale k (row np m))) /\
    ~ det (mc_cell r) == 0 /\
    (* thickness along c = max(atomic extent, min_2d_thickness)   (squared) *)
    dot (row A2 (mc_cell r)) (row A2 (mc_cell r)) == qmax (extent eps m ps np t L * extent eps m ps np t L) (ms * ms) /\
    (mc_padded r = true <-> extent eps m ps np t L < ms) /\
    (* all atoms inside the cell: [-eps, 1-eps) in the periodic directions (ASE's wrap), [0, 1] along c *)
    mc_pos r = map (to_cartesian (mc_cell r)) (mc_scaled r) /\
    Forall (fun s => in_cell_eps eps (vx s) /\ in_cell_eps eps (vy s) /\ 0 <= vz s /\ vz s <= 1) (mc_scaled r) /\
    (mc_padded r = false -> Exists (fun s => vz s == 0) (mc_scaled r) /\ Exists (fun s => vz s == 1) (mc_scaled r)) /\
    (mc_padded r = true -> exists lo hi, lo + hi == 1 /\ Forall (fun s => lo <= vz s /\ vz s <= hi) (mc_scaled r) /\
                                         Exists (fun s => vz s == lo) (mc_scaled r) /\ Exists (fun s => vz s == hi) (mc_scaled r)) /\
    (* the same structure: ideal atom + masked translation - lattice vector of the ideal cell - common shift along c *)
    (exists w, Forall2 (fun p p' => exists k0 k1 k2 : Z,
                   veq p' (vsub (vsub (vadd p (mask_translation np t)) (to_cartesian m (mkV (inject_Z k0) (inject_Z k1) (inject_Z k2))))
                                (vscale w (row np m)))) ps (mc_pos r)).
Proof. exact pipeline_spec. Qed.
Print Assumptions C11_normal_form_partial.

(* the centring translation has zero entries at the two periodic indices ... *)
Theorem C11_translation_masked_partial :
  forall np t, getc np (mask_translation np t) = getc np t /\ forall a, a <> np -> getc a (mask_translation np t) = 0.
Proof. exact mask_translation_spec. Qed.
Print Assumptions C11_translation_masked_partial.

(* ... so when the non-periodic vector of the ideal cell lies along the cartesian axis of the same index (spglib's
   standard orientation + perpendicular non-periodic vector) only the non-periodic scaled coordinate of the atoms moves *)
Theorem C11_centring_moves_only_along_normal_partial :
  forall m np t lam p, ~ det m == 0 -> ~ lam == 0 -> veq (row np m) (setc np vzero lam) ->
    veq (to_scaled m (vadd p (mask_translation np t))) (vadd (to_scaled m p) (setc np vzero (getc np t / lam))).
Proof. exact centring_moves_only_along_normal. Qed.
Print Assumptions C11_centring_moves_only_along_normal_partial.

(* ---- the id ---- *)
(* the hashed string of a 2D system differs from the hashed string of every bulk system, whatever space-group numbers
   and Wyckoff strings the two analyses find *)
Theorem C11_id_string_2d_ne_3d_partial :
  forall (n n' : positive) wy wy', id_string true (decimal n) wy <> id_string false (decimal n') wy'.
Proof. exact material_id_string_2d_ne_3d. Qed.
Print Assumptions C11_id_string_2d_ne_3d_partial.

(* ---- non-vacuity of the hypotheses and concrete instances (both branches, axis swap, masked translation) ---- *)
Example C11_pipeline_hypotheses_satisfiable :
  ~ det ex2_cell == 0 /\ ex2_atoms <> [] /\ 5 * 5 == dot (row A1 ex2_cell) (row A1 ex2_cell).
Proof. exact pipeline_hyps. Qed.
Print Assumptions C11_pipeline_hypotheses_satisfiable.

Example C11_pipeline_not_padded_example :
  let r := pipeline ex2_eps ex2_cell [6; 6; 8]%Z ex2_atoms A1 ex2_t (1 # 2) 5 in
  mc_padded r = false /\ mc_pbc r = mkB true true false /\
  meq (mc_cell r) (mkM (mkV 3 0 0) (mkV 1 0 4) (mkV 0 1 0)) /\
  map vred (mc_scaled r) = [mkV 0 0 0; mkV (1 # 6) (1 # 2) 1; mkV (13 # 24) (7 # 8) (1 # 2)].
Proof. exact pipeline_not_padded. Qed.
Print Assumptions C11_pipeline_not_padded_example.

Example C11_pipeline_padded_example :
  let r := pipeline ex2_eps ex2_cell [6; 6; 8]%Z ex2_atoms A1 ex2_t 3 5 in
  mc_padded r = true /\ meq (mc_cell r) (mkM (mkV 3 0 0) (mkV 1 0 4) (mkV 0 3 0)) /\
  map vz (map vred (mc_scaled r)) = [1 # 3; 2 # 3; 1 # 2].
Proof. exact pipeline_padded. Qed.
Print Assumptions C11_pipeline_padded_example.
