(* Reflection clause needed by the ground-state theorems (C05/C06): the Wyckoff letters of a group are
   distinguishable by the code point of their first character (the key Python's sorted() uses). *)
From Coq Require Import ZArith List String Bool Arith.
Import ListNotations.
From MV Require Import Symmetry.Table Symmetry.Affine Symmetry.GroundState Reflect.GroupChecks Reflect.NormChecks.

Definition chk_letter_codes (t : sgtable) : bool :=
  nodup_by Nat.eqb (map letter_code (map w_letter (sg_wyck t))).

(* the letter permutations of a table, as the model of _find_wyckoff_ground_state consumes them *)
Definition table_perms (t : sgtable) : list perm := map n_perm (sg_norms t).
Definition table_letters (t : sgtable) : list string := map w_letter (sg_wyck t).
