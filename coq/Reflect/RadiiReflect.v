(* Reflection for C19: boolean checkers over the regenerated tables and their soundness. *)
From Coq Require Import QArith List Bool Lia.
Import ListNotations.
From MV Require Import Geometry.Radii.

Definition vdw_covalent_spec (vdw cov : list fl) (z : nat) : fl :=
  match get vdw z with Some r => Some r | None => get cov z end.

Section Check.
  Variable pt : preset -> list fl.
  Variables cov vdw : list fl.

  Definition check_z (z : nat) : bool :=
    fl_eqb (get (pt Covalent) z) (get cov z)
    && fl_eqb (get (pt Vdw) z) (get vdw z)
    && fl_eqb (get (pt VdwCovalent) z) (vdw_covalent_spec vdw cov z)
    && positive_finite (get (pt VdwCovalent) z).

  Definition presets_check : bool := forallb check_z (seq 1 103).

  Lemma presets_resolve : presets_check = true ->
    forall z, (1 <= z < 1 + 103)%nat ->
      fl_eqb (get (pt Covalent) z) (get cov z) = true /\
      fl_eqb (get (pt Vdw) z) (get vdw z) = true /\
      fl_eqb (get (pt VdwCovalent) z) (vdw_covalent_spec vdw cov z) = true.
  Proof.
    intros H z Hz. pose proof (forallb_range check_z 1 103 H z Hz) as Hc.
    unfold check_z in Hc. rewrite !andb_true_iff in Hc. tauto.
  Qed.

  Lemma vdw_covalent_positive : presets_check = true ->
    forall z, (1 <= z < 1 + 103)%nat -> positive_finite (get (pt VdwCovalent) z) = true.
  Proof.
    intros H z Hz. pose proof (forallb_range check_z 1 103 H z Hz) as Hc.
    unfold check_z in Hc. rewrite !andb_true_iff in Hc. tauto.
  Qed.

  Definition cov_check_z (z : nat) : bool :=
    fl_eqb (get (pt Covalent) z) (get cov z) && positive_finite (get (pt Covalent) z).
  Definition covalent_check : bool := forallb cov_check_z (seq 0 119).
  Lemma covalent_full : covalent_check = true ->
    forall z, (0 <= z < 0 + 119)%nat ->
      fl_eqb (get (pt Covalent) z) (get cov z) = true /\ positive_finite (get (pt Covalent) z) = true.
  Proof.
    intros H z Hz. pose proof (forallb_range cov_check_z 0 119 H z Hz) as Hc.
    unfold cov_check_z in Hc. rewrite !andb_true_iff in Hc. tauto.
  Qed.

  (* coordinates at which the check fails: used by the harness to build the replay *)
  Definition offenders : list nat := filter (fun z => negb (check_z z)) (seq 1 103).
End Check.

