(* Boolean checkers for the tabulated normalizers (C14 item 5) and the space-group info (item 4). *)
From Coq Require Import ZArith QArith List String Bool.
Import ListNotations.
From MV Require Import Symmetry.Table Symmetry.Affine Reflect.GroupChecks.
Open Scope Z_scope.

(* ---------- normalizer 4x4 -> operation ------------------------------------------------ *)
Definition norm_to_op (n : rnorm) : option op :=
  match n_mat n with
  | [[a; b; c; t1]; [d; e; f; t2]; [g; h; i; t3]; [z1; z2; z3; o]] =>
      match qrow_int [a; b; c; d; e; f; g; h; i; z1; z2; z3; o], qrow_snap [t1; t2; t3] with
      | Some [a'; b'; c'; d'; e'; f'; g'; h'; i'; 0; 0; 0; 1], Some [u1; u2; u3] =>
          Some (((a', b', c'), (d', e', f'), (g', h', i')), v3mod (u1, u2, u3))
      | _, _ => None end
  | _ => None end.

Definition unimodular (r : m3) : bool := (mdet r =? 1) || (mdet r =? -1).

(* op_inv n is a two-sided inverse of n, and n g n^-1 as well as n^-1 g n lie in G for every g in G *)
Definition idop : op := (mid, (0, 0, 0)).
Definition normalises (G : list op) (n : op) : bool :=
  let ni := op_inv n in
  op_eqb (op_compose n ni) idop && op_eqb (op_compose ni n) idop
  && forallb (fun g => op_mem (op_compose n (op_compose g ni)) G && op_mem (op_compose ni (op_compose g n)) G) G.

(* ---------- metric ------------------------------------------------------------------------ *)
(* a basis of the space of metric tensors of a generic lattice of the crystal system, in the
   axes the tables use (monoclinic: unique axis b; trigonal/hexagonal: hexagonal axes) *)
Definition metric_basis (sg : Z) : list m3 :=
  let e11 := ((1, 0, 0), (0, 0, 0), (0, 0, 0)) in
  let e22 := ((0, 0, 0), (0, 1, 0), (0, 0, 0)) in
  let e33 := ((0, 0, 0), (0, 0, 0), (0, 0, 1)) in
  let s12 := ((0, 1, 0), (1, 0, 0), (0, 0, 0)) in
  let s13 := ((0, 0, 1), (0, 0, 0), (1, 0, 0)) in
  let s23 := ((0, 0, 0), (0, 0, 1), (0, 1, 0)) in
  if sg <=? 2 then [e11; e22; e33; s12; s13; s23]
  else if sg <=? 15 then [e11; e22; e33; s13]
  else if sg <=? 74 then [e11; e22; e33]
  else if sg <=? 142 then [((1, 0, 0), (0, 1, 0), (0, 0, 0)); e33]
  else if sg <=? 194 then [((2, -1, 0), (-1, 2, 0), (0, 0, 0)); e33]
  else [mid].

Definition preserves_metric (sg : Z) (r : m3) : bool :=
  forallb (fun b => m3_eqb (mmul (mtrans r) (mmul b r)) b) (metric_basis sg).

(* ---------- handedness -------------------------------------------------------------------- *)
Definition all_proper (G : list op) : bool := forallb (fun g => mdet (fst g) =? 1) G.
Definition handed_ok (G : list op) (n : op) : bool := negb (all_proper G) || (mdet (fst n) =? 1).

(* ---------- letter permutation -------------------------------------------------------------- *)
Definition perm_get (p : list (string * string)) (s : string) : option string :=
  match find (fun kv => String.eqb (fst kv) s) p with Some kv => Some (snd kv) | None => None end.

Definition same_set (a b : list string) : bool :=
  forallb (fun x => str_mem x b) a && forallb (fun x => str_mem x a) b.

(* the permutation is defined exactly on the letters of the group and is a bijection of them *)
Definition perm_wellformed (letters : list string) (p : list (string * string)) : bool :=
  nodup_by String.eqb (map fst p) && nodup_by String.eqb (map snd p)
  && same_set (map fst p) letters && same_set (map snd p) letters.

(* certificate for one letter:  index j of the target expression among expressions x centrings of
   the image letter, lattice shift z, and rational matrices A, B, vector s such that, with
   (M1', c1') = n applied to the first representative of the letter and (M2, c2) the target:
      M1' = A M2,   M2 = B M1',   c1' - c2 - 24 z = 24 (s M2)                                   *)
Record lcert := mkLC { lc_j : nat; lc_z : v3; lc_A : list (list Q); lc_B : list (list Q); lc_s : list Q }.

Definition qm3 := list (list Q).
Definition m3_to_q (m : m3) : qm3 :=
  let '((a, b, c), (d, e, f), (g, h, i)) := m in
  [[inject_Z a; inject_Z b; inject_Z c]; [inject_Z d; inject_Z e; inject_Z f]; [inject_Z g; inject_Z h; inject_Z i]].
Definition v3_to_q (v : v3) : list Q := let '(a, b, c) := v in [inject_Z a; inject_Z b; inject_Z c].
Definition qdot (a b : list Q) : Q := fold_right Qplus 0%Q (map (fun p => (fst p * snd p)%Q) (combine a b)).
Definition qcol (m : qm3) (j : nat) : list Q := map (fun r => nth j r 0%Q) m.
Definition qvecmat (v : list Q) (m : qm3) : list Q := [qdot v (qcol m 0); qdot v (qcol m 1); qdot v (qcol m 2)].
Definition qmatmul (a b : qm3) : qm3 := map (fun r => qvecmat r b) a.
Definition qlist_eqb (a b : list Q) : bool :=
  (List.length a =? List.length b)%nat && forallb (fun p => Qeq_bool (fst p) (snd p)) (combine a b).
Definition qmat_eqb (a b : qm3) : bool :=
  (List.length a =? List.length b)%nat && forallb (fun p => qlist_eqb (fst p) (snd p)) (combine a b).
Definition shape33 (m : qm3) : bool :=
  (List.length m =? 3)%nat && forallb (fun r => (List.length r =? 3)%nat) m.

Definition cert_ok (n : op) (e1 : aff) (targets : list aff) (c : lcert) : bool :=
  match nth_error targets (lc_j c) with
  | None => false
  | Some e2 =>
      let e1' := act n e1 in
      let M1 := m3_to_q (aM e1') in
      let M2 := m3_to_q (aM e2) in
      let d := vsub (vsub (ac e1') (ac e2)) (vscale 24 (lc_z c)) in
      shape33 (lc_A c) && shape33 (lc_B c) && (List.length (lc_s c) =? 3)%nat
      && qmat_eqb M1 (qmatmul (lc_A c) M2)
      && qmat_eqb M2 (qmatmul (lc_B c) M1)
      && qlist_eqb (v3_to_q d) (map (fun x => (24 * x)%Q) (qvecmat (lc_s c) M2))
  end.

Definition find_wyck (ws : list iwyck) (l : string) : option iwyck :=
  find (fun w => String.eqb (iw_letter w) l) ws.

(* one normalizer: certificates are listed in the order of the table's letters *)
Definition letters_ok (tr : list v3) (ws : list iwyck) (n : op) (p : list (string * string)) (cs : list lcert) : bool :=
  (List.length cs =? List.length ws)%nat
  && forallb (fun wc =>
       let '(w, c) := wc in
       match perm_get p (iw_letter w), iw_exprs w with
       | Some l', e1 :: _ =>
           match find_wyck ws l' with
           | Some w' => cert_ok n e1 (full_exprs tr w') c
           | None => false end
       | _, _ => false end) (combine ws cs).

Definition norm_ok (sg : Z) (G : list op) (tr : list v3) (ws : list iwyck) (rn : rnorm) (cs : list lcert) : bool :=
  match norm_to_op rn with
  | None => false
  | Some n =>
      rot_small (fst n) && unimodular (fst n)
      && normalises G n
      && preserves_metric sg (fst n)
      && handed_ok G n
      && perm_wellformed (map iw_letter ws) (n_perm rn)
      && letters_ok tr ws n (n_perm rn) cs
  end.

(* which of the five clauses fail, for the harness: bit list
   [shape; normalises; metric; handedness; perm wellformed; letters] *)
Definition norm_diag (sg : Z) (G : list op) (tr : list v3) (ws : list iwyck) (rn : rnorm) (cs : list lcert) : list bool :=
  match norm_to_op rn with
  | None => [false; false; false; false; false; false]
  | Some n =>
      [rot_small (fst n) && unimodular (fst n); normalises G n; preserves_metric sg (fst n);
       handed_ok G n; perm_wellformed (map iw_letter ws) (n_perm rn); letters_ok tr ws n (n_perm rn) cs]
  end.

(* permutations of the letters induced by the tabulated normalizers (plus identity) are closed
   under composition *)
Definition perm_compose (p q : list (string * string)) : list (string * option string) :=
  map (fun kv => (fst kv, match perm_get q (snd kv) with Some x => Some x | None => None end)) p.
Definition perm_eq_on (letters : list string) (r : list (string * option string)) (p : list (string * string)) : bool :=
  forallb (fun l => match find (fun kv => String.eqb (fst kv) l) r with
                    | Some (_, Some x) => match perm_get p l with Some y => String.eqb x y | None => false end
                    | _ => false end) letters.
Definition perm_id (letters : list string) : list (string * string) := map (fun l => (l, l)) letters.
Definition perms_closed (letters : list string) (ps : list (list (string * string))) : bool :=
  let all := perm_id letters :: ps in
  forallb (fun p => forallb (fun q => existsb (perm_eq_on letters (perm_compose p q)) all) all) all.

Definition with_table {A} (t : sgtable) (dflt : A) (k : list v3 -> list iwyck -> list op -> A) : A :=
  match conv_trans t, conv_wycks t with
  | Some tr, Some ws =>
      match general_position ws with
      | Some gp => k tr ws (group_ops tr gp)
      | None => dflt end
  | _, _ => dflt end.

Definition chk_norms (t : sgtable) (certs : list (list lcert)) : bool :=
  with_table t false (fun tr ws G =>
    (List.length certs =? List.length (sg_norms t))%nat
    && forallb (fun nc => norm_ok (sg_num t) G tr ws (fst nc) (snd nc)) (combine (sg_norms t) certs)
    && perms_closed (map iw_letter ws) (map n_perm (sg_norms t))).

Definition norms_diag (t : sgtable) (certs : list (list lcert)) : list (list bool) :=
  with_table t [] (fun tr ws G =>
    map (fun nc => norm_diag (sg_num t) G tr ws (fst nc) (snd nc)) (combine (sg_norms t) certs)).

(* the sub-list of proper (det = +1) normalizers also has a closed permutation set -- used when the
   group is chiral and only proper normalizers may be applied *)
Definition chk_proper_perms_closed (t : sgtable) : bool :=
  with_table t false (fun tr ws G =>
    perms_closed (map iw_letter ws)
      (map n_perm (filter (fun rn => match norm_to_op rn with Some n => mdet (fst n) =? 1 | None => false end) (sg_norms t)))).

(* ---------- item 4: crystal system, point group, Bravais lattice ---------------------------- *)
Local Open Scope string_scope.
Local Open Scope Z_scope.
Definition system_of (sg : Z) : string :=
  if sg <=? 2 then "triclinic" else if sg <=? 15 then "monoclinic" else if sg <=? 74 then "orthorhombic"
  else if sg <=? 142 then "tetragonal" else if sg <=? 167 then "trigonal" else if sg <=? 194 then "hexagonal"
  else "cubic".
Definition family_letter (sg : Z) : string :=
  if sg <=? 2 then "a" else if sg <=? 15 then "m" else if sg <=? 74 then "o"
  else if sg <=? 142 then "t" else if sg <=? 194 then "h" else "c".

(* census of the rotation parts by (trace, det):
   [E; 2; 3; 4; 6; -1; m; -3; -4; -6] *)
Definition dedup_m3 (l : list m3) : list m3 :=
  fold_right (fun x acc => if existsb (m3_eqb x) acc then acc else x :: acc) [] l.
Definition count_td (rs : list m3) (tr det : Z) : Z :=
  Z.of_nat (List.length (filter (fun r => (mtrace r =? tr) && (mdet r =? det)) rs)).
Definition census (G : list op) : list Z :=
  let rs := dedup_m3 (map fst G) in
  [count_td rs 3 1; count_td rs (-1) 1; count_td rs 0 1; count_td rs 1 1; count_td rs 2 1;
   count_td rs (-3) (-1); count_td rs 1 (-1); count_td rs 0 (-1); count_td rs (-1) (-1); count_td rs (-2) (-1)].

(* the 32 crystallographic point groups (International Tables A, Table 10.1.2.2) by their census *)
Definition pg_table : list (string * list Z) :=
  [("1", [1;0;0;0;0;0;0;0;0;0]); ("-1", [1;0;0;0;0;1;0;0;0;0]);
   ("2", [1;1;0;0;0;0;0;0;0;0]); ("m", [1;0;0;0;0;0;1;0;0;0]); ("2/m", [1;1;0;0;0;1;1;0;0;0]);
   ("222", [1;3;0;0;0;0;0;0;0;0]); ("mm2", [1;1;0;0;0;0;2;0;0;0]); ("mmm", [1;3;0;0;0;1;3;0;0;0]);
   ("4", [1;1;0;2;0;0;0;0;0;0]); ("-4", [1;1;0;0;0;0;0;0;2;0]); ("4/m", [1;1;0;2;0;1;1;0;2;0]);
   ("422", [1;5;0;2;0;0;0;0;0;0]); ("4mm", [1;1;0;2;0;0;4;0;0;0]); ("-42m", [1;3;0;0;0;0;2;0;2;0]);
   ("4/mmm", [1;5;0;2;0;1;5;0;2;0]);
   ("3", [1;0;2;0;0;0;0;0;0;0]); ("-3", [1;0;2;0;0;1;0;2;0;0]); ("32", [1;3;2;0;0;0;0;0;0;0]);
   ("3m", [1;0;2;0;0;0;3;0;0;0]); ("-3m", [1;3;2;0;0;1;3;2;0;0]);
   ("6", [1;1;2;0;2;0;0;0;0;0]); ("-6", [1;0;2;0;0;0;1;0;0;2]); ("6/m", [1;1;2;0;2;1;1;2;0;2]);
   ("622", [1;7;2;0;2;0;0;0;0;0]); ("6mm", [1;1;2;0;2;0;6;0;0;0]); ("-6m2", [1;3;2;0;0;0;4;0;0;2]);
   ("6/mmm", [1;7;2;0;2;1;7;2;0;2]);
   ("23", [1;3;8;0;0;0;0;0;0;0]); ("m-3", [1;3;8;0;0;1;3;8;0;0]); ("432", [1;9;8;6;0;0;0;0;0;0]);
   ("-43m", [1;3;8;0;0;0;6;0;6;0]); ("m-3m", [1;9;8;6;0;1;9;8;6;0])]%string.

Definition zlist_eqb (a b : list Z) : bool :=
  (List.length a =? List.length b)%nat && forallb (fun p => fst p =? snd p) (combine a b).
Definition pg_of_census (c : list Z) : option string :=
  match find (fun kv => zlist_eqb (snd kv) c) pg_table with Some kv => Some (fst kv) | None => None end.

(* centring class from the centring translations: P, S (one face), I, F, R *)
Definition v3_mem (x : v3) (l : list v3) : bool := existsb (v3_eqb x) l.
Definition same_v3_set (a b : list v3) : bool :=
  forallb (fun x => v3_mem x b) a && forallb (fun x => v3_mem x a) b && (List.length a =? List.length b)%nat.
Definition centring_class (tr : list v3) : option string :=
  if same_v3_set tr [] then Some "P"
  else if same_v3_set tr [(12, 12, 0)] || same_v3_set tr [(0, 12, 12)] || same_v3_set tr [(12, 0, 12)] then Some "S"
  else if same_v3_set tr [(12, 12, 12)] then Some "I"
  else if same_v3_set tr [(0, 12, 12); (12, 0, 12); (12, 12, 0)] then Some "F"
  else if same_v3_set tr [(16, 8, 8); (8, 16, 16)] then Some "R"
  else None.
Definition merged_centring (bl : string) : option string :=
  match bl with
  | String f (String c EmptyString) =>
      let cs := String c EmptyString in
      if str_mem cs ["A"; "B"; "C"]%string then Some "S" else Some cs
  | _ => None end.
Definition bravais_family (bl : string) : option string :=
  match bl with String f (String _ EmptyString) => Some (String f EmptyString) | _ => None end.
Definition opt_str_eqb (a b : option string) : bool :=
  match a, b with Some x, Some y => String.eqb x y | _, _ => false end.

Definition chk_info (t : sgtable) : bool :=
  with_table t false (fun tr ws G =>
    String.eqb (i_system (sg_info t)) (system_of (sg_num t))
    && opt_str_eqb (pg_of_census (census G)) (Some (i_pg (sg_info t)))
    && opt_str_eqb (bravais_family (i_bravais (sg_info t))) (Some (family_letter (sg_num t)))
    && opt_str_eqb (merged_centring (i_bravais (sg_info t))) (centring_class tr)).

(* ---------- further clauses used by C05 / C06 ------------------------------------------------- *)
(* every operation of the group itself preserves every metric of the crystal system *)
Definition group_inverses (G : list op) : bool :=
  forallb (fun g => op_mem (op_inv g) G && op_eqb (op_compose g (op_inv g)) idop && op_eqb (op_compose (op_inv g) g) idop) G.
Definition chk_group_isometries (t : sgtable) : bool :=
  with_table t false (fun tr ws G => forallb (fun g => preserves_metric (sg_num t) (fst g)) G && group_inverses G).

(* the letter permutations (identity + tabulated) contain inverses; also among the proper ones *)
Definition perms_inverses (letters : list string) (ps : list (list (string * string))) : bool :=
  let all := perm_id letters :: ps in
  forallb (fun p => existsb (fun q => perm_eq_on letters (perm_compose p q) (perm_id letters)
                                      && perm_eq_on letters (perm_compose q p) (perm_id letters)) all) all.
Definition proper_norms (t : sgtable) : list rnorm :=
  filter (fun rn => match norm_to_op rn with Some n => mdet (fst n) =? 1 | None => false end) (sg_norms t).
Definition chk_perm_inverses (t : sgtable) : bool :=
  with_table t false (fun tr ws G =>
    perms_inverses (map iw_letter ws) (map n_perm (sg_norms t))
    && perms_inverses (map iw_letter ws) (map n_perm (proper_norms t))).
