(* Boolean checkers over one space-group table (C14 items 1-3) and what they mean.
   Everything here is executable; soundness lemmas are in GroupChecksProofs.v. *)
From Coq Require Import ZArith QArith List String Bool.
Import ListNotations.
From MV Require Import Symmetry.Table Symmetry.Affine Symmetry.Expr.
Open Scope Z_scope.

(* ---------- internal form of a table ------------------------------------------------ *)
Record iwyck := mkIW { iw_letter : string; iw_vars : list string; iw_exprs : list aff }.

Definition conv_wyck (w : rwyck) : option iwyck :=
  match all_some (map expr_to_aff (w_exprs w)) with
  | Some es => Some (mkIW (w_letter w) (w_vars w) es)
  | None => None end.

Definition conv_trans (t : sgtable) : option (list v3) := all_some (map trans_to_v3 (sg_trans t)).
Definition conv_wycks (t : sgtable) : option (list iwyck) := all_some (map conv_wyck (sg_wyck t)).

(* all centring translations including zero *)
Definition centrings (tr : list v3) : list v3 := (0, 0, 0) :: tr.

(* expressions x centrings of one letter *)
Definition full_exprs (tr : list v3) (w : iwyck) : list aff :=
  flat_map (fun t => map (aff_shift t) (iw_exprs w)) (centrings tr).

Definition is_general (w : iwyck) : bool := (List.length (iw_vars w) =? 3)%nat.
Definition general_position (ws : list iwyck) : option iwyck := find is_general ws.

(* the group read off the general position, re-based by its first representative *)
Definition group_ops (tr : list v3) (gp : iwyck) : list op :=
  match iw_exprs gp with
  | [] => []
  | e1 :: _ => map (op_of e1) (full_exprs tr gp)
  end.

(* ---------- item 1: expression strings = numeric matrices and constants ---------------- *)
Definition lin_matches (l : lin) (comp : nat) (e : rexpr) (a : aff) : bool :=
  let '(m1, m2, m3') := aM a in
  let pick (v : v3) := let '(p, q, r) := v in match comp with 0%nat => p | 1%nat => q | _ => r end in
  (cx l =? pick m1) && (cy l =? pick m2) && (cz l =? pick m3')
  && match nth_error (e_const e) comp with
     | Some qc => match snap24 qc with Some k24 => Qeq_bool (k l) (k24 # 24) | None => false end
     | None => false end.

Definition expr_ok (e : rexpr) : bool :=
  match expr_to_aff e, e_strs e with
  | Some a, [s0; s1; s2] =>
      match parse s0, parse s1, parse s2 with
      | Some l0, Some l1, Some l2 => lin_matches l0 0 e a && lin_matches l1 1 e a && lin_matches l2 2 e a
      | _, _, _ => false end
  | _, _ => false end.

Definition row_nonzero (v : v3) : bool := let '(a, b, c) := v in negb ((a =? 0) && (b =? 0) && (c =? 0)).
Definition str_mem (s : string) (l : list string) : bool := existsb (String.eqb s) l.
(* the declared variable set = the variables that actually occur in some expression *)
Definition vars_ok (w : rwyck) (iw : iwyck) : bool :=
  let occurs (sel : m3 -> v3) := existsb (fun a => row_nonzero (sel (aM a))) (iw_exprs iw) in
  Bool.eqb (str_mem "x" (w_vars w)) (occurs (fun m => let '(r, _, _) := m in r))
  && Bool.eqb (str_mem "y" (w_vars w)) (occurs (fun m => let '(_, r, _) := m in r))
  && Bool.eqb (str_mem "z" (w_vars w)) (occurs (fun m => let '(_, _, r) := m in r))
  && forallb (fun s => str_mem s ["x"; "y"; "z"]%string) (w_vars w).

Definition wyck_exprs_ok (w : rwyck) : bool :=
  forallb expr_ok (w_exprs w)
  && match conv_wyck w with Some iw => vars_ok w iw | None => false end.

Definition chk_exprs (t : sgtable) : bool := forallb wyck_exprs_ok (sg_wyck t).

(* offenders: (letter, expression index) *)
Definition exprs_offenders (t : sgtable) : list (string * nat) :=
  flat_map (fun w =>
    map (fun p => (w_letter w, fst p))
        (filter (fun p => negb (expr_ok (snd p))) (combine (seq 0 (List.length (w_exprs w))) (w_exprs w))))
    (sg_wyck t).

(* ---------- item 2: the general position is a group, equal to the reference ------------- *)
Definition rot_small (r : m3) : bool :=
  let ok (z : Z) := (-1 <=? z) && (z <=? 1) in
  let '((a, b, c), (d, e, f), (g, h, i)) := r in
  ok a && ok b && ok c && ok d && ok e && ok f && ok g && ok h && ok i.

Fixpoint nodup_by {A} (eqb : A -> A -> bool) (l : list A) : bool :=
  match l with [] => true | x :: r => negb (existsb (eqb x) r) && nodup_by eqb r end.

Definition closed_ops (G : list op) : bool :=
  forallb (fun a => forallb (fun b => op_mem (op_compose a b) G) G) G.

Definition subset_ops (A B : list op) : bool := forallb (fun a => op_mem a B) A.

Definition first_is_identity (gp : iwyck) : bool :=
  match iw_exprs gp with e1 :: _ => m3_eqb (aM e1) mid | [] => false end.

Definition chk_group_on (tr : list v3) (gp : iwyck) (ref : list op) : bool :=
  let G := group_ops tr gp in
  first_is_identity gp
  && forallb (fun g => rot_small (fst g) && ((mdet (fst g) =? 1) || (mdet (fst g) =? -1))) G
  && nodup_by op_eqb G
  && op_mem (mid, (0, 0, 0)) G
  && closed_ops G
  && subset_ops G ref && subset_ops ref G && (List.length G =? List.length ref)%nat.

Definition chk_group (t : sgtable) (ref : list op) : bool :=
  match conv_trans t, conv_wycks t with
  | Some tr, Some ws =>
      match general_position ws with
      | Some gp => chk_group_on tr gp ref
      | None => false end
  | _, _ => false end.

(* ---------- item 3: every Wyckoff position is one closed orbit of its multiplicity ------- *)
Definition orbit_ok (G : list op) (tr : list v3) (w : iwyck) : bool :=
  let E := full_exprs tr w in
  nodup_by aff_eqb E
  && forallb (fun g => forallb (fun e => aff_mem (act g e) E) E) G
  && match iw_exprs w with
     | e1 :: _ => forallb (fun e => existsb (fun g => aff_eqb (act g e1) e) G) E
     | [] => false end.

Definition chk_orbits (t : sgtable) : bool :=
  match conv_trans t, conv_wycks t with
  | Some tr, Some ws =>
      match general_position ws with
      | Some gp => let G := group_ops tr gp in forallb (orbit_ok G tr) ws
      | None => false end
  | _, _ => false end.

Definition orbits_offenders (t : sgtable) : list string :=
  match conv_trans t, conv_wycks t with
  | Some tr, Some ws =>
      match general_position ws with
      | Some gp => let G := group_ops tr gp in
                   map iw_letter (filter (fun w => negb (orbit_ok G tr w)) ws)
      | None => ["(no general position)"%string] end
  | _, _ => ["(table does not convert)"%string] end.

(* letters are pairwise distinct *)
Definition chk_letters (t : sgtable) : bool := nodup_by String.eqb (map w_letter (sg_wyck t)).
