(* What the normalizer checkers of NormChecks.v mean. *)
From Coq Require Import ZArith QArith List String Bool Lia.
Import ListNotations.
From MV Require Import Symmetry.Table Symmetry.Affine Reflect.GroupChecks Reflect.GroupChecksProofs Reflect.NormChecks.
Open Scope Z_scope.

Lemma normalises_sound G n :
  normalises G n = true ->
  op_compose n (op_inv n) = idop /\ op_compose (op_inv n) n = idop
  /\ forall g, In g G -> In (op_compose n (op_compose g (op_inv n))) G
                         /\ In (op_compose (op_inv n) (op_compose g n)) G.
Proof.
  unfold normalises. cbv zeta. rewrite !andb_true_iff. intros [[H1 H2] H].
  split; [apply op_eqb_eq; exact H1|]. split; [apply op_eqb_eq; exact H2|].
  intros g Hg. rewrite forallb_forall in H. specialize (H g Hg). apply andb_true_iff in H.
  split; apply op_mem_In; tauto.
Qed.

Lemma preserves_metric_sound sg r :
  preserves_metric sg r = true -> forall b, In b (metric_basis sg) -> mmul (mtrans r) (mmul b r) = b.
Proof.
  unfold preserves_metric. intros H b Hb. rewrite forallb_forall in H. apply m3_eqb_eq. apply H. exact Hb.
Qed.

(* R^T B R = B is linear in B, so it extends from the basis to every metric of the crystal system:
   here for integer combinations (rational ones follow by scaling). *)
Definition madd (a b : m3) : m3 :=
  let '(a1, a2, a3) := a in let '(b1, b2, b3) := b in (vadd a1 b1, vadd a2 b2, vadd a3 b3).
Ltac destr_m3 m := destruct m as [[[[? ?] ?] [[? ?] ?]] [[? ?] ?]].
Lemma mmul_madd_r a b c : mmul a (madd b c) = madd (mmul a b) (mmul a c).
Proof. destr_m3 a; destr_m3 b; destr_m3 c. unfold mmul, madd, mcol, dot3, vadd; simpl. repeat (match goal with |- (_, _) = (_, _) => apply f_equal2 end); ring. Qed.
Lemma mmul_madd_l a b c : mmul (madd b c) a = madd (mmul b a) (mmul c a).
Proof. destr_m3 a; destr_m3 b; destr_m3 c. unfold mmul, madd, mcol, dot3, vadd; simpl. repeat (match goal with |- (_, _) = (_, _) => apply f_equal2 end); ring. Qed.
Lemma mmul_mscale_r k a b : mmul a (mscale k b) = mscale k (mmul a b).
Proof. destr_m3 a; destr_m3 b. unfold mmul, mscale, vscale, mcol, dot3; simpl. repeat (match goal with |- (_, _) = (_, _) => apply f_equal2 end); ring. Qed.
Lemma mmul_mscale_l k a b : mmul (mscale k b) a = mscale k (mmul b a).
Proof. destr_m3 a; destr_m3 b. unfold mmul, mscale, vscale, mcol, dot3; simpl. repeat (match goal with |- (_, _) = (_, _) => apply f_equal2 end); ring. Qed.

Lemma metric_linear r b1 b2 k1 k2 :
  mmul (mtrans r) (mmul b1 r) = b1 -> mmul (mtrans r) (mmul b2 r) = b2 ->
  mmul (mtrans r) (mmul (madd (mscale k1 b1) (mscale k2 b2)) r) = madd (mscale k1 b1) (mscale k2 b2).
Proof.
  intros H1 H2.
  rewrite mmul_madd_l, mmul_madd_r, !mmul_mscale_l, !mmul_mscale_r, H1, H2. reflexivity.
Qed.

Lemma handed_ok_sound G n : handed_ok G n = true -> all_proper G = true -> mdet (fst n) = 1.
Proof.
  unfold handed_ok. intros H Hp. rewrite Hp in H. simpl in H. apply Z.eqb_eq. exact H.
Qed.

Lemma all_proper_sound G : all_proper G = true -> forall g, In g G -> mdet (fst g) = 1.
Proof. unfold all_proper. intros H g Hg. rewrite forallb_forall in H. apply Z.eqb_eq. apply H. exact Hg. Qed.

(* ---- determinant facts used by C15/C05 ------------------------------------------------------ *)
Lemma mdet_mmul a b : mdet (mmul a b) = mdet a * mdet b.
Proof.
  destruct a as [[[[a11 a12] a13] [[a21 a22] a23]] [[a31 a32] a33]].
  destruct b as [[[[b11 b12] b13] [[b21 b22] b23]] [[b31 b32] b33]].
  unfold mdet, mmul, mcol, dot3; simpl. ring.
Qed.

Lemma norm_ok_parts sg G tr ws rn cs :
  norm_ok sg G tr ws rn cs = true ->
  exists n, norm_to_op rn = Some n
    /\ (mdet (fst n) = 1 \/ mdet (fst n) = -1)
    /\ (op_compose n (op_inv n) = idop /\ op_compose (op_inv n) n = idop
        /\ forall g, In g G -> In (op_compose n (op_compose g (op_inv n))) G
                               /\ In (op_compose (op_inv n) (op_compose g n)) G)
    /\ (forall b, In b (metric_basis sg) -> mmul (mtrans (fst n)) (mmul b (fst n)) = b)
    /\ (all_proper G = true -> mdet (fst n) = 1)
    /\ perm_wellformed (map iw_letter ws) (n_perm rn) = true
    /\ letters_ok tr ws n (n_perm rn) cs = true.
Proof.
  unfold norm_ok. destruct (norm_to_op rn) as [n|]; [|discriminate].
  intros H. rewrite !andb_true_iff in H.
  destruct H as [[[[[[_ Hu] Hn] Hm] Hh] Hp] Hl].
  exists n. split; [reflexivity|].
  split; [unfold unimodular in Hu; rewrite orb_true_iff, !Z.eqb_eq in Hu; exact Hu|].
  split; [apply normalises_sound; exact Hn|].
  split; [apply preserves_metric_sound; exact Hm|].
  split; [apply handed_ok_sound; exact Hh|].
  split; [exact Hp | exact Hl].
Qed.

Lemma group_inverses_sound G : group_inverses G = true ->
  forall g, In g G -> exists gi, In gi G /\ op_compose g gi = idop /\ op_compose gi g = idop.
Proof.
  unfold group_inverses. rewrite forallb_forall. intros H g Hg. specialize (H g Hg).
  rewrite !andb_true_iff in H. destruct H as [[H1 H2] H3]. exists (op_inv g).
  split; [apply op_mem_In; exact H1|]. split; apply op_eqb_eq; assumption.
Qed.

(* products of isometries are isometries *)
Lemma mtrans_mmul a b : mtrans (mmul a b) = mmul (mtrans b) (mtrans a).
Proof. destr_m3 a; destr_m3 b. unfold mtrans, mmul, mcol, dot3; simpl.
  repeat (match goal with |- (_, _) = (_, _) => apply f_equal2 end); ring. Qed.
Lemma mmul_assoc a b c : mmul (mmul a b) c = mmul a (mmul b c).
Proof. destr_m3 a; destr_m3 b; destr_m3 c. unfold mmul, mcol, dot3; simpl.
  repeat (match goal with |- (_, _) = (_, _) => apply f_equal2 end); ring. Qed.
Lemma metric_product r s b :
  mmul (mtrans r) (mmul b r) = b -> mmul (mtrans s) (mmul b s) = b ->
  mmul (mtrans (mmul r s)) (mmul b (mmul r s)) = b.
Proof.
  intros Hr Hs. rewrite mtrans_mmul. rewrite <- (mmul_assoc b r s). rewrite (mmul_assoc (mtrans s) (mtrans r)).
  rewrite <- (mmul_assoc (mtrans r)). rewrite Hr. exact Hs.
Qed.
