(* From the boolean clauses checked for every group to the hypotheses of
   GroundStateInvariance.ground_state_invariant. *)
From Coq Require Import ZArith List String Bool Arith Lia.
Import ListNotations.
From MV Require Import Symmetry.Table Symmetry.Affine Symmetry.GroundState Symmetry.GroundStateInvariance
  Reflect.GroupChecks Reflect.GroupChecksProofs Reflect.NormChecks Reflect.GroundChecks.

Lemma perm_get_pget p s : perm_get p s = pget p s.
Proof. reflexivity. Qed.

Lemma str_mem_In s l : str_mem s l = true <-> In s l.
Proof.
  unfold str_mem. rewrite existsb_exists. split.
  - intros [y [Hy E]]. apply String.eqb_eq in E. subst. exact Hy.
  - intros H. exists s. split; [exact H | apply String.eqb_refl].
Qed.

Lemma same_set_sound a b : same_set a b = true -> forall x, In x a <-> In x b.
Proof.
  unfold same_set. rewrite andb_true_iff, !forallb_forall. intros [H1 H2] x.
  split; intros H; apply str_mem_In; auto.
Qed.

Lemma pget_some_in p l x : pget p l = Some x -> In (l, x) p.
Proof.
  unfold pget. destruct (find (fun kv => String.eqb (fst kv) l) p) as [[k v]|] eqn:E; [|discriminate].
  intros H. injection H as <-. apply find_some in E. destruct E as [Hin Hk]. simpl in Hk. apply String.eqb_eq in Hk. subst. exact Hin.
Qed.
Lemma pget_total p l : In l (map fst p) -> exists x, pget p l = Some x.
Proof.
  unfold pget. intros H. destruct (find (fun kv => String.eqb (fst kv) l) p) as [kv|] eqn:E; [eexists; reflexivity|].
  exfalso. apply in_map_iff in H. destruct H as [[k v] [Hk Hin]]. simpl in Hk. subst.
  pose proof (find_none _ _ E _ Hin) as Hn. simpl in Hn. rewrite String.eqb_refl in Hn. discriminate.
Qed.

Lemma wellformed_total letters p : perm_wellformed letters p = true ->
  (forall l, In l letters -> exists l', pget p l = Some l' /\ In l' letters)
  /\ (forall l, In l (map snd p) <-> In l letters).
Proof.
  unfold perm_wellformed. rewrite !andb_true_iff. intros [[[_ _] Hf] Hs].
  pose proof (same_set_sound _ _ Hf) as Hf'. pose proof (same_set_sound _ _ Hs) as Hs'.
  split; [|exact Hs'].
  intros l Hl. destruct (pget_total p l (proj2 (Hf' l) Hl)) as [x Hx]. exists x. split; [exact Hx|].
  apply Hs'. apply pget_some_in in Hx. apply in_map_iff. exists (l, x). auto.
Qed.

Lemma find_map_snd (f : string -> option string) l (p : perm) :
  find (fun kv : string * option string => String.eqb (fst kv) l) (map (fun kv => (fst kv, f (snd kv))) p)
  = option_map (fun kv => (fst kv, f (snd kv))) (find (fun kv => String.eqb (fst kv) l) p).
Proof. induction p as [|[k v] p IH]; simpl; [reflexivity|]. destruct (String.eqb k l); [reflexivity | exact IH]. Qed.

Lemma perm_eq_on_sound letters p q r :
  perm_eq_on letters (perm_compose p q) r = true ->
  forall l, In l letters -> pget r l = pbind p (pget q) l /\ pget r l <> None.
Proof.
  unfold perm_eq_on. rewrite forallb_forall. intros H l Hl. specialize (H l Hl).
  unfold perm_compose in H. rewrite (find_map_snd (fun v => match perm_get q v with Some x => Some x | None => None end)) in H. unfold pbind, pget at 2.
  destruct (find (fun kv => String.eqb (fst kv) l) p) as [[k v]|]; simpl in H; [|discriminate].
  simpl. change (match perm_get q v with Some x => Some x | None => None end) with (match pget q v with Some x => Some x | None => None end) in H.
  destruct (pget q v) as [x|]; [|discriminate]. rewrite perm_get_pget in H.
  destruct (pget r l) as [y|]; [|discriminate]. apply String.eqb_eq in H. subst. split; [reflexivity | discriminate].
Qed.

Lemma perms_closed_sound letters ps :
  perms_closed letters ps = true ->
  forall p q, In p (perm_id letters :: ps) -> In q (perm_id letters :: ps) ->
  exists r, In r (perm_id letters :: ps) /\ forall l, In l letters -> pget r l = pbind p (pget q) l.
Proof.
  unfold perms_closed. cbv zeta. rewrite forallb_forall. intros H p q Hp Hq.
  specialize (H p Hp). rewrite forallb_forall in H. specialize (H q Hq).
  apply existsb_exists in H. destruct H as [r [Hr E]]. exists r. split; [exact Hr|].
  intros l Hl. exact (proj1 (perm_eq_on_sound letters p q r E l Hl)).
Qed.

Lemma perms_inverses_sound letters ps :
  perms_inverses letters ps = true ->
  forall p, In p (perm_id letters :: ps) ->
  exists q, In q (perm_id letters :: ps) /\ forall l, In l letters -> pbind p (pget q) l = Some l.
Proof.
  unfold perms_inverses. cbv zeta. rewrite forallb_forall. intros H p Hp. specialize (H p Hp).
  apply existsb_exists in H. destruct H as [q [Hq E]]. apply andb_true_iff in E. destruct E as [E _].
  exists q. split; [exact Hq|]. intros l Hl.
  destruct (perm_eq_on_sound letters p q (perm_id letters) E l Hl) as [H1 _]. rewrite <- H1.
  apply pget_ident. exact Hl.
Qed.

Lemma letter_codes_inj (letters : list string) :
  nodup_by Nat.eqb (map letter_code letters) = true ->
  forall a b, In a letters -> In b letters -> letter_code a = letter_code b -> a = b.
Proof.
  induction letters as [|x r IH]; simpl; [intros _ a b []|].
  rewrite andb_true_iff, negb_true_iff. intros [Hn Hr] a b Ha Hb E.
  assert (Hx : forall y, In y r -> letter_code x <> letter_code y).
  { intros y Hy Ec. assert (existsb (Nat.eqb (letter_code x)) (map letter_code r) = true) as Hc.
    { apply existsb_exists. exists (letter_code y). split; [apply in_map; exact Hy | apply Nat.eqb_eq; exact Ec]. }
    congruence. }
  destruct Ha as [<-|Ha], Hb as [<-|Hb]; [reflexivity | exfalso; exact (Hx b Hb E) | exfalso; exact (Hx a Ha (eq_sym E)) | apply IH; assumption].
Qed.

Lemma all_some_map {A B} (f : A -> option B) (g : A -> string) (h : B -> string) l r :
  (forall a b, f a = Some b -> h b = g a) -> all_some (map f l) = Some r -> map h r = map g l.
Proof.
  intros Hfg. revert r. induction l as [|a l IH]; simpl; intros r H.
  - injection H as <-. reflexivity.
  - destruct (f a) as [b|] eqn:E; [|discriminate]. destruct (all_some (map f l)) as [r'|]; [|discriminate].
    injection H as <-. simpl. rewrite (Hfg a b E), (IH r' eq_refl). reflexivity.
Qed.

Lemma conv_wycks_letters t ws : conv_wycks t = Some ws -> map iw_letter ws = table_letters t.
Proof.
  unfold conv_wycks, table_letters. apply all_some_map. intros w iw. unfold conv_wyck.
  destruct (all_some (map expr_to_aff (w_exprs w))); [|discriminate]. intros H. injection H as <-. reflexivity.
Qed.

Lemma in_combine_exists {A B} (l : list A) (l' : list B) x :
  List.length l = List.length l' -> In x l -> exists y, In (x, y) (combine l l').
Proof.
  revert l'. induction l as [|a l IH]; intros [|b l'] Hl Hin; simpl in *; try discriminate; [destruct Hin|].
  destruct Hin as [<-|Hin]; [exists b; left; reflexivity|]. destruct (IH l' ltac:(lia) Hin) as [y Hy]. exists y. right. exact Hy.
Qed.

Theorem table_ground_state_invariant t certs :
  chk_norms t certs = true -> chk_perm_inverses t = true -> chk_letter_codes t = true ->
  table_perms t <> [] ->
  forall letters numbers letters' numbers' pi c c',
    In pi (ident_perm (table_letters t) :: table_perms t) -> incl letters (table_letters t) ->
    List.length letters = List.length numbers -> List.length letters' = List.length numbers' ->
    Permutation.Permutation (combine letters' numbers') (map (fun lz => (hat pi (fst lz), snd lz)) (combine letters numbers)) ->
    ground_state letters numbers (table_perms t) = Chosen c ->
    ground_state letters' numbers' (table_perms t) = Chosen c' ->
    forall w z, count (c_perm c') (combine letters' numbers') w z = count (c_perm c) (combine letters numbers) w z.
Proof.
  unfold chk_norms, chk_perm_inverses, with_table.
  destruct (conv_trans t) as [tr|]; [|discriminate].
  destruct (conv_wycks t) as [ws|] eqn:Ews; [|discriminate].
  destruct (general_position ws) as [gp|]; [|discriminate].
  rewrite (conv_wycks_letters t ws Ews). intros Hn Hi Hc Hne.
  rewrite !andb_true_iff in Hn. destruct Hn as [[Hlen Hall] Hcl]. apply andb_true_iff in Hi. destruct Hi as [Hinv _].
  apply Nat.eqb_eq in Hlen. rewrite forallb_forall in Hall.
  assert (Hwf : forall p, In p (table_perms t) -> perm_wellformed (table_letters t) p = true).
  { intros p Hp. unfold table_perms in Hp. apply in_map_iff in Hp. destruct Hp as [rn [<- Hrn]].
    destruct (in_combine_exists (sg_norms t) certs rn (eq_sym Hlen) Hrn) as [cs Hcs].
    specialize (Hall _ Hcs). simpl in Hall. unfold norm_ok in Hall. destruct (norm_to_op rn); [|discriminate].
    rewrite !andb_true_iff in Hall. destruct Hall as [[_ Hp] _]. rewrite (conv_wycks_letters t ws Ews) in Hp. exact Hp. }
  apply (ground_state_invariant (table_letters t) (table_perms t) Hne).
  - apply letter_codes_inj. exact Hc.
  - intros p l Hp Hl. exact (proj1 (wellformed_total _ _ (Hwf p Hp)) l Hl).
  - intros p Hp. exact (proj2 (wellformed_total _ _ (Hwf p Hp))).
  - apply perms_closed_sound. exact Hcl.
  - apply perms_inverses_sound. exact Hinv.
Qed.
