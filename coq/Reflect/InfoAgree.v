(* Agreement relation for the C14 correspondence: what SymmetryAnalyzer reports for a crystal of
   group t (crystal system, merged Bravais symbol, point group) against the values *derived* from
   the group itself (number range, centring translations, (trace,det) census) -- not against the
   table's own strings, which Properties/C14.v relates to the same derived values. *)
From Coq Require Import ZArith List String Bool.
Import ListNotations.
From MV Require Import Symmetry.Table Symmetry.Affine Reflect.GroupChecks Reflect.NormChecks.
Open Scope Z_scope.

Definition info_agree (t : sgtable) (sys br pg : string) : bool :=
  with_table t false (fun tr ws G =>
    String.eqb sys (system_of (sg_num t))
    && opt_str_eqb (pg_of_census (census G)) (Some pg)
    && match centring_class tr with
       | Some c => String.eqb br (family_letter (sg_num t) ++ c)
       | None => false end).
