(* C12 -- boolean checker tying the conventional->primitive transformation matrix of
   SymmetryAnalyzer._get_primitive_system (Generated/Centring.v) to the centring translations of the
   space-group table (Generated/SGnnn.v) and to the centring letter of the Hermann-Mauguin symbol
   (Generated/HMSymbols.v).  Meaning of the checker: CentringChecksProofs.v.

   The code forms  prim_cell = transform.T @ conv_cell,  so primitive vector i, in conventional
   fractional coordinates, is COLUMN i of `transform`; the lattice they generate is
   { transform . m : m in Z^3 }.  Everything is done in units of 1/24. *)
From Coq Require Import ZArith QArith Qabs List String Bool.
Import ListNotations.
From MV Require Import Symmetry.Table Symmetry.Affine Reflect.GroupChecks Reflect.NormChecks.
Open Scope Z_scope.

Definition hm_centring (hm : string) : string :=
  match hm with String c _ => String c EmptyString | EmptyString => EmptyString end.

Definition qid3 : list (list Q) := [[1%Q; 0%Q; 0%Q]; [0%Q; 1%Q; 0%Q]; [0%Q; 0%Q; 1%Q]].

(* the matrix the code applies for a centring letter: "P" returns the conventional system itself *)
Definition transform_of (mats : list (string * list (list Q))) (c : string) : option (list (list Q)) :=
  if String.eqb c "P" then Some qid3
  else match find (fun kv => String.eqb (fst kv) c) mats with Some kv => Some (snd kv) | None => None end.

(* 24 * transform as an integer matrix (None when an entry is not a multiple of 1/24) *)
Definition times24 (m : list (list Q)) : option m3 :=
  match all_some (map (fun r => all_some (map (fun x => q_int (x * 24)%Q) r)) m) with
  | Some z => to_m3 z
  | None => None end.

(* centring multiplicity of the letter (P; A/B/C/I; R; F) *)
Definition mult_of (c : string) : option Z :=
  if String.eqb c "P" then Some 1
  else if String.eqb c "A" || String.eqb c "B" || String.eqb c "C" || String.eqb c "I" then Some 2
  else if String.eqb c "R" then Some 3
  else if String.eqb c "F" then Some 4
  else None.

(* centring class (as computed from the table's translations in C14) expected for the letter *)
Definition class_of (c : string) : option string :=
  if String.eqb c "P" then Some "P"%string
  else if String.eqb c "A" || String.eqb c "B" || String.eqb c "C" then Some "S"%string
  else if String.eqb c "I" then Some "I"%string
  else if String.eqb c "R" then Some "R"%string
  else if String.eqb c "F" then Some "F"%string
  else None.

Definition res24 : list Z := map Z.of_nat (seq 0 24).
Definition residues : list v3 :=
  flat_map (fun a => flat_map (fun b => map (fun c => (a, b, c)) res24) res24) res24.

Definition is_zero3 (v : v3) : bool := v3_eqb v (0, 0, 0).
Definition in_range3 (v : v3) : bool :=
  let '(a, b, c) := v in (0 <=? a) && (a <? 24) && (0 <=? b) && (b <? 24) && (0 <=? c) && (c <? 24).

Definition m24 : m3 := ((24, 0, 0), (0, 24, 0), (0, 0, 24)).

(* integer candidate for 24 * (24 transform)^-1 ... *)
Definition inverse_candidate (t24 : m3) : m3 :=
  let d := mdet t24 in
  let '((a, b, c), (d1, e, f), (g, h, i)) := madj t24 in
  let s x := (24 * x) / d in
  ((s a, s b, s c), (s d1, s e, s f), (s g, s h, s i)).

(* determinant over Q of the matrix as generated *)
Definition qdet3 (m : list (list Q)) : option Q :=
  match m with
  | [[a; b; c]; [d; e; f]; [g; h; i]] => Some (a * (e * i - f * h) - b * (d * i - f * g) + c * (d * h - e * g))%Q
  | _ => None end.

Definition lattice_ok (s : m3) (L : list v3) : bool :=
  forallb (fun r => Bool.eqb (is_zero3 (v3mod (mvec s r))) (v3_mem r L)) residues.

Definition centring_ok_on (tr : list v3) (c : string) (tq : list (list Q)) : bool :=
  match times24 tq, mult_of c, qdet3 tq with
  | Some t24, Some mult, Some dq =>
      let s := inverse_candidate t24 in
      let L := centrings tr in
      (* ... which is checked, not trusted: (24 T) S = S (24 T) = 24 I, i.e. S = T^-1 is an integer matrix *)
      m3_eqb (mmul t24 s) m24 && m3_eqb (mmul s t24) m24
      && forallb in_range3 L && nodup_by v3_eqb L
      (* both inclusions of  { T m }  =  Z^3 + centring translations, decided on the 24^3 residues *)
      && lattice_ok s L
      (* index of the sub-lattice = number of centring vectors = multiplicity of the letter *)
      && (Z.of_nat (List.length L) =? mult)
      && (Z.abs (mdet t24) * mult =? 13824)
      && Qeq_bool (Qabs dq * inject_Z mult) 1
      && opt_str_eqb (centring_class tr) (class_of c)
  | _, _, _ => false end.

Definition chk_centring (t : sgtable) (hm : string) (mats : list (string * list (list Q))) : bool :=
  match conv_trans t, transform_of mats (hm_centring hm) with
  | Some tr, Some tq => centring_ok_on tr (hm_centring hm) tq
  | _, _ => false end.

(* diagnostics for the harness: the sub-clauses of one group *)
Definition centring_diag (t : sgtable) (hm : string) (mats : list (string * list (list Q))) : list bool :=
  match conv_trans t, transform_of mats (hm_centring hm) with
  | Some tr, Some tq =>
      match times24 tq, mult_of (hm_centring hm), qdet3 tq with
      | Some t24, Some mult, Some dq =>
          let s := inverse_candidate t24 in
          let L := centrings tr in
          [true; m3_eqb (mmul t24 s) m24 && m3_eqb (mmul s t24) m24; lattice_ok s L;
           (Z.of_nat (List.length L) =? mult); (Z.abs (mdet t24) * mult =? 13824) && Qeq_bool (Qabs dq * inject_Z mult) 1;
           opt_str_eqb (centring_class tr) (class_of (hm_centring hm))]
      | _, _, _ => [false; false; false; false; false; false] end
  | _, _ => [false; false; false; false; false; false] end.

(* all groups at once: tables and symbols are both indexed by sg - 1 *)
Definition chk_centring_all (tables : list sgtable) (hms : list string) (mats : list (string * list (list Q))) : bool :=
  (List.length tables =? List.length hms)%nat
  && forallb (fun th => chk_centring (fst th) (snd th) mats) (combine tables hms).

(* ---------- the cell arithmetic of _get_primitive_system over Q --------------------------------- *)
Definition qv3 := (Q * Q * Q)%type.
Definition qm3' := (qv3 * qv3 * qv3)%type.
Definition to_qm3 (m : list (list Q)) : option qm3' :=
  match m with
  | [[a; b; c]; [d; e; f]; [g; h; i]] => Some ((a, b, c), (d, e, f), (g, h, i))
  | _ => None end.
Definition qdet (m : qm3') : Q :=
  let '((a, b, c), (d, e, f), (g, h, i)) := m in
  (a * (e * i - f * h) - b * (d * i - f * g) + c * (d * h - e * g))%Q.
(* prim_cell = transform.T @ conv_cell  (rows are lattice vectors) *)
Definition prim_cell (t a : qm3') : qm3' :=
  let '((t11, t12, t13), (t21, t22, t23), (t31, t32, t33)) := t in
  let '((a11, a12, a13), (a21, a22, a23), (a31, a32, a33)) := a in
  ((t11 * a11 + t21 * a21 + t31 * a31, t11 * a12 + t21 * a22 + t31 * a32, t11 * a13 + t21 * a23 + t31 * a33),
   (t12 * a11 + t22 * a21 + t32 * a31, t12 * a12 + t22 * a22 + t32 * a32, t12 * a13 + t22 * a23 + t32 * a33),
   (t13 * a11 + t23 * a21 + t33 * a31, t13 * a12 + t23 * a22 + t33 * a32, t13 * a13 + t23 * a23 + t33 * a33))%Q.
