(* What the boolean checkers of GroupChecks.v mean. *)
From Coq Require Import ZArith List String Bool Lia.
Import ListNotations.
From MV Require Import Symmetry.Table Symmetry.Affine Reflect.GroupChecks.
Open Scope Z_scope.

Lemma nodup_by_NoDup {A} (eqb : A -> A -> bool) (l : list A) :
  (forall a b, eqb a b = true <-> a = b) -> nodup_by eqb l = true -> NoDup l.
Proof.
  intros Heq. induction l as [|x r IH]; simpl; intros H; [constructor|].
  apply andb_true_iff in H. destruct H as [Hn Hr]. constructor; [|apply IH; exact Hr].
  intro Hin. apply negb_true_iff in Hn.
  assert (existsb (eqb x) r = true) as Hc.
  { apply existsb_exists. exists x. split; [exact Hin | apply Heq; reflexivity]. }
  congruence.
Qed.

Lemma closed_ops_sound G :
  closed_ops G = true -> forall a b, In a G -> In b G -> In (op_compose a b) G.
Proof.
  unfold closed_ops. intros H a b Ha Hb.
  rewrite forallb_forall in H. specialize (H a Ha). rewrite forallb_forall in H.
  apply op_mem_In. apply H. exact Hb.
Qed.

Lemma subset_ops_sound A B : subset_ops A B = true -> forall a, In a A -> In a B.
Proof.
  unfold subset_ops. intros H a Ha. rewrite forallb_forall in H. apply op_mem_In. apply H. exact Ha.
Qed.

(* ---- the action on expressions is the action on points, for every parameter value ---------- *)
Definition op_apply (g : op) (p : v3) : v3 := v3mod (vadd (mvec (fst g) p) (snd g)).

Lemma mod24_add_l a b : mod24 (mod24 a + b) = mod24 (a + b).
Proof. unfold mod24. apply Z.add_mod_idemp_l. lia. Qed.
Lemma mod24_add_r a b : mod24 (a + mod24 b) = mod24 (a + b).
Proof. unfold mod24. apply Z.add_mod_idemp_r. lia. Qed.
Lemma mod24_mul_r k a : mod24 (k * mod24 a) = mod24 (k * a).
Proof. unfold mod24. apply Z.mul_mod_idemp_r. lia. Qed.

Lemma mod24_lin3 k1 k2 k3 a b c t :
  mod24 (k1 * mod24 a + k2 * mod24 b + k3 * mod24 c + t) = mod24 (k1 * a + k2 * b + k3 * c + t).
Proof.
  unfold mod24.
  rewrite (Z.add_mod (k1 * (a mod 24) + k2 * (b mod 24) + k3 * (c mod 24)) t) by lia.
  rewrite (Z.add_mod (k1 * (a mod 24) + k2 * (b mod 24)) (k3 * (c mod 24))) by lia.
  rewrite (Z.add_mod (k1 * (a mod 24)) (k2 * (b mod 24))) by lia.
  rewrite !Z.mul_mod_idemp_r by lia.
  rewrite <- (Z.add_mod (k1 * a) (k2 * b)) by lia.
  rewrite <- (Z.add_mod (k1 * a + k2 * b) (k3 * c)) by lia.
  rewrite <- (Z.add_mod (k1 * a + k2 * b + k3 * c) t) by lia.
  reflexivity.
Qed.

(* evaluating the transformed expression = transforming the evaluated point *)
Theorem act_eval g e w : aff_eval (act g e) w = op_apply g (aff_eval e w).
Proof.
  destruct g as [[[[[r11 r12] r13] [[r21 r22] r23]] [[r31 r32] r33]] [[t1 t2] t3]].
  destruct e as [[[[[m11 m12] m13] [[m21 m22] m23]] [[m31 m32] m33]] [[c1 c2] c3]].
  destruct w as [[w1 w2] w3].
  unfold aff_eval, act, op_apply, v3mod, vadd, mvec, mtrans, mcol, dot3; simpl.
  rewrite !mod24_lin3.
  f_equal; [f_equal|].
  - rewrite mod24_add_r. f_equal. ring.
  - rewrite mod24_add_r. f_equal. ring.
  - rewrite mod24_add_r. f_equal. ring.
Qed.

(* ---- orbits ------------------------------------------------------------------------------- *)
Lemma orbit_ok_sound G tr w :
  orbit_ok G tr w = true ->
  NoDup (full_exprs tr w)
  /\ (forall g e, In g G -> In e (full_exprs tr w) -> In (act g e) (full_exprs tr w))
  /\ (exists e1, hd_error (iw_exprs w) = Some e1 /\
      forall e, In e (full_exprs tr w) -> exists g, In g G /\ act g e1 = e).
Proof.
  unfold orbit_ok. intros H. cbv zeta in H.
  rewrite !andb_true_iff in H. destruct H as [[Hnd Hcl] Horb].
  split; [|split].
  - apply (nodup_by_NoDup aff_eqb); [apply aff_eqb_eq | exact Hnd].
  - intros g e Hg He. rewrite forallb_forall in Hcl. specialize (Hcl g Hg).
    rewrite forallb_forall in Hcl. apply aff_mem_In. apply Hcl. exact He.
  - destruct (iw_exprs w) as [|e1 es]; [discriminate|]. exists e1. split; [reflexivity|].
    intros e He. rewrite forallb_forall in Horb. specialize (Horb e He).
    apply existsb_exists in Horb. destruct Horb as [g [Hg Hge]]. exists g. split; [exact Hg|].
    apply aff_eqb_eq. exact Hge.
Qed.

(* point-level reading: for every parameter value the positions of a letter are permuted by every
   group operation and form a single orbit of the first representative *)
Corollary orbit_points G tr w :
  orbit_ok G tr w = true ->
  forall (wv : v3),
    let pts := map (fun e => aff_eval e wv) (full_exprs tr w) in
    (forall g p, In g G -> In p pts -> In (op_apply g p) pts)
    /\ (exists e1, hd_error (iw_exprs w) = Some e1 /\
        forall p, In p pts -> exists g, In g G /\ op_apply g (aff_eval e1 wv) = p).
Proof.
  intros H wv pts. destruct (orbit_ok_sound G tr w H) as [_ [Hcl [e1 [He1 Horb]]]].
  split.
  - intros g p Hg Hp. apply in_map_iff in Hp. destruct Hp as [e [<- He]].
    rewrite <- act_eval. apply in_map_iff. exists (act g e). split; [reflexivity|]. apply Hcl; assumption.
  - exists e1. split; [exact He1|]. intros p Hp. apply in_map_iff in Hp. destruct Hp as [e [<- He]].
    destruct (Horb e He) as [g [Hg Hge]]. exists g. split; [exact Hg|]. rewrite <- act_eval, Hge. reflexivity.
Qed.

(* ---- the group clause ------------------------------------------------------------------------- *)
Lemma chk_group_on_sound tr gp ref :
  chk_group_on tr gp ref = true ->
  NoDup (group_ops tr gp)
  /\ In (mid, (0, 0, 0)) (group_ops tr gp)
  /\ (forall a b, In a (group_ops tr gp) -> In b (group_ops tr gp) -> In (op_compose a b) (group_ops tr gp))
  /\ (forall g, In g (group_ops tr gp) <-> In g ref)
  /\ (forall g, In g (group_ops tr gp) -> mdet (fst g) = 1 \/ mdet (fst g) = -1).
Proof.
  unfold chk_group_on. intros H. cbv zeta in H.
  rewrite !andb_true_iff in H.
  destruct H as [[[[[[[_ Hdet] Hnd] Hid] Hcl] Hs1] Hs2] _].
  split; [|split; [|split; [|split]]].
  - apply (nodup_by_NoDup op_eqb); [apply op_eqb_eq | exact Hnd].
  - apply op_mem_In. exact Hid.
  - apply closed_ops_sound. exact Hcl.
  - intro g. split; [apply subset_ops_sound; exact Hs1 | apply subset_ops_sound; exact Hs2].
  - intros g Hg. rewrite forallb_forall in Hdet. specialize (Hdet g Hg).
    rewrite andb_true_iff, orb_true_iff, !Z.eqb_eq in Hdet. tauto.
Qed.
