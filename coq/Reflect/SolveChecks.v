(* C08 -- boolean checker over one space-group table for the fact the parameter solver needs
   ("first_rep_solvable"): in the FIRST representative of every Wyckoff position, for every free
   variable idx, a component with coefficient 1 exists, and the component the code READS
   (rule = true: the first such component icomp; rule = false: component idx, which is what the
   statement `W[idx] = R[idx] - C[idx]` does) carries variable idx with coefficient exactly 1 and no
   other variable.  Executable; the meaning is proved in Symmetry/ParamSolveProofs.v. *)
From Coq Require Import ZArith List String Bool.
Import ListNotations.
From MV Require Import Symmetry.Table Symmetry.Affine Symmetry.ParamSolve Reflect.GroupChecks.
Open Scope Z_scope.

(* M[idx][r] = 1 and M[j][r] = 0 for the other two variables j *)
Definition col_only (M : m3) (idx r : nat) : bool :=
  forallb (fun j => if Nat.eqb j idx then vget (mrow M j) r =? 1 else vget (mrow M j) r =? 0) [0; 1; 2]%nat.

Definition var_solvable (rule : bool) (M : m3) (idx : nat) : bool :=
  match first_one (mrow M idx) with
  | Some icomp => col_only M idx (if rule then icomp else idx)
  | None => false end.

Definition entry_solvable (rule : bool) (vars : list string) (e1 : aff) : bool :=
  forallb (fun idx => if has_var vars idx then var_solvable rule (aM e1) idx else true) [0; 1; 2]%nat.

Definition wyck_solvable (rule : bool) (w : iwyck) : bool :=
  match iw_exprs w with e1 :: _ => entry_solvable rule (iw_vars w) e1 | [] => false end.

Definition chk_solvable (rule : bool) (t : sgtable) : bool :=
  match conv_wycks t with Some ws => forallb (wyck_solvable rule) ws | None => false end.

(* offenders: the letters whose first representative the code cannot solve *)
Definition solvable_offenders (rule : bool) (t : sgtable) : list string :=
  match conv_wycks t with
  | Some ws => map iw_letter (filter (fun w => negb (wyck_solvable rule w)) ws)
  | None => ["(table does not convert)"%string] end.
Definition all_solvable_offenders (rule : bool) (ts : list sgtable) : list (Z * string) :=
  flat_map (fun t => map (fun l => (sg_num t, l)) (solvable_offenders rule t)) ts.

(* the entries worth keeping in every sample: a coefficient other than 0/1 in the first
   representative, or a free variable read from a component other than its own index *)
Definition first_rep_special (w : iwyck) : bool :=
  match iw_exprs w with
  | e1 :: _ =>
      let '(r1, r2, r3) := aM e1 in
      let odd (v : v3) := let '(a, b, c) := v in
        negb (((a =? 0) || (a =? 1)) && ((b =? 0) || (b =? 1)) && ((c =? 0) || (c =? 1))) in
      odd r1 || odd r2 || odd r3
      || existsb (fun idx => has_var (iw_vars w) idx &&
                             match first_one (mrow (aM e1) idx) with Some ic => negb (Nat.eqb ic idx) | None => true end)
                 [0; 1; 2]%nat
  | [] => true end.
