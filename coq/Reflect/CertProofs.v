(* What the boolean certificate check [cert_ok] of NormChecks.v means.

   A Wyckoff "family" is a parametrised affine position  W |-> W.M + c/24  (M = aM e indexed
   [variable][component], c = ac e).  [cert_ok n e1 targets c = true] says: the image under the
   operation n of the family e1 is, as a set of points of Q^3 (no reduction modulo 1), exactly the
   family e2 = targets[lc_j c] translated by the integer lattice vector lc_z c.  The witnesses for
   the two inclusions are the reparametrisations  W' = W.A + s  and  W = (W' - s).B. *)
From Coq Require Import ZArith QArith List String Bool Lia.
Import ListNotations.
From MV Require Import Symmetry.Table Symmetry.Affine Reflect.GroupChecks Reflect.NormChecks.
Open Scope Z_scope.

(* ---------- rational evaluation of a parametrised position ----------------------------------- *)
Definition q3 := (Q * Q * Q)%type.

Definition aff_evalQ (e : aff) (W : q3) : q3 :=
  let '(w1, w2, w3) := W in
  let '((m11, m12, m13), (m21, m22, m23), (m31, m32, m33)) := aM e in
  let '(c1, c2, c3) := ac e in
  (w1 * inject_Z m11 + w2 * inject_Z m21 + w3 * inject_Z m31 + inject_Z c1 / 24,
   w1 * inject_Z m12 + w2 * inject_Z m22 + w3 * inject_Z m32 + inject_Z c2 / 24,
   w1 * inject_Z m13 + w2 * inject_Z m23 + w3 * inject_Z m33 + inject_Z c3 / 24)%Q.

Definition q3eq (a b : q3) : Prop :=
  let '(a1, a2, a3) := a in let '(b1, b2, b3) := b in (a1 == b1 /\ a2 == b2 /\ a3 == b3)%Q.
Definition q3add (a b : q3) : q3 :=
  let '(a1, a2, a3) := a in let '(b1, b2, b3) := b in (a1 + b1, a2 + b2, a3 + b3)%Q.
Definition z_as_Q (z : v3) : q3 := let '(z1, z2, z3) := z in (inject_Z z1, inject_Z z2, inject_Z z3).

(* the two reparametrisations, for certificate data in explicit 3x3 / length-3 form *)
Definition q3_linmap (W : q3) (A : qm3) : q3 :=
  let '(w1, w2, w3) := W in
  (qdot [w1; w2; w3] (qcol A 0), qdot [w1; w2; w3] (qcol A 1), qdot [w1; w2; w3] (qcol A 2)).
Definition q3_add_list (W : q3) (s : list Q) : q3 :=
  let '(w1, w2, w3) := W in (w1 + nth 0 s 0, w2 + nth 1 s 0, w3 + nth 2 s 0)%Q.
Definition q3_sub_list (W : q3) (s : list Q) : q3 :=
  let '(w1, w2, w3) := W in (w1 - nth 0 s 0, w2 - nth 1 s 0, w3 - nth 2 s 0)%Q.

(* ---------- shape inversion ------------------------------------------------------------------ *)
Lemma len3_inv {A} (l : list A) : (List.length l =? 3)%nat = true -> exists a b c, l = [a; b; c].
Proof.
  intros H. apply Nat.eqb_eq in H.
  destruct l as [|a [|b [|c [|d r]]]]; try discriminate H.
  exists a, b, c. reflexivity.
Qed.

Lemma shape33_inv (m : qm3) : shape33 m = true ->
  exists a11 a12 a13 a21 a22 a23 a31 a32 a33,
    m = [[a11; a12; a13]; [a21; a22; a23]; [a31; a32; a33]].
Proof.
  unfold shape33. intros H. apply andb_true_iff in H. destruct H as [Hl Hr].
  destruct (len3_inv m Hl) as [r1 [r2 [r3 ->]]].
  cbn [forallb] in Hr. rewrite !andb_true_iff in Hr. destruct Hr as [H1 [H2 [H3 _]]].
  destruct (len3_inv r1 H1) as [a11 [a12 [a13 ->]]].
  destruct (len3_inv r2 H2) as [a21 [a22 [a23 ->]]].
  destruct (len3_inv r3 H3) as [a31 [a32 [a33 ->]]].
  exists a11, a12, a13, a21, a22, a23, a31, a32, a33. reflexivity.
Qed.

(* ---------- reading the list equalities -------------------------------------------------------- *)
Lemma qlist_eqb3 a b c a' b' c' :
  qlist_eqb [a; b; c] [a'; b'; c'] = true -> (a == a' /\ b == b' /\ c == c')%Q.
Proof.
  unfold qlist_eqb. cbn [List.length combine forallb fst snd].
  rewrite !andb_true_iff, !Qeq_bool_iff. tauto.
Qed.

Lemma qmat_eqb3 (r1 r2 r3 r1' r2' r3' : list Q) :
  qmat_eqb [r1; r2; r3] [r1'; r2'; r3'] = true ->
  qlist_eqb r1 r1' = true /\ qlist_eqb r2 r2' = true /\ qlist_eqb r3 r3' = true.
Proof.
  unfold qmat_eqb. cbn [List.length combine forallb fst snd].
  rewrite !andb_true_iff. tauto.
Qed.

Lemma qvecmat33 v1 v2 v3 m11 m12 m13 m21 m22 m23 m31 m32 m33 :
  qvecmat [v1; v2; v3] [[m11; m12; m13]; [m21; m22; m23]; [m31; m32; m33]]
  = [v1 * m11 + (v2 * m21 + (v3 * m31 + 0)); v1 * m12 + (v2 * m22 + (v3 * m32 + 0));
     v1 * m13 + (v2 * m23 + (v3 * m33 + 0))]%Q.
Proof. reflexivity. Qed.

Lemma qmatmul33 (r1 r2 r3 : list Q) (m : qm3) :
  qmatmul [r1; r2; r3] m = [qvecmat r1 m; qvecmat r2 m; qvecmat r3 m].
Proof. reflexivity. Qed.

(* ---------- the two linear identities, one component at a time (pure Q) ------------------------ *)
Local Open Scope Q_scope.

(* image of family 1 lies in family 2 + z:  uses M1' = A M2 and the constant equation *)
Lemma comp_fwd (w1 w2 w3 a11 a12 a13 a21 a22 a23 a31 a32 a33 s1 s2 s3 m1 m2 m3 n1 n2 n3 c1 c2 z d : Q) :
  m1 == a11 * n1 + (a12 * n2 + (a13 * n3 + 0)) ->
  m2 == a21 * n1 + (a22 * n2 + (a23 * n3 + 0)) ->
  m3 == a31 * n1 + (a32 * n2 + (a33 * n3 + 0)) ->
  d == c1 - c2 - 24 * z ->
  d == 24 * (s1 * n1 + (s2 * n2 + (s3 * n3 + 0))) ->
  w1 * m1 + w2 * m2 + w3 * m3 + c1 / 24
  == ((w1 * a11 + (w2 * a21 + (w3 * a31 + 0)) + s1) * n1
      + (w1 * a12 + (w2 * a22 + (w3 * a32 + 0)) + s2) * n2
      + (w1 * a13 + (w2 * a23 + (w3 * a33 + 0)) + s3) * n3 + c2 / 24) + z.
Proof.
  intros H1 H2 H3 Hd Hc.
  assert (Hc1 : c1 == c2 + 24 * z + 24 * (s1 * n1 + (s2 * n2 + (s3 * n3 + 0)))).
  { rewrite <- Hc, Hd. ring. }
  rewrite H1, H2, H3, Hc1. field.
Qed.

(* family 2 + z lies in the image of family 1:  uses M2 = B M1' and the constant equation *)
Lemma comp_bwd (w1 w2 w3 b11 b12 b13 b21 b22 b23 b31 b32 b33 s1 s2 s3 m1 m2 m3 n1 n2 n3 c1 c2 z d : Q) :
  n1 == b11 * m1 + (b12 * m2 + (b13 * m3 + 0)) ->
  n2 == b21 * m1 + (b22 * m2 + (b23 * m3 + 0)) ->
  n3 == b31 * m1 + (b32 * m2 + (b33 * m3 + 0)) ->
  d == c1 - c2 - 24 * z ->
  d == 24 * (s1 * n1 + (s2 * n2 + (s3 * n3 + 0))) ->
  (w1 * n1 + w2 * n2 + w3 * n3 + c2 / 24) + z
  == ((w1 - s1) * b11 + ((w2 - s2) * b21 + ((w3 - s3) * b31 + 0))) * m1
     + ((w1 - s1) * b12 + ((w2 - s2) * b22 + ((w3 - s3) * b32 + 0))) * m2
     + ((w1 - s1) * b13 + ((w2 - s2) * b23 + ((w3 - s3) * b33 + 0))) * m3 + c1 / 24.
Proof.
  intros H1 H2 H3 Hd Hc.
  assert (Hc1 : c1 == c2 + 24 * z + 24 * (s1 * n1 + (s2 * n2 + (s3 * n3 + 0)))).
  { rewrite <- Hc, Hd. ring. }
  rewrite Hc1, H1, H2, H3. field.
Qed.

Lemma inject_Z_d (c1 c2 z : Z) :
  inject_Z (c1 - c2 - 24 * z) == inject_Z c1 - inject_Z c2 - 24 * inject_Z z.
Proof.
  unfold Z.sub. rewrite !inject_Z_plus, !inject_Z_opp, inject_Z_mult. reflexivity.
Qed.
Local Close Scope Q_scope.

(* ---------- the check without the table lookup ------------------------------------------------- *)
Definition cert_eqs (E1 e2 : aff) (c : lcert) : bool :=
  let M1 := m3_to_q (aM E1) in
  let M2 := m3_to_q (aM e2) in
  let d := vsub (vsub (ac E1) (ac e2)) (vscale 24 (lc_z c)) in
  shape33 (lc_A c) && shape33 (lc_B c) && (List.length (lc_s c) =? 3)%nat
  && qmat_eqb M1 (qmatmul (lc_A c) M2)
  && qmat_eqb M2 (qmatmul (lc_B c) M1)
  && qlist_eqb (v3_to_q d) (map (fun x => (24 * x)%Q) (qvecmat (lc_s c) M2)).

Lemma cert_ok_unfold n e1 targets c :
  cert_ok n e1 targets c =
  match nth_error targets (lc_j c) with
  | None => false
  | Some e2 => cert_eqs (act n e1) e2 c end.
Proof. reflexivity. Qed.

Lemma cert_eqs_sound (E1 e2 : aff) (c : lcert) :
  cert_eqs E1 e2 c = true ->
  (forall W, q3eq (aff_evalQ E1 W)
                  (q3add (aff_evalQ e2 (q3_add_list (q3_linmap W (lc_A c)) (lc_s c))) (z_as_Q (lc_z c))))
  /\ (forall W', q3eq (q3add (aff_evalQ e2 W') (z_as_Q (lc_z c)))
                      (aff_evalQ E1 (q3_linmap (q3_sub_list W' (lc_s c)) (lc_B c)))).
Proof.
  destruct c as [j z A B s]. unfold cert_eqs. cbn [lc_j lc_z lc_A lc_B lc_s]. cbv zeta.
  intros H. rewrite !andb_true_iff in H.
  destruct H as [[[[[HsA HsB] Hss] HA] HB] Hc].
  destruct (shape33_inv A HsA) as [a11 [a12 [a13 [a21 [a22 [a23 [a31 [a32 [a33 ->]]]]]]]]].
  destruct (shape33_inv B HsB) as [b11 [b12 [b13 [b21 [b22 [b23 [b31 [b32 [b33 ->]]]]]]]]].
  destruct (len3_inv s Hss) as [s1 [s2 [s3 ->]]].
  clear HsA HsB Hss.
  destruct E1 as [[[[[m11 m12] m13] [[m21 m22] m23]] [[m31 m32] m33]] [[c1 c2] c3]].
  destruct e2 as [[[[[n11 n12] n13] [[n21 n22] n23]] [[n31 n32] n33]] [[k1 k2] k3]].
  destruct z as [[z1 z2] z3].
  cbn [aM ac m3_to_q v3_to_q vsub vscale] in HA, HB, Hc.
  rewrite qmatmul33, !qvecmat33 in HA, HB. rewrite qvecmat33 in Hc.
  cbn [map] in Hc.
  apply qmat_eqb3 in HA. destruct HA as [HA1 [HA2 HA3]].
  apply qlist_eqb3 in HA1. destruct HA1 as [HA11 [HA12 HA13]].
  apply qlist_eqb3 in HA2. destruct HA2 as [HA21 [HA22 HA23]].
  apply qlist_eqb3 in HA3. destruct HA3 as [HA31 [HA32 HA33]].
  apply qmat_eqb3 in HB. destruct HB as [HB1 [HB2 HB3]].
  apply qlist_eqb3 in HB1. destruct HB1 as [HB11 [HB12 HB13]].
  apply qlist_eqb3 in HB2. destruct HB2 as [HB21 [HB22 HB23]].
  apply qlist_eqb3 in HB3. destruct HB3 as [HB31 [HB32 HB33]].
  apply qlist_eqb3 in Hc. destruct Hc as [Hc1 [Hc2 Hc3]].
  split.
  - intros [[w1 w2] w3].
    unfold q3eq, q3add, z_as_Q, aff_evalQ, q3_add_list, q3_linmap, qdot, qcol.
    cbn [aM ac map nth combine fold_right fst snd].
    split; [|split].
    + exact (comp_fwd _ _ _ _ _ _ _ _ _ _ _ _ _ _ _ _ _ _ _ _ _ _ _ _ _
               HA11 HA21 HA31 (inject_Z_d c1 k1 z1) Hc1).
    + exact (comp_fwd _ _ _ _ _ _ _ _ _ _ _ _ _ _ _ _ _ _ _ _ _ _ _ _ _
               HA12 HA22 HA32 (inject_Z_d c2 k2 z2) Hc2).
    + exact (comp_fwd _ _ _ _ _ _ _ _ _ _ _ _ _ _ _ _ _ _ _ _ _ _ _ _ _
               HA13 HA23 HA33 (inject_Z_d c3 k3 z3) Hc3).
  - intros [[w1 w2] w3].
    unfold q3eq, q3add, z_as_Q, aff_evalQ, q3_linmap, q3_sub_list, qdot, qcol.
    cbn [aM ac map nth combine fold_right fst snd].
    split; [|split].
    + exact (comp_bwd _ _ _ _ _ _ _ _ _ _ _ _ _ _ _ _ _ _ _ _ _ _ _ _ _
               HB11 HB21 HB31 (inject_Z_d c1 k1 z1) Hc1).
    + exact (comp_bwd _ _ _ _ _ _ _ _ _ _ _ _ _ _ _ _ _ _ _ _ _ _ _ _ _
               HB12 HB22 HB32 (inject_Z_d c2 k2 z2) Hc2).
    + exact (comp_bwd _ _ _ _ _ _ _ _ _ _ _ _ _ _ _ _ _ _ _ _ _ _ _ _ _
               HB13 HB23 HB33 (inject_Z_d c3 k3 z3) Hc3).
Qed.

(* ---------- the theorem ------------------------------------------------------------------------- *)
Theorem cert_ok_sound (n : op) (e1 : aff) (targets : list aff) (c : lcert) :
  cert_ok n e1 targets c = true ->
  exists e2, nth_error targets (lc_j c) = Some e2 /\
    (* image of family 1 lies in family 2, shifted by the integer lattice vector z *)
    (forall W, exists W', q3eq (aff_evalQ (act n e1) W) (q3add (aff_evalQ e2 W') (z_as_Q (lc_z c))))
    /\
    (* and conversely every point of family 2 (+ z) is the image of a point of family 1 *)
    (forall W', exists W, q3eq (q3add (aff_evalQ e2 W') (z_as_Q (lc_z c))) (aff_evalQ (act n e1) W)).
Proof.
  rewrite cert_ok_unfold. destruct (nth_error targets (lc_j c)) as [e2|]; [|discriminate].
  intros H. exists e2. split; [reflexivity|].
  destruct (cert_eqs_sound (act n e1) e2 c H) as [Hf Hb].
  split.
  - intros W. exists (q3_add_list (q3_linmap W (lc_A c)) (lc_s c)). apply Hf.
  - intros W'. exists (q3_linmap (q3_sub_list W' (lc_s c)) (lc_B c)). apply Hb.
Qed.

(* the same with the witnesses named: W' = W.A + s and W = (W' - s).B *)
Corollary cert_ok_sound_witnesses (n : op) (e1 : aff) (targets : list aff) (c : lcert) :
  cert_ok n e1 targets c = true ->
  exists e2, nth_error targets (lc_j c) = Some e2 /\
    (forall W, q3eq (aff_evalQ (act n e1) W)
                    (q3add (aff_evalQ e2 (q3_add_list (q3_linmap W (lc_A c)) (lc_s c))) (z_as_Q (lc_z c))))
    /\ (forall W', q3eq (q3add (aff_evalQ e2 W') (z_as_Q (lc_z c)))
                        (aff_evalQ (act n e1) (q3_linmap (q3_sub_list W' (lc_s c)) (lc_B c)))).
Proof.
  rewrite cert_ok_unfold. destruct (nth_error targets (lc_j c)) as [e2|]; [|discriminate].
  intros H. exists e2. split; [reflexivity|]. exact (cert_eqs_sound (act n e1) e2 c H).
Qed.

(* non-vacuity: the operation x |-> x + (1/2,0,0) maps the line (x,0,0) onto itself; the
   certificate reparametrises by s = (1/2,0,0) *)
Example cert_ok_nonvacuous :
  let e := mkAff ((1, 0, 0), (0, 0, 0), (0, 0, 0)) (0, 0, 0) in
  let i3 := [[1; 0; 0]; [0; 1; 0]; [0; 0; 1]]%Q in
  cert_ok (mid, (12, 0, 0)) e [mkAff mid (0, 0, 0); e] (mkLC 1 (0, 0, 0) i3 i3 [1 # 2; 0; 0]%Q) = true.
Proof. vm_compute. reflexivity. Qed.

(* ---------- a whole normalizer -------------------------------------------------------------------- *)
Lemma letters_ok_sound tr ws n p cs : letters_ok tr ws n p cs = true ->
  forall w c, In (w, c) (combine ws cs) ->
    exists l' w' e1, perm_get p (iw_letter w) = Some l' /\ find_wyck ws l' = Some w'
                     /\ hd_error (iw_exprs w) = Some e1
                     /\ cert_ok n e1 (full_exprs tr w') c = true.
Proof.
  unfold letters_ok. intros H w c Hin.
  apply andb_true_iff in H. destruct H as [_ H].
  rewrite forallb_forall in H. specialize (H (w, c) Hin). cbv beta iota in H.
  destruct (perm_get p (iw_letter w)) as [l'|] eqn:Hp; [|discriminate H].
  destruct (iw_exprs w) as [|e1 es] eqn:He; [discriminate H|].
  destruct (find_wyck ws l') as [w'|] eqn:Hw; [|discriminate H].
  exists l', w', e1.
  split; [reflexivity|]. split; [exact Hw|]. split; [reflexivity|]. exact H.
Qed.

(* every letter of the table has its certificate: the lists have equal length *)
Lemma letters_ok_length tr ws n p cs : letters_ok tr ws n p cs = true -> List.length cs = List.length ws.
Proof.
  unfold letters_ok. intros H. apply andb_true_iff in H. destruct H as [H _].
  apply Nat.eqb_eq. exact H.
Qed.

Print Assumptions cert_ok_sound.
Print Assumptions letters_ok_sound.
