// C ABI around the *current* matid/ext/{geometry,celllist}.cpp (celllist.h is included with private
// members made visible so that the bin geometry of CellList is observable).  Loaded through ctypes by harness/lib/extshim.py.
#include <vector>
#include <string>
#include <memory>
#include <stdexcept>
#include <unordered_map>
#include <tuple>
#include <cstring>
#include <new>
#include <pybind11/numpy.h>
#define private public   /* CellList's bin geometry is observed by the C16 check */
#include "celllist.h"
#undef private
#include "geometry.h"
namespace py = pybind11;

static thread_local std::string last_error;
static int fail(const char* kind, const char* what) { last_error = std::string(kind) + ":" + what; return 1; }
#define GUARD(body) try { body; return 0; } \
    catch (const std::invalid_argument& e) { return fail("ValueError", e.what()); } \
    catch (const std::bad_alloc& e) { return fail("MemoryError", e.what()); } \
    catch (const std::length_error& e) { return fail("MemoryError", e.what()); } \
    catch (const std::exception& e) { return fail("RuntimeError", e.what()); }

extern "C" {
const char* ms_last_error() { return last_error.c_str(); }

// ---- extend_system ---------------------------------------------------------------------
int ms_extend_system(const double* pos, const int* nums, long n, const double* cell, const bool* pbc,
                     double cutoff, void** out, long* n_out) {
    GUARD(
        auto P = py::array_t<double>::wrap(const_cast<double*>(pos), {n, 3});
        auto Z = py::array_t<int>::wrap(const_cast<int*>(nums), {n});
        auto C = py::array_t<double>::wrap(const_cast<double*>(cell), {3, 3});
        auto B = py::array_t<bool>::wrap(const_cast<bool*>(pbc), {3});
        ExtendedSystem* s = new ExtendedSystem(extend_system(P, Z, C, B, cutoff));
        *out = s; *n_out = s->indices.size();
    )
}
void ms_extended_copy(void* h, double* pos, int* nums, int* indices, double* factors) {
    ExtendedSystem* s = (ExtendedSystem*)h; long n = s->indices.size();
    std::memcpy(pos, s->positions.data(), sizeof(double)*3*n);
    std::memcpy(nums, s->atomic_numbers.data(), sizeof(int)*n);
    std::memcpy(indices, s->indices.data(), sizeof(int)*n);
    std::memcpy(factors, s->factors.data(), sizeof(double)*3*n);
}
void ms_extended_free(void* h) { delete (ExtendedSystem*)h; }

// ---- cell list ---------------------------------------------------------------------------
int ms_get_cell_list(const double* pos, long n, const double* cell, const bool* pbc,
                     double extension, double cutoff, void** out) {
    GUARD(
        auto P = py::array_t<double>::wrap(const_cast<double*>(pos), {n, 3});
        auto C = py::array_t<double>::wrap(const_cast<double*>(cell), {3, 3});
        auto B = py::array_t<bool>::wrap(const_cast<bool*>(pbc), {3});
        *out = new CellList(get_cell_list(P, C, B, extension, cutoff));
    )
}
int ms_cell_list_new(const double* pos, const int* indices, const double* factors, long n, double cutoff, void** out) {
    GUARD(
        auto P = py::array_t<double>::wrap(const_cast<double*>(pos), {n, 3});
        auto I = py::array_t<int>::wrap(const_cast<int*>(indices), {n});
        auto F = py::array_t<double>::wrap(const_cast<double*>(factors), {n, 3});
        *out = new CellList(P, I, F, cutoff);
    )
}
void ms_cell_list_free(void* h) { delete (CellList*)h; }
// xmin,xmax,ymin,ymax,zmin,zmax,dx,dy,dz ; nx,ny,nz ; number of stored positions
void ms_cell_list_geometry(void* h, double* g, long* n) {
    CellList* c = (CellList*)h;
    g[0]=c->xmin; g[1]=c->xmax; g[2]=c->ymin; g[3]=c->ymax; g[4]=c->zmin; g[5]=c->zmax;
    g[6]=c->dx; g[7]=c->dy; g[8]=c->dz; n[0]=c->nx; n[1]=c->ny; n[2]=c->nz; n[3]=(long)c->positions.size();
}
int ms_query_position(void* h, double x, double y, double z, void** out, long* n_out) {
    GUARD(
        CellListResult* r = new CellListResult(((CellList*)h)->get_neighbours_for_position(x, y, z));
        *out = r; *n_out = (long)r->indices.size();
    )
}
int ms_query_index(void* h, int idx, void** out, long* n_out) {
    GUARD(
        CellListResult* r = new CellListResult(((CellList*)h)->get_neighbours_for_index(idx));
        *out = r; *n_out = (long)r->indices.size();
    )
}
void ms_result_copy(void* h, int* indices, int* indices_original, double* distances, double* distances_squared,
                    double* displacements, double* factors) {
    CellListResult* r = (CellListResult*)h; size_t n = r->indices.size();
    for (size_t i = 0; i < n; ++i) {
        indices[i] = r->indices[i]; indices_original[i] = r->indices_original[i];
        distances[i] = r->distances[i]; distances_squared[i] = r->distances_squared[i];
        for (int k = 0; k < 3; ++k) { displacements[3*i+k] = r->displacements[i][k]; factors[3*i+k] = r->factors[i][k]; }
    }
}
void ms_result_free(void* h) { delete (CellListResult*)h; }

// ---- displacement tensor (writes into the caller's arrays, like the pybind11 binding) --------
int ms_get_displacement_tensor(double* disp, double* dist, double* factors, const double* pos, long n,
                               const double* cell, const bool* pbc, double cutoff, bool rf, bool rd) {
    GUARD(
        auto D = py::array_t<double>::wrap(disp, {n, n, 3});
        auto M = py::array_t<double>::wrap(dist, {n, n});
        auto F = py::array_t<double>::wrap(factors, {n, n, 3});
        auto P = py::array_t<double>::wrap(const_cast<double*>(pos), {n, 3});
        auto C = py::array_t<double>::wrap(const_cast<double*>(cell), {3, 3});
        auto B = py::array_t<bool>::wrap(const_cast<bool*>(pbc), {3});
        get_displacement_tensor(D, M, F, P, C, B, cutoff, rf, rd);
    )
}
}
