// Minimal stand-in for the subset of pybind11 used by matid/ext/{geometry,celllist}.cpp.
// pybind11 itself is not installed in this sandbox, so ext.cpp cannot be rebuilt; this header
// lets the two implementation files be recompiled unchanged from /repo's working tree.
#pragma once
#include <vector>
#include <memory>
#include <initializer_list>
#include <cstddef>
#include <cmath>
#include <stdexcept>
#include <unordered_map>
#include <tuple>
#include <string>
namespace pybind11 {
typedef long ssize_t;
template <typename T, int N> struct proxy {
    T* d; std::vector<ssize_t> s;
    ssize_t shape(int i) const { return s[i]; }
    T& operator()(ssize_t i) const { return d[i]; }
    T& operator()(ssize_t i, ssize_t j) const { return d[i*s[1]+j]; }
    T& operator()(ssize_t i, ssize_t j, ssize_t k) const { return d[(i*s[1]+j)*s[2]+k]; }
};
template <typename T> struct array_t {
    std::shared_ptr<T> buf; std::vector<ssize_t> shp;
    array_t() {}
    array_t(std::initializer_list<ssize_t> s) : shp(s) { alloc(); }
    array_t(const std::vector<ssize_t>& s) : shp(s) { alloc(); }
    // view on caller-owned memory (numpy buffer handed over through ctypes)
    static array_t wrap(T* p, std::initializer_list<ssize_t> s) {
        array_t a; a.shp = s; a.buf = std::shared_ptr<T>(p, [](T*){}); return a;
    }
    void alloc() {
        ssize_t n = 1; for (auto x : shp) n *= x;
        if (n < 0) throw std::length_error("negative array size");
        buf = std::shared_ptr<T>(new T[n](), std::default_delete<T[]>());
    }
    ssize_t shape(int i) const { return shp[i]; }
    ssize_t size() const { ssize_t n = 1; for (auto x : shp) n *= x; return n; }
    T* data() const { return buf.get(); }
    template <int N> proxy<const T, N> unchecked() const { return proxy<const T, N>{buf.get(), shp}; }
    template <int N> proxy<T, N> mutable_unchecked() { return proxy<T, N>{buf.get(), shp}; }
};
}
