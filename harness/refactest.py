#!/venv/bin/python
"""Run checks against a BEHAVIOUR-PRESERVING change of /repo (a refactoring patch produced independently):
the checks must stay silent.  (Exception by design, DESIGN section 2.1: a check whose model is re-translated from
the source fail-closed reports `no-failing-input-found` when the translated statement itself is rewritten.)

  harness/refactest.py <patch.diff> <name> C09 C10 ...

Applies the patch in the scratch worktree /tmp/refacwt-<name> (never in /repo), runs every listed check with
VERIF_REPO pointing there, records the outcome in /verif/refactorings/<name>/{patch.diff, meta.json}."""
import json
import os
import shutil
import subprocess
import sys

VERIF = os.path.dirname(os.path.dirname(os.path.abspath(__file__)))


def sh(cmd, cwd=None, env=None, timeout=7200):
    r = subprocess.run(cmd, shell=True, cwd=cwd, env=env, capture_output=True, text=True, timeout=timeout)
    return r.returncode, r.stdout + r.stderr


def main():
    patch, name, pids = sys.argv[1], sys.argv[2], sys.argv[3:]
    wt = "/tmp/refacwt-%s" % name
    if not os.path.exists(wt):
        rc, out = sh("git -C /repo worktree add --detach %s HEAD && cp /repo/matid/ext*.so %s/matid/" % (wt, wt))
        assert rc == 0, out
    sh("git checkout -- . && git clean -fdq -e 'matid/ext*.so'", cwd=wt)
    rc, out = sh("git apply %s" % patch, cwd=wt)
    meta = {"name": name, "patch_applies": rc == 0, "repo_head": sh("git -C /repo rev-parse --short HEAD")[1].strip(), "checks": {}}
    if rc == 0:
        env = dict(os.environ, PYTHONPATH=wt, PYTHONHASHSEED="0")
        rct, outt = sh("/venv/bin/python -m pytest -q -p no:cacheprovider --timeout=900 -W ignore tests", cwd=wt, env=env, timeout=3600)
        meta["tests"] = ([l for l in outt.splitlines() if "passed" in l or "failed" in l][-1:] or ["?"])[0]
        envc = dict(os.environ, VERIF_REPO=wt, VERIF_JOBS=os.environ.get("VERIF_JOBS", "8"))
        for pid in pids:
            rcc, outc = sh("/venv/bin/python harness/check.py %s --tier quick" % pid, cwd=VERIF, env=envc)
            lines = [l[:300] for l in outc.splitlines() if l.startswith("VIOLATION") or l.startswith(pid + " tier")]
            meta["checks"][pid] = {"rc": rcc, "lines": lines}
    meta["silent"] = bool(meta["patch_applies"]) and all(v["rc"] == 0 for v in meta["checks"].values())
    out_dir = os.path.join(VERIF, "refactorings", name)
    os.makedirs(out_dir, exist_ok=True)
    if os.path.abspath(patch) != os.path.abspath(os.path.join(out_dir, "patch.diff")):
        shutil.copy(patch, os.path.join(out_dir, "patch.diff"))
    note = patch.replace("patch", "note").replace(".diff", ".md")
    if os.path.exists(note) and os.path.abspath(note) != os.path.abspath(os.path.join(out_dir, "note.md")):
        shutil.copy(note, os.path.join(out_dir, "note.md"))
    meta["verif_commit"] = sh("git -C %s rev-parse --short HEAD" % VERIF)[1].strip()
    with open(os.path.join(out_dir, "meta.json"), "w") as f:
        json.dump(meta, f, indent=1)
    sh("git checkout -- .", cwd=wt)
    print(json.dumps({"name": name, "silent": meta["silent"], "checks": {k: v["rc"] for k, v in meta["checks"].items()}}))


if __name__ == "__main__":
    main()
