#!/venv/bin/python
"""Confirm a seeded change and run the property's check against it.

  harness/seedtest.py <PROPERTY> <seed-dir> <k> [--tier quick|thorough] [--skip-tests]

<seed-dir> holds patch<k>.diff, demo<k>.py, note<k>.md (written by an independent sub-agent that saw
only the property text).  Steps, all in a scratch worktree /tmp/seedwt-<PROPERTY> of /repo's HEAD (never
/repo itself while other work is running there; equivalent to apply + checkout on /repo):
  1. demo passes on the unchanged tree        2. patch applies
  3. existing test suite passes with the patch 4. demo fails with the patch
  5. the check (VERIF_REPO=worktree) -> VIOLATION or not; replay kept
Result: /verif/seeded/<PROPERTY>-<name>/{patch.diff, demo.py, note.md, meta.json}
"""
import json
import os
import shutil
import subprocess
import sys
import time

VERIF = os.path.dirname(os.path.dirname(os.path.abspath(__file__)))


def sh(cmd, cwd=None, env=None, timeout=7200):
    r = subprocess.run(cmd, shell=True, cwd=cwd, env=env, capture_output=True, text=True, timeout=timeout)
    return r.returncode, (r.stdout + r.stderr)


def main():
    if sys.argv[1] == "--rerun":
        # harness/seedtest.py --rerun <seeded-name> [--skip-tests]: re-run a kept seed against the current check
        name0 = sys.argv[2]
        pid = name0.split("-")[0]
        sdir = os.path.join("/tmp", "reseed", name0)
        os.makedirs(sdir, exist_ok=True)
        src = os.path.join(VERIF, "seeded", name0)
        shutil.copy(os.path.join(src, "patch.diff"), os.path.join(sdir, "patchR.diff"))
        shutil.copy(os.path.join(src, "demo.py"), os.path.join(sdir, "demoR.py"))
        if os.path.exists(os.path.join(src, "note.md")):
            shutil.copy(os.path.join(src, "note.md"), os.path.join(sdir, "noteR.md"))
        k = "R"
        RERUN_NAME = name0
    else:
        pid, sdir, k = sys.argv[1], sys.argv[2], sys.argv[3]
        RERUN_NAME = None
    tier = "quick"
    if "--tier" in sys.argv:
        tier = sys.argv[sys.argv.index("--tier") + 1]
    skip_tests = "--skip-tests" in sys.argv
    wt = "/tmp/seedwt-%s" % pid
    patch = os.path.join(sdir, "patch%s.diff" % k)
    demo = os.path.join(sdir, "demo%s.py" % k)
    note = os.path.join(sdir, "note%s.md" % k)
    meta = {"property": pid, "source": "independent sub-agent given only the property text and a scratch worktree",
            "repo_head": sh("git -C /repo rev-parse --short HEAD")[1].strip(), "tier": tier, "ran": []}
    if not os.path.exists(wt):
        rc, out = sh("git -C /repo worktree add --detach %s HEAD && cp /repo/matid/ext*.so %s/matid/" % (wt, wt))
        assert rc == 0, out
    sh("git checkout -q --detach %s && git checkout -- . && git clean -fdq -e 'matid/ext*.so'" % meta["repo_head"], cwd=wt)
    env = dict(os.environ, PYTHONPATH=wt, PYTHONHASHSEED="0", VERIF_REPO=wt)
    with open(patch) as f:
        cxx = "matid/ext/" in f.read()
    if cxx:
        # C++ seeds: the demo rebuilds the extension through the kit the sub-agent was given (/tmp/cxxkit = a copy of
        # cxx/ + harness/lib/extshim.py); here it is pointed at /verif's own copy
        with open(demo) as f:
            dtxt = f.read().replace("/tmp/cxxkit/harness", os.path.join(VERIF, "harness"))
        demo = os.path.join(sdir, "demo%s.verif.py" % k)
        with open(demo, "w") as f:
            f.write(dtxt)
        meta["cxx"] = True
    rc0, out0 = sh("/venv/bin/python %s" % demo, cwd=wt, env=env, timeout=1800)
    meta["demo_unchanged_rc"] = rc0
    meta["ran"].append("demo on unchanged worktree -> rc %d" % rc0)
    rc, out = sh("git apply %s" % patch, cwd=wt)
    meta["patch_applies"] = rc == 0
    if rc != 0:
        meta["error"] = out[-500:]
    else:
        if not skip_tests:
            t0 = time.time()
            if cxx:   # the suite against the rebuilt C++ sources (98 geometry + clustering tests); the plain suite uses the shipped binary
                rct, outt = sh("/venv/bin/python %s" % os.path.join(VERIF, "harness", "cxx_tests.py"), cwd=wt, env=env, timeout=3600)
            else:
                rct, outt = sh("/venv/bin/python -m pytest -q -p no:cacheprovider --timeout=900 -W ignore tests", cwd=wt, env=env, timeout=3600)
            tail = [l for l in outt.splitlines() if "passed" in l or "failed" in l][-1:] or [outt[-200:]]
            meta["tests_with_patch"] = {"rc": rct, "summary": tail[0], "wall_s": round(time.time() - t0)}
            meta["ran"].append("pytest tests (with patch) -> %s" % tail[0])
        rc1, out1 = sh("/venv/bin/python %s" % demo, cwd=wt, env=env, timeout=1800)
        meta["demo_patched_rc"] = rc1
        meta["demo_patched_output"] = out1[-800:]
        meta["ran"].append("demo with patch -> rc %d" % rc1)
        envc = dict(os.environ, VERIF_REPO=wt, VERIF_JOBS=os.environ.get("VERIF_JOBS", "8"))
        t0 = time.time()
        rcc, outc = sh("/venv/bin/python harness/check.py %s --tier %s" % (pid, tier), cwd=VERIF, env=envc, timeout=7200)
        lines = [l for l in outc.splitlines() if l.startswith("VIOLATION") or l.startswith("KNOWN-FINDING") or l.startswith(pid + " tier")]
        meta["check"] = {"rc": rcc, "lines": lines, "wall_s": round(time.time() - t0)}
        meta["detected"] = rcc == 1 and any(l.startswith("VIOLATION") for l in lines)
        meta["detected_with_failing_input"] = any(l.startswith("VIOLATION") and "no-failing-input-found" not in l for l in lines)
        meta["ran"].append("VERIF_REPO=%s harness/check.py %s --tier %s -> rc %d" % (wt, pid, tier, rcc))
        sh("git checkout -- .", cwd=wt)
    meta["valid_seed"] = bool(meta.get("patch_applies") and rc0 == 0 and meta.get("demo_patched_rc", 0) != 0
                              and (skip_tests or meta.get("tests_with_patch", {}).get("rc") == 0))
    name = RERUN_NAME or "%s-%s-%s" % (pid, os.path.basename(sdir.rstrip("/")).replace("seedout-", "s"), k)
    out_dir = os.path.join(VERIF, "seeded", name)
    os.makedirs(out_dir, exist_ok=True)
    shutil.copy(patch, os.path.join(out_dir, "patch.diff"))
    shutil.copy(demo, os.path.join(out_dir, "demo.py"))
    if os.path.exists(note):
        shutil.copy(note, os.path.join(out_dir, "note.md"))
        with open(note) as f:
            meta["needs_to_manifest"] = f.read()[:1500]
    # keep the outcome of earlier runs (checks are strengthened over time): history = oldest first
    mp = os.path.join(out_dir, "meta.json")
    hist = []
    if os.path.exists(mp):
        try:
            with open(mp) as f:
                old = json.load(f)
            hist = old.get("history", [])
            hist.append({"verif_commit": old.get("verif_commit"), "detected": old.get("detected"),
                         "detected_with_failing_input": old.get("detected_with_failing_input"), "check": old.get("check")})
        except Exception:
            pass
    meta["history"] = hist
    meta["verif_commit"] = sh("git -C %s rev-parse --short HEAD" % VERIF)[1].strip()
    with open(mp, "w") as f:
        json.dump(meta, f, indent=1)
    print(json.dumps({k2: meta[k2] for k2 in ("property", "valid_seed", "detected", "detected_with_failing_input") if k2 in meta}), meta.get("check", {}).get("lines"))


if __name__ == "__main__":
    main()
