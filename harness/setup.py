#!/venv/bin/python
"""MANIFEST.setup_cmd: build the static Coq theory (full .vo), run the forbidden-construct gate.
Everything else (generated tables, reflection instances, property files, the C++ shim build) is
rebuilt by the checks from /repo's working tree."""
import os, sys
sys.path.insert(0, os.path.dirname(os.path.abspath(__file__)))
from lib import common as C

bad = C.forbidden_gate()
if bad:
    print("forbidden constructs:", bad); sys.exit(1)
ok, out = C.coq_static_build()
print(out[-2000:])
if not ok:
    sys.exit(1)
# warm the content-addressed caches (every check re-validates them against /repo's current tree):
# the C++ shim build and the translated space-group tables with their reflection instances
try:
    from lib import extshim
    print("shim:", extshim.build())
except Exception as e:  # the checks report this themselves
    print("shim build failed:", e)
try:
    from lib import symtables as S
    C.STATIC_TARGETS = None
    r = S.build()
    print("tables: ok=%s cached=%s wall=%.0fs" % (r["ok"], r["cached"], r.get("wall_s", 0)))
except Exception as e:
    print("table warm-up failed:", e)
sys.exit(0)
