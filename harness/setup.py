#!/venv/bin/python
"""MANIFEST.setup_cmd: build the static Coq theory (full .vo), run the forbidden-construct gate.
Everything else (generated tables, reflection instances, property files, the C++ shim build) is
rebuilt by the checks from /repo's working tree."""
import os, sys
sys.path.insert(0, os.path.dirname(os.path.abspath(__file__)))
from lib import common as C

bad = C.forbidden_gate()
if bad:
    print("forbidden constructs:", bad); sys.exit(1)
ok, out = C.coq_static_build()
print(out[-2000:])
sys.exit(0 if ok else 1)
