"""Run the repository's geometry + clustering tests against the CURRENT C++ sources of the tree in the cwd
(the shipped matid/ext*.so cannot be rebuilt; harness/lib/extshim.py compiles the sources against the stand-in headers):
   cd <tree> && PYTHONPATH=<tree> /venv/bin/python /verif/harness/cxx_tests.py"""
import os
import sys

os.environ.setdefault("VERIF_REPO", os.getcwd())
sys.path.insert(0, os.path.dirname(os.path.abspath(__file__)))
from lib import extshim  # noqa: E402

print("ext mode:", extshim.install(force=True))
import pytest  # noqa: E402

sys.exit(pytest.main(["-q", "-p", "no:cacheprovider", "-W", "ignore", "tests/test_geometry.py", "tests/clustering"]))
