#!/venv/bin/python
"""Prints the markdown table of DESIGN.md section 9 from seeded/*/meta.json."""
import glob
import json
import os

V = os.path.dirname(os.path.dirname(os.path.abspath(__file__)))
rows = []
for mp in sorted(glob.glob(os.path.join(V, "seeded", "*", "meta.json"))):
    m = json.load(open(mp))
    name = os.path.basename(os.path.dirname(mp))
    note = (m.get("needs_to_manifest") or "").strip().splitlines()
    title = next((l.lstrip("# ").strip() for l in note if l.strip()), "")[:110]
    hist = m.get("history") or []
    first = hist[0] if hist else None
    now = "caught, failing input" if m.get("detected_with_failing_input") else ("caught, no-failing-input-found" if m.get("detected") else "MISSED")
    was = ""
    if first is not None:
        f = "caught, failing input" if first.get("detected_with_failing_input") else ("caught, no input" if first.get("detected") else "missed")
        if f != now.replace("no-failing-input-found", "no input"):
            was = " (first run: %s)" % f
    rows.append("| %s | %s | %s | %s%s |" % (name, m.get("property"), title.replace("|", "/"), now, was))
print("| seeded change | property | what it is | outcome of the property's quick check |")
print("|---|---|---|---|")
print("\n".join(rows))
