#!/venv/bin/python
"""Entry point of every check:  harness/check.py <ID> [--tier quick|thorough] [--replay file]

exit 0 : the property held on everything explored (KNOWN-FINDING lines allowed)
exit 1 : prints `VIOLATION property=<id> replay=<path>[ no-failing-input-found]`
Evidence is rewritten on every run, also on failure.
"""
import argparse
import importlib
import json
import os
import sys
import traceback

HERE = os.path.dirname(os.path.abspath(__file__))
sys.path.insert(0, HERE)
from lib import common as C  # noqa: E402


def main():
    ap = argparse.ArgumentParser()
    ap.add_argument("pid")
    ap.add_argument("--tier", default=os.environ.get("VERIF_TIER", "quick"))
    ap.add_argument("--replay", default=None)
    ap.add_argument("--seed", type=int, default=None)
    a = ap.parse_args()
    pid = a.pid.upper()
    tier = a.tier if a.tier in ("quick", "thorough") else "quick"
    seed = a.seed if a.seed is not None else int(os.environ.get("VERIF_SEED", "20260929") or 0)
    mod = importlib.import_module("props." + pid.lower())
    ctx = C.Ctx(pid, tier, seed, level=getattr(mod, "LEVEL", "proof"))
    ctx.is_replay = bool(a.replay)      # a replay does not rewrite evidence/<id>.json (that file describes a check run)
    for t in C.base_trusted():
        ctx.add_trusted(t)
    rc = 0
    try:
        bad = C.forbidden_gate()
        if bad:
            ctx.violation({"kind": "forbidden-construct", "where": bad,
                           "broken": "grep gate: Admitted/Axiom/... present in the Coq development"},
                          found_input=False)
        C.STATIC_TARGETS = getattr(mod, "STATIC", None)
        ok, out = C.coq_static_build(C.STATIC_TARGETS)
        if not ok:
            ctx.notes.append("static theory build failed")
            ctx.violation({"kind": "static-build-failed", "output": out[-3000:],
                           "broken": "hand-written theory no longer compiles"}, found_input=False)
        else:
            if a.replay:
                with open(a.replay) as f:
                    rep = json.load(f)
                mod.replay(ctx, rep)
            else:
                mod.run(ctx)
    except Exception:
        tb = traceback.format_exc()
        C.log(tb)
        ctx.notes.append("harness exception: " + tb[-1500:])
        ctx.violation({"kind": "harness-exception", "traceback": tb[-4000:],
                       "broken": "the check itself crashed; the property is not shown to hold"},
                      found_input=False)
    finally:
        ctx.write_evidence()
    if ctx.violations:
        rc = 1
    print("%s tier=%s seed=%d obligations=%s/%s cases=%d violations=%d known=%d wall=%.1fs" % (
        pid, tier, seed, ctx.coverage.get("discharged"), ctx.coverage.get("obligations"),
        ctx.coverage.get("evaluations", 0), ctx.violations, ctx.known_printed,
        __import__("time").time() - ctx.t0))
    sys.exit(rc)


if __name__ == "__main__":
    main()
