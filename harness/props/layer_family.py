"""Layer family of C11: flat and buckled (thickness <= 3 A) layers in the symmorphic space groups that are
compatible with a layer, monolayers from ase.build, and re-presentations of one layer (vacuum, axis
relabelling, in-plane supercells, rigid motions incl. flips, translations, atom order).

A (space group, axis) pair is *layer compatible* when, in the first Hall setting of spglib's database,
  * the group is symmorphic (every translation part is a centring vector),
  * every rotation matrix is block diagonal w.r.t. that axis (maps the axis onto +-itself and the plane
    spanned by the two other axes onto itself) -- so the crystal system allows the axis to be
    perpendicular to the two others (property precondition),
  * no centring vector has a component along the axis.
A layer is generated as a 3D crystal of that group (K.orbit on representative points, letters from the
MatID tables exactly as lib/crystals.py does) whose lattice has the chosen axis long and perpendicular
and whose atoms lie in a thin range along it; then pbc is false on that axis.

All randomness comes from the random.Random instance handed in.
"""
import itertools
import math

import numpy as np

from lib import crystals as K

_SETTINGS = None


def layer_settings():
    """[(sg, axis)] computed from spglib's Hall database (see module docstring)"""
    global _SETTINGS
    if _SETTINGS is not None:
        return _SETTINGS
    out = []
    for sg in range(1, 195):                      # cubic groups have no invariant axis
        R, t = K.ref_ops(sg)
        ident = [i for i in range(len(R)) if np.array_equal(R[i], np.eye(3, dtype=int))]
        cent = [t[i] % 1.0 for i in ident]

        def is_cent(v):
            for c in cent:
                d = np.abs((v - c + 0.5) % 1.0 - 0.5)
                if d.max() < 1e-9:
                    return True
            return False
        if not all(is_cent(tt % 1.0) for tt in t):
            continue                              # not symmorphic in this setting
        for ax in range(3):
            oth = [i for i in range(3) if i != ax]
            if any(r[ax, j] != 0 or r[j, ax] != 0 for r in R for j in oth):
                continue
            if any(abs(c[ax]) > 1e-9 for c in cent):
                continue
            # the axis can be perpendicular to the two others within the crystal system (standard axes):
            # triclinic/monoclinic/orthorhombic by a special choice of the free angles, tetragonal and
            # trigonal/hexagonal only for c
            if sg >= 75 and ax != 2:
                continue
            out.append((sg, ax))
    _SETTINGS = out
    return out


def layer_groups():
    return sorted({sg for sg, _ in layer_settings()})


def _inplane_cell(sg, ax, rng):
    """cell (rows) with axis `ax` of unit length along a direction perpendicular to the two in-plane
    vectors; the in-plane metric respects the crystal system of sg (standard axes)."""
    s = K.crystal_system(sg)
    a = rng.uniform(3.2, 5.8)
    ratio = rng.uniform(1.12, 1.45)
    oth = [i for i in range(3) if i != ax]
    lens = [0.0, 0.0, 0.0]
    lens[oth[0]] = a
    lens[oth[1]] = a * ratio
    lens[ax] = 1.0
    ang = [90.0, 90.0, 90.0]          # alpha (b,c), beta (a,c), gamma (a,b)
    inplane_angle_index = ax           # the angle between the two axes other than ax is angle number ax
    if s == "triclinic":
        ang[inplane_angle_index] = rng.choice([rng.uniform(62, 82), rng.uniform(98, 115)])
    elif s == "monoclinic":
        if ax == 1:
            ang[1] = rng.uniform(98, 115)      # beta is the free angle and lies in the layer plane
    elif s == "tetragonal":
        lens[oth[1]] = a
    elif s in ("trigonal", "hexagonal"):
        lens[oth[1]] = a
        ang[2] = 120.0
    return K.cellpar_to_cell(lens[0], lens[1], lens[2], *ang), lens


def make_layer(sg, ax, rng, tables, n_orbits=None, flat=False, max_atoms=60, tries=30, min_dist=0.7):
    """Returns a layer dict or None.  The cell's normal vector has length Lc = thickness + 10 A."""
    letters = K.table_letters(tables, sg)
    gen_mult = max(m for _, m, _ in letters)
    for _ in range(tries):
        cell1, lens = _inplane_cell(sg, ax, rng)
        half = 0.0 if flat else rng.uniform(0.15, 1.5)       # half thickness in A
        Lc = 2 * half + 10.0
        cell = np.array(cell1)
        cell[ax] = cell1[ax] * Lc
        n_orb = n_orbits or rng.choice([1, 2, 2, 3])
        zs = rng.sample(K.SPECIES, n_orb)
        pos, nums, meta = [], [], []
        ok = True
        for k in range(n_orb):
            use_general = rng.random() < 0.35
            cands = [(l, m) for l, m, nf in letters]
            kind = "general" if use_general else rng.choice(cands)[0]
            params = [round(rng.uniform(0.03, 0.47), 4) + 0.0137 * (i + 1) for i in range(3)]
            h = rng.uniform(0.25, 1.0) * half / Lc if half > 0 else 0.0
            if k == 0 and half > 0:
                h = half / Lc
            params[ax] = h * rng.choice([-1, 1])
            p = np.array(params) if kind == "general" else K.first_representative(tables, sg, kind, params)
            o = K.orbit(sg, p)
            z = (o[:, ax] + 0.5) % 1.0 - 0.5
            if np.abs(z).max() * Lc > half + 1e-9:
                ok = False                    # a special position pinned at 1/2 along the normal, etc.
                break
            pos.append(o)
            nums += [zs[k]] * len(o)
            meta.append({"kind": kind, "z": zs[k], "size": len(o)})
        if not ok or sum(len(o) for o in pos) > max_atoms:
            continue
        P = np.vstack(pos)
        P[:, ax] = (P[:, ax] + 0.5) % 1.0 - 0.5        # the layer is contiguous around 0 along the normal (K.orbit wraps into [0,1))
        cart = P @ cell
        n = len(P)
        if n > 1:
            shifts = np.array([[i, j, k] for i in (-1, 0, 1) for j in (-1, 0, 1) for k in (-1, 0, 1)]) @ cell
            dmin = np.inf
            for s_ in shifts:
                d = np.linalg.norm(cart[:, None, :] - cart[None, :, :] - s_, axis=2)
                if not s_.any():
                    d = d + np.eye(n) * 1e9
                dmin = min(dmin, d.min())
            if dmin < min_dist:
                continue
        z = P[:, ax]
        thickness = float((z.max() - z.min()) * Lc)
        if not flat and thickness < 0.05:
            continue                          # buckled layers are asked for: keep the two classes apart
        pbc = [True, True, True]
        pbc[ax] = False
        return {"sg": sg, "axis": ax, "cell": cell.tolist(), "scaled_positions": P.tolist(), "numbers": [int(x) for x in nums],
                "pbc": pbc, "orbits": meta, "thickness": thickness, "flat": thickness < 1e-9}
    return None


def padded_crystal(layer, tol_cell=None):
    """the 3D cell the analyzer hands to spglib: the non-periodic vector replaced by max(5, 3 t) (generator-side
    twin of the vacuum rule, used only to *select* family members)"""
    cell = np.array(layer["cell"], dtype=float)
    P = np.array(layer["scaled_positions"], dtype=float)
    ax = [i for i in range(3) if not layer["pbc"][i]][0]
    cart = P @ cell
    L = np.linalg.norm(cell[ax])
    s = P[:, ax]
    t = (s.max() - s.min()) * L
    new = cell.copy()
    new[ax] = cell[ax] / L * max(5.0, 3 * t)
    return {"cell": new.tolist(), "scaled_positions": (cart @ np.linalg.inv(new)).tolist(), "numbers": list(layer["numbers"])}


def stable_layer_group(layer):
    """space group of the padded cell if it is the same at symprec 1e-5 and 1e-3 (else None), as lib/crystals does"""
    return K.stable_group(padded_crystal(layer))


def generate(sg, ax, rng, tables, flat=False, n_orbits=None, tries=10):
    """a layer whose padded 3D cell has the stable spglib group `sg`; returns (layer | None, discarded)"""
    disc = 0
    for _ in range(tries):
        lay = make_layer(sg, ax, rng, tables, n_orbits=n_orbits, flat=flat)
        if lay is None:
            disc += 1
            continue
        if stable_layer_group(lay) != sg:
            disc += 1
            continue
        return lay, disc
    return None, disc


def known_monolayers():
    """graphene, h-BN, MoS2-type (2H and 1T) from ase.build; pbc (T,T,F), c perpendicular"""
    from ase.build import graphene, mx2
    out = []
    for name, at in (("graphene", graphene(vacuum=6.0)),
                     ("h-BN", graphene(formula="BN", a=2.504, vacuum=6.0)),
                     ("MoS2-2H", mx2("MoS2", kind="2H", a=3.18, thickness=3.0, vacuum=6.0)),
                     ("WSe2-2H", mx2("WSe2", kind="2H", a=3.32, thickness=2.9, vacuum=7.0)),
                     ("TiS2-1T", mx2("TiS2", kind="1T", a=3.41, thickness=2.85, vacuum=6.0))):
        at.set_pbc([True, True, False])
        cell = np.array(at.get_cell())
        P = at.get_scaled_positions(wrap=False)
        lay = {"sg": None, "axis": 2, "cell": cell.tolist(), "scaled_positions": P.tolist(),
               "numbers": [int(z) for z in at.get_atomic_numbers()], "pbc": [True, True, False], "name": name,
               "thickness": float((P[:, 2].max() - P[:, 2].min()) * np.linalg.norm(cell[2])), "orbits": []}
        lay["flat"] = lay["thickness"] < 1e-9
        lay["sg"] = stable_layer_group(lay)
        out.append(lay)
    return out


# ---- re-presentations ----------------------------------------------------------------------------------
PERMS = list(itertools.permutations(range(3)))


def _npaxis(layer):
    return [i for i in range(3) if not layer["pbc"][i]][0]


def inplane_supercell(rng, max_det=4):
    while True:
        d = [rng.choice([1, 1, 2, 3]), rng.choice([1, 2, 2, 3, 4])]
        if 1 < d[0] * d[1] <= max_det:
            break
    H = np.array([[d[0], rng.randrange(0, d[1])], [0, d[1]]], dtype=int)
    U = np.eye(2, dtype=int)
    for _ in range(2):
        i, j = rng.sample(range(2), 2)
        E = np.eye(2, dtype=int)
        E[i, j] = rng.choice([-1, 1])
        U = E @ U
    return U @ H


def represent(layer, rng, perm=None, vacuum=None, supercell=False, rotate=True, flip=False, translate=True,
              permute=True, wrap_inplane=True):
    """another description of the same layer; returns (layer, description)"""
    desc = {}
    ax = _npaxis(layer)
    cell = np.array(layer["cell"], dtype=float)
    P = np.array(layer["scaled_positions"], dtype=float)
    nums = list(layer["numbers"])
    if supercell:
        H2 = inplane_supercell(rng)
        oth = [i for i in range(3) if i != ax]
        T = np.eye(3, dtype=int)
        for i in range(2):
            for j in range(2):
                T[oth[i], oth[j]] = H2[i, j]
        t = K.transform_basis({"cell": cell.tolist(), "scaled_positions": P.tolist(),
                               "numbers": nums}, T)
        if t is not None:
            # transform_basis wraps every coordinate into [0,1): undo it along the normal (non-periodic)
            cell2 = np.array(t["cell"])
            P2 = np.array(t["scaled_positions"])
            z0 = P[:, ax]
            ref = z0.min()
            P2[:, ax] = (P2[:, ax] - ref + 0.25) % 1.0 - 0.25 + ref
            cell, P, nums = cell2, P2, list(t["numbers"])
            desc["supercell"] = T.tolist()
    cart = P @ cell
    if vacuum is not None:
        # the layer keeps its cartesian geometry; only the length of the non-periodic cell vector changes
        cell = cell.copy()
        cell[ax] = cell[ax] * vacuum
        desc["vacuum_factor"] = vacuum
    if flip:
        # rotation by pi about the first in-plane cell vector: turns the sheet upside down
        oth = [i for i in range(3) if i != ax]
        u = cell[oth[0]] / np.linalg.norm(cell[oth[0]])
        Rf = 2 * np.outer(u, u) - np.eye(3)
        cell = cell @ Rf.T
        cart = cart @ Rf.T
        desc["flip"] = True
    if rotate:
        R = K.random_rotation(rng, proper=True)
        cell = cell @ R.T
        cart = cart @ R.T
        desc["rotation"] = R.tolist()
    if translate:
        tv = np.array([rng.uniform(-5, 5) for _ in range(3)])
        cart = cart + tv
        desc["translation"] = tv.tolist()
    P = cart @ np.linalg.inv(cell)
    if wrap_inplane:
        P = _wrap_inplane(P, ax)
    pbc = list(layer["pbc"])
    if perm is not None and tuple(perm) != (0, 1, 2):
        perm = list(perm)
        cell = cell[perm]
        P = P[:, perm]
        pbc = [pbc[i] for i in perm]
        desc["axis_permutation"] = perm
    if permute:
        order = list(range(len(nums)))
        rng.shuffle(order)
        P = P[order]
        nums = [nums[i] for i in order]
        desc["permuted"] = True
    out = dict(layer)
    out.update(cell=np.array(cell).tolist(), scaled_positions=np.array(P).tolist(), numbers=nums, pbc=pbc)
    out["axis"] = _npaxis(out)
    return out, desc


def _wrap_inplane(P, ax):
    P = np.array(P, dtype=float)
    for i in range(3):
        if i != ax:
            P[:, i] = P[:, i] % 1.0
    return P


def perpendicular(layer, tol=1e-9):
    cell = np.array(layer["cell"])
    ax = _npaxis(layer)
    n = cell[ax] / np.linalg.norm(cell[ax])
    return all(abs(np.dot(n, cell[i])) <= tol * np.linalg.norm(cell[i]) for i in range(3) if i != ax)
