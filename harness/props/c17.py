"""C17 -- Classifier output is consistent with dimensionality and with its own region.

prove      : Properties/C17.v over Classify/Dispatch.v (finder = universally quantified oracle)
correspond : (i)  public Classifier.classify with PeriodicFinder replaced from the harness by a scripted
                  stub returning real LinkedUnitCollection objects  -> Coq model on the same script
             (ii) real PeriodicFinder wrapped by a logger on the C01 input family -> Coq model replayed
                  on the log; the property's own predicate is evaluated directly on every run
observed   : returns normally, input Atoms deep-equal before/after, repeated call gives the same class
             (these clauses are observed, not proved)
"""
import contextlib
import hashlib
import io
import json
import math
import os
import time
from fractions import Fraction

import numpy as np

from lib import common as C

LEVEL = "proof"
STATIC = ["Classify/DispatchProofs.vo", "Base/CaseUtil.vo"]
PID = "C17"
CORPUS = os.path.join(C.VERIF, "corpus", PID)

PREAMBLE = ("From Coq Require Import List ZArith QArith Bool.\nImport ListNotations.\n"
            "From MV Require Import Classify.Dispatch.\n")

CLASSES = ["Unknown", "Atom", "Class0D", "Class1D", "Class2D", "Surface", "Material2D", "Class3D"]
DEFAULT_CFG = {"pos_tol_mode": "relative", "delaunay_threshold_mode": "relative", "max_cell_size": [12],
               "min_coverage": 0.5, "cluster_threshold": 3.5}

# The combination pos_tol_mode = delaunay_threshold_mode = "absolute" raises TypeError on every 2D
# structure (theorem C17_both_absolute_raises).  A mode string is not one of the property's "varied
# thresholds": the sub-stream is run, compared with the model and reported in the evidence; it is a
# VIOLATION only when this switch is on.
BOTH_ABSOLUTE_IN_FAMILY = os.environ.get("VERIF_C17_MODES_IN_FAMILY", "0") == "1"


# ---------------------------------------------------------------------------------------------
# source facts (ast, fail-closed)
# ---------------------------------------------------------------------------------------------
class TranslationError(Exception):
    pass


def _is_self_attr(node, name):
    import ast
    return isinstance(node, ast.Attribute) and node.attr == name and isinstance(node.value, ast.Name) and node.value.id == "self"


def source_facts(repo=None):
    """Reads the one source fact the model is parametrised by: does the
    `if self.pos_tol_mode == "relative" or self.delaunay_threshold_mode == "relative":` block of
    Classifier.classify have an `else:` assigning `self.abs_pos_tol = self.pos_tol`?  Anything else that
    assigns self.abs_pos_tol inside classify is outside the model: TranslationError."""
    import ast
    path = os.path.join(repo or C.REPO, "matid", "classification", "classifier.py")
    with open(path, encoding="utf-8") as f:
        tree = ast.parse(f.read())
    fn = None
    for cls in tree.body:
        if isinstance(cls, ast.ClassDef) and cls.name == "Classifier":
            for it in cls.body:
                if isinstance(it, ast.FunctionDef) and it.name == "classify":
                    fn = it
    if fn is None:
        raise TranslationError("Classifier.classify not found")

    def is_rel(cmp, attr):
        return (isinstance(cmp, ast.Compare) and _is_self_attr(cmp.left, attr) and len(cmp.ops) == 1 and isinstance(cmp.ops[0], ast.Eq)
                and isinstance(cmp.comparators[0], ast.Constant) and cmp.comparators[0].value == "relative")

    blocks = [n for n in ast.walk(fn) if isinstance(n, ast.If) and isinstance(n.test, ast.BoolOp) and isinstance(n.test.op, ast.Or)
              and len(n.test.values) == 2 and is_rel(n.test.values[0], "pos_tol_mode") and is_rel(n.test.values[1], "delaunay_threshold_mode")]
    if len(blocks) != 1:
        raise TranslationError("expected exactly one `if pos_tol_mode == 'relative' or delaunay_threshold_mode == 'relative'` block, found %d" % len(blocks))
    blk = blocks[0]

    def assigns(nodes):
        out = []
        for st in nodes:
            for n in ast.walk(st):
                if isinstance(n, (ast.Assign, ast.AugAssign, ast.AnnAssign)):
                    tg = n.targets if isinstance(n, ast.Assign) else [n.target]
                    if any(_is_self_attr(t, "abs_pos_tol") for t in tg):
                        out.append(n)
        return out

    inside = assigns(blk.body)
    orelse = assigns(blk.orelse)
    everywhere = assigns(fn.body)
    if len(everywhere) != len(inside) + len(orelse):
        raise TranslationError("self.abs_pos_tol is assigned outside the mode block of classify: not covered by the model")
    if len(inside) != 2:
        raise TranslationError("expected two assignments of self.abs_pos_tol inside the mode block, found %d" % len(inside))
    if not orelse:
        return {"else_assigns": False}
    if len(orelse) == 1 and isinstance(orelse[0], ast.Assign) and _is_self_attr(orelse[0].value, "pos_tol") and orelse[0] in blk.orelse:
        return {"else_assigns": True}
    raise TranslationError("unrecognised else-branch of the mode block")


FACTS = {"else_assigns": False}


def observed_facts():
    """The one fact the model is parametrised by -- when BOTH tolerance modes are "absolute", does classify leave
    self.abs_pos_tol unset (None: the pinned behaviour, TypeError later in the 2D branch) or set it to pos_tol? -- is
    OBSERVED on the running code (a Classifier with both modes absolute classifies a small molecule; the attribute is read
    afterwards).  Unlike reading the AST this survives behaviour-preserving rewrites of classify; source_facts() is still
    evaluated and reported, but only as information."""
    r = C.impl_run("c17_impl", {"facts": True})
    return {"else_assigns": bool(r["facts"]["abs_pos_tol_set_when_both_absolute"])}


# ---------------------------------------------------------------------------------------------
# structures
# ---------------------------------------------------------------------------------------------
def as_case(atoms, **kw):
    d = {"numbers": [int(z) for z in atoms.get_atomic_numbers()],
         "positions": [[float(x) for x in p] for p in atoms.get_positions()],
         "cell": [[float(x) for x in v] for v in np.array(atoms.get_cell())],
         "pbc": [bool(b) for b in atoms.get_pbc()]}
    d.update(kw)
    return d


def to_atoms(case):
    from ase import Atoms
    return Atoms(numbers=case["numbers"], positions=case["positions"], cell=case["cell"], pbc=case["pbc"])


def np_rng(rng):
    return np.random.RandomState(rng.randrange(2 ** 31))


def random_rotation(rng):
    q = np.array([rng.gauss(0, 1) for _ in range(4)])
    q /= np.linalg.norm(q)
    a, b, c, d = q
    return np.array([[a * a + b * b - c * c - d * d, 2 * (b * c - a * d), 2 * (b * d + a * c)],
                     [2 * (b * c + a * d), a * a - b * b + c * c - d * d, 2 * (c * d - a * b)],
                     [2 * (b * d - a * c), 2 * (c * d + a * b), a * a - b * b - c * c + d * d]])


PBCS = [(a, b, c) for a in (True, False) for b in (True, False) for c in (True, False)]


def fam_gas(rng, nmax):
    from ase import Atoms
    n = rng.choice([1, 2, 3, 5, 8, 12, 20, 30, min(nmax, 50)])
    n = min(n, nmax)
    dens = rng.choice([0.002, 0.01, 0.03, 0.06])
    L = max(3.0, (n / dens) ** (1 / 3.0))
    cell = np.diag([L * rng.uniform(0.7, 1.4) for _ in range(3)])
    if rng.random() < 0.5:
        cell[1, 0] = rng.uniform(-0.3, 0.3) * L
        cell[2, 0] = rng.uniform(-0.3, 0.3) * L
        cell[2, 1] = rng.uniform(-0.3, 0.3) * L
    pool = rng.choice([[1], [6, 1], [8, 1, 6], [29], [14, 8], [2], [18, 10]])
    pos = []
    tries = 0
    while len(pos) < n and tries < 5000:
        tries += 1
        p = np.dot([rng.random(), rng.random(), rng.random()], cell)
        if all(np.linalg.norm(p - q) > 0.7 for q in pos):
            pos.append(p)
    return Atoms(numbers=[rng.choice(pool) for _ in pos], positions=pos, cell=cell, pbc=rng.choice(PBCS)), "gas"


BULKS = [("Cu", "fcc", 3.61), ("Al", "fcc", 4.05), ("Fe", "bcc", 2.87), ("W", "bcc", 3.16), ("Si", "diamond", 5.43),
         ("C", "diamond", 3.57), ("NaCl", "rocksalt", 5.64), ("MgO", "rocksalt", 4.21), ("Po", "sc", 3.35),
         ("ZnS", "zincblende", 5.41), ("CsCl", "cesiumchloride", 4.12)]


def fam_crystal(rng, nmax):
    from ase.build import bulk
    name, st, a = rng.choice(BULKS)
    at = bulk(name, st, a=a, cubic=True) if st != "sc" and st != "cesiumchloride" else bulk(name, st, a=a)
    reps = [1, 1, 1]
    for _ in range(6):
        i = rng.randrange(3)
        if len(at) * (reps[0] * reps[1] * reps[2]) * (reps[i] + 1) // reps[i] <= nmax:
            reps[i] += 1
    at = at.repeat(reps)
    nr = np_rng(rng)
    sig = rng.choice([0.0, 0.0, 0.02, 0.05, 0.12])
    if sig:
        at.rattle(sig, rng=nr)
    nv = rng.choice([0, 0, 1, 2, max(1, len(at) // 10)])
    for _ in range(min(nv, len(at) - 1)):
        del at[rng.randrange(len(at))]
    ns = rng.choice([0, 0, 1, 2, max(1, len(at) // 8)])
    nums = at.get_atomic_numbers()
    for _ in range(ns):
        nums[rng.randrange(len(at))] = rng.choice([79, 8, 1, 47, 6])
    at.set_atomic_numbers(nums)
    at.set_pbc(rng.choice(PBCS) if rng.random() < 0.7 else True)
    return at, "crystal"


def fam_slab(rng, nmax):
    import ase.build as B
    kind = rng.choice(["fcc111", "fcc100", "fcc110", "bcc100", "bcc110", "hcp0001", "diamond100", "graphene", "mx2", "stack"])
    vac = rng.choice([2.0, 4.0, 6.0, 8.0, 10.0, 12.0])
    sx, sy = rng.choice([(1, 1), (2, 2), (3, 3), (3, 2), (4, 4), (4, 3)])
    lay = rng.choice([1, 2, 3, 4, 5])
    if kind in ("fcc111", "fcc100", "fcc110"):
        el, a = rng.choice([("Cu", 3.61), ("Al", 4.05), ("Au", 4.08), ("Ni", 3.52)])
        if kind == "fcc111":
            at = B.fcc111(el, size=(sx, sy, lay), a=a, vacuum=vac, orthogonal=(sy % 2 == 0 and rng.random() < 0.5))
        else:
            at = getattr(B, kind)(el, size=(sx, sy, lay), a=a, vacuum=vac)
    elif kind in ("bcc100", "bcc110"):
        el, a = rng.choice([("Fe", 2.87), ("W", 3.16)])
        at = getattr(B, kind)(el, size=(sx, sy, lay), a=a, vacuum=vac)
    elif kind == "hcp0001":
        at = B.hcp0001("Mg", size=(sx, sy, max(2, lay)), a=3.21, c=5.21, vacuum=vac)
    elif kind == "diamond100":
        at = B.diamond100("Si", size=(sx, sy, max(2, lay)), a=5.43, vacuum=vac)
    elif kind == "graphene":
        at = B.graphene(formula=rng.choice(["C2", "BN"]), a=rng.choice([2.46, 2.51]), size=(sx + 1, sy + 1, 1), vacuum=vac)
    elif kind == "mx2":
        at = B.mx2(formula=rng.choice(["MoS2", "WSe2"]), kind="2H", a=3.18, thickness=3.19, size=(sx, sy, 1), vacuum=vac)
    else:
        s1 = B.fcc100("Cu", size=(sx, sx, max(2, lay - 1)), a=3.61, vacuum=0.0)
        s2 = B.fcc100(rng.choice(["Ag", "Ni", "Au"]), size=(sx, sx, 2), a=3.61, vacuum=0.0)
        at = B.stack(s1, s2, maxstrain=None, distance=rng.choice([1.8, 2.1, 3.0]))
        at.center(vacuum=vac, axis=2)
    while len(at) > nmax and lay > 1 and kind not in ("graphene", "mx2", "stack"):
        # drop the top layer
        z = at.get_positions()[:, 2]
        at = at[[i for i in range(len(at)) if z[i] < z.max() - 0.3]]
        lay -= 1
    if len(at) > nmax:
        at = at[list(range(nmax))]
    nads = rng.choice([0, 0, 1, 2, 3])
    if nads and kind not in ("graphene", "mx2"):
        top = at.get_positions()[:, 2].max()
        cellxy = np.array(at.get_cell())[:2, :2]
        for _ in range(nads):
            f = np.array([rng.random(), rng.random()])
            xy = f.dot(cellxy)
            from ase import Atom
            at.append(Atom(rng.choice(["H", "O", "C", "N"]), position=[xy[0], xy[1], top + rng.choice([1.2, 1.6, 2.0])]))
        if vac < 4:
            at.center(vacuum=vac, axis=2)
    if rng.random() < 0.3:
        at.rattle(rng.choice([0.02, 0.06]), rng=np_rng(rng))
    nv = rng.choice([0, 0, 0, 1, 2])
    for _ in range(min(nv, len(at) - 1)):
        del at[rng.randrange(len(at))]
    at.set_pbc(rng.choice([(True, True, True), (True, True, True), (True, True, False), (True, False, True), (False, False, False)]))
    return at, "slab:" + kind


MOLS = ["H2O", "CH4", "C6H6", "CO2", "NH3", "C2H6", "CH3CH2OH", "C60"]


def fam_molecule(rng, nmax):
    from ase.build import molecule
    from ase import Atoms
    name = rng.choice(MOLS[:-1] if nmax < 60 else MOLS)
    at = molecule(name)
    k = rng.choice([1, 1, 2, 3])
    for j in range(1, k):
        m = molecule(rng.choice(MOLS[:6]))
        m.translate([rng.choice([3.0, 5.0, 9.0]) * j, rng.uniform(-1, 1), rng.uniform(-1, 1)])
        at += m
    mode = rng.choice(["nocell", "box", "box", "tightbox"])
    if mode == "nocell":
        at = Atoms(numbers=at.get_atomic_numbers(), positions=at.get_positions())
    else:
        at.center(vacuum=rng.choice([4.0, 6.0]) if mode == "box" else rng.choice([0.6, 1.2, 2.0]))
        at.set_pbc(rng.choice(PBCS))
    return at, "molecule:" + mode


def fam_chain(rng, nmax):
    from ase import Atoms
    import ase.build as B
    kind = rng.choice(["linear", "zigzag", "nanotube", "single", "dimer_row"])
    if kind == "nanotube":
        at = B.nanotube(rng.choice([4, 5, 6]), 0, length=rng.choice([1, 2]), vacuum=rng.choice([5.0, 7.0]))
        at.set_pbc(rng.choice([(True, True, True), (False, False, True)]))
        if len(at) > nmax:
            return fam_chain(rng, nmax)
        return at, "chain:nanotube"
    if kind == "single":
        L = rng.choice([8.0, 12.0, 20.0])
        at = Atoms(rng.choice(["H", "Cu", "Xe", "C"]), positions=[[rng.uniform(0, L), rng.uniform(0, L), rng.uniform(0, L)]],
                   cell=[L, L * 1.1, L * 0.9], pbc=rng.choice(PBCS))
        if rng.random() < 0.3:
            at = Atoms(at.get_chemical_symbols(), positions=at.get_positions())
        return at, "single"
    n = rng.choice([1, 2, 3, 4, 6])
    d = rng.choice([1.4, 2.3, 2.5])
    el = rng.choice(["C", "Cu", "Au", "Si"])
    L = rng.choice([10.0, 14.0])
    pos = []
    for i in range(n):
        y = 0.0
        if kind == "zigzag":
            y = 0.5 * (i % 2)
        pos.append([i * d, L / 2 + y, L / 2])
        if kind == "dimer_row":
            pos.append([i * d, L / 2 + 1.3, L / 2])
    ax = rng.randrange(3)
    at = Atoms(el + str(len(pos)), positions=pos, cell=[n * d, L, L * 1.2], pbc=rng.choice([(True, True, True), (True, False, False), (True, True, False)]))
    if ax:
        perm = [0, 1, 2]
        perm[0], perm[ax] = perm[ax], perm[0]
        at = Atoms(at.get_chemical_symbols(), positions=at.get_positions()[:, perm], cell=np.array(at.get_cell())[perm][:, perm],
                   pbc=at.get_pbc()[perm])
    return at, "chain:" + kind


FAMILIES = [(fam_gas, 2), (fam_crystal, 4), (fam_slab, 6), (fam_molecule, 2), (fam_chain, 2)]


def transform(rng, at):
    """rigid rotation (cell and atoms together), translation, lattice-vector shifts along periodic axes
    (unwrapped atoms), permutation; returns (atoms, tags)"""
    from ase import Atoms
    tags = []
    cell = np.array(at.get_cell())
    pos = at.get_positions()
    pbc = at.get_pbc()
    nums = at.get_atomic_numbers()
    if rng.random() < 0.4:
        R = random_rotation(rng)
        cell = cell.dot(R.T)
        pos = pos.dot(R.T)
        tags.append("rotated")
    if rng.random() < 0.5:
        pos = pos + np.array([rng.uniform(-5, 5) for _ in range(3)])
        tags.append("translated")
    if rng.random() < 0.5 and pbc.any() and abs(np.linalg.det(cell)) > 1e-6:
        for i in range(len(pos)):
            if rng.random() < 0.4:
                for ax in range(3):
                    if pbc[ax]:
                        pos[i] = pos[i] + rng.choice([-2, -1, 0, 0, 1, 3]) * cell[ax]
        tags.append("unwrapped")
    if rng.random() < 0.5 and len(pos) > 1:
        perm = list(range(len(pos)))
        rng.shuffle(perm)
        pos = pos[perm]
        nums = nums[perm]
        tags.append("permuted")
    return Atoms(numbers=nums, positions=pos, cell=cell, pbc=pbc), tags


def random_cfg(rng, allow_modes=True):
    if rng.random() < 0.45:
        return {}
    cfg = {}
    if rng.random() < 0.5:
        cfg["cluster_threshold"] = rng.choice([1.0, 2.0, 3.0, 3.5, 4.5, 0.75])
    if rng.random() < 0.5:
        cfg["min_coverage"] = rng.choice([0.0, 0.1, 0.25, 0.3, 0.5, 0.7, 0.75, 0.9, 1.0])
    if rng.random() < 0.4:
        cfg["max_cell_size"] = rng.choice([12, 8, 6.5, [8, 12], [5, 10], 15.0])
    if rng.random() < 0.4:
        cfg["pos_tol"] = rng.choice([0.5, [0.5], [0.25, 0.75], [0.3, 0.6, 0.9], 0.2, [0.75, 0.25]])
    if rng.random() < 0.3:
        cfg["bond_threshold"] = rng.choice([0.5, 0.75, 1.0])
    if allow_modes and rng.random() < 0.15:
        cfg["pos_tol_mode"] = "absolute"
        cfg["pos_tol"] = rng.choice([0.3, [0.2, 0.6], 0.5])
    if allow_modes and rng.random() < 0.1:
        cfg["delaunay_threshold_mode"] = "absolute" if cfg.get("pos_tol_mode", "relative") == "relative" else "relative"
    return cfg


def gen_real(ctx, n, nmax):
    rng = ctx.rng
    weights = [w for _, w in FAMILIES]
    cases = []
    k = 0
    while len(cases) < n:
        k += 1
        f = rng.choices([f for f, _ in FAMILIES], weights)[0]
        try:
            with contextlib.redirect_stdout(io.StringIO()):   # ase.build.stack prints scipy's optimiser report
                at, fam = f(rng, nmax)
        except Exception as e:  # a generator hiccup (e.g. ase refusing a size) is not a finding
            C.log("[C17] generator %s: %s" % (f.__name__, e))
            continue
        if len(at) == 0 or len(at) > nmax:
            continue
        cell = np.array(at.get_cell())
        if at.get_pbc().any() and abs(np.linalg.det(cell)) < 1e-6:
            continue
        if not at.get_pbc().any() and abs(np.linalg.det(cell)) < 1e-6 and np.abs(cell).max() > 0:
            at.set_cell([0, 0, 0])
        at, tags = transform(rng, at)
        if len(cases) % 6 == 4 and at.get_pbc().any() and np.linalg.det(np.array(at.get_cell())) > 1e-6:
            # the same structure described by a LEFT-handed basis: first two cell vectors (and their pbc flags) exchanged,
            # Cartesian positions untouched (no PRNG draw: the stream of the other cases is unchanged)
            cell2 = np.array(at.get_cell())[[1, 0, 2]]
            pbc2 = np.array(at.get_pbc())[[1, 0, 2]]
            at = at.copy()
            at.set_cell(cell2, scale_atoms=False)
            at.set_pbc(pbc2)
            tags = list(tags) + ["left-handed"]
        cases.append(as_case(at, family=fam, tags=tags, cfg=random_cfg(rng), script=None,
                             extra_arrays=rng.random() < 0.3))
    return cases


# ---- scripted finder --------------------------------------------------------------------------
def small_structure(rng):
    """small structures, mostly two-dimensional so that the finder is consulted"""
    from ase import Atoms
    r = rng.random()
    if r < 0.72:
        nx, ny = rng.choice([(2, 2), (2, 3), (3, 3), (2, 1), (3, 2), (4, 2), (1, 1)])
        a = rng.choice([2.4, 2.5, 2.8])
        c = rng.choice([12.0, 14.0, 17.5])
        pool = rng.choice([[29], [29, 79], [6, 5, 7], [42, 16], [13, 8, 1, 26]])
        pos, nums = [], []
        for i in range(nx):
            for j in range(ny):
                pos.append([i * a, j * a, c / 2 + rng.choice([0.0, 0.0, 0.3])])
                nums.append(rng.choice(pool))
        if rng.random() < 0.3:
            pos.append([0.3, 0.4, c / 2 + 1.7])
            nums.append(8)
        at = Atoms(numbers=nums, positions=pos, cell=[nx * a, ny * a, c], pbc=rng.choice([(True, True, True), (True, True, False)]))
        return at, "sheet"
    if r < 0.8:
        at, f = fam_chain(rng, 12)
        return at, f
    if r < 0.88:
        from ase.build import bulk
        return bulk("Cu", "fcc", a=3.61, cubic=True), "bulk"
    if r < 0.94:
        from ase.build import molecule
        m = molecule(rng.choice(["H2O", "CH4", "CO2"]))
        if rng.random() < 0.5:
            m.center(vacuum=5.0)
            m.set_pbc(rng.choice(PBCS))
        return m, "molecule"
    at, f = fam_gas(rng, 6)
    return at, f


def random_graph(rng):
    nodes = [[] for _ in range(rng.choice([1, 2, 3, 4]))]
    for d in range(3):
        e = [0, 0, 0]
        e[d] = 1
        plus = list(e)
        minus = [-x for x in e]
        mode = rng.choice(["both", "both", "split", "plus", "none", "double"])
        if mode == "both":
            nd = rng.choice(nodes)
            nd.append(plus)
            nd.append(minus)
        elif mode == "split" and len(nodes) > 1:
            i, j = rng.sample(range(len(nodes)), 2)
            nodes[i].append(plus)
            nodes[j].append(minus)
        elif mode == "plus":
            rng.choice(nodes).append(plus)
        elif mode == "double":
            nd = rng.choice(nodes)
            nd.append([2 * x for x in plus])
            nd.append([2 * x for x in minus])
    for _ in range(rng.choice([0, 1, 3])):
        rng.choice(nodes).append([rng.choice([-1, 0, 1]) for _ in range(3)])
    for nd in nodes:
        rng.shuffle(nd)
    return nodes


def random_answer(rng, n, mc, malformed):
    r = rng.random()
    if r < 0.2:
        return None
    idx = list(range(n))
    if r < 0.38:
        chosen = idx
    elif r < 0.45:
        chosen = []
    else:
        target = rng.choice([max(0, math.ceil(mc * n) - 1), math.ceil(mc * n), min(n, math.ceil(mc * n) + 1), rng.randint(0, n), max(0, n - 1)])
        chosen = rng.sample(idx, min(n, max(0, target)))
    chosen = list(chosen)
    if malformed and rng.random() < 0.5:
        chosen.append(n + rng.choice([0, 1, 5]))
    rng.shuffle(chosen)
    units = []
    i = 0
    while i < len(chosen):
        k = rng.choice([1, 2, 3])
        u = chosen[i:i + k]
        if rng.random() < 0.3:
            u = u + [None]
        if rng.random() < 0.2 and chosen:
            u = u + [rng.choice(chosen)]     # the same atom in two units
        units.append(u)
        i += k
    if rng.random() < 0.2:
        units.append([None, None])
    # substitutional defects recorded on the units (atoms of the structure that are NOT basis atoms of the region): they
    # are outliers and do not count towards the coverage; their number is chosen so that basis + substitutions often
    # crosses min_coverage when the basis alone does not
    subs = [[] for _ in units]
    rest = [i for i in idx if i not in set(c for c in chosen if c is not None and c < n)]
    if units and rest and rng.random() < 0.5:
        for i in rng.sample(rest, rng.randint(1, min(len(rest), 4))):
            subs[rng.randrange(len(units))].append(i)
    return {"units": units, "subs": subs, "graph": random_graph(rng), "is_2d": rng.random() < 0.5,
            "cell": not (malformed and rng.random() < 0.4)}


def gen_scripted(ctx, n, malformed_frac=0.12, both_absolute_frac=0.05):
    rng = ctx.rng
    cases = []
    while len(cases) < n:
        at, fam = small_structure(rng)
        if len(at) == 0:
            continue
        at, tags = transform(rng, at)
        cfg = random_cfg(rng)
        stream = "scripted"
        if rng.random() < both_absolute_frac:
            cfg["pos_tol_mode"] = "absolute"
            cfg["delaunay_threshold_mode"] = "absolute"
            cfg["pos_tol"] = rng.choice([0.4, [0.3, 0.5]])
            stream = "scripted-both-absolute"
        malformed = rng.random() < malformed_frac
        if malformed and stream == "scripted":
            stream = "scripted-malformed"
        mc = cfg.get("min_coverage", 0.5)
        nsp = len(set(at.get_atomic_numbers()))
        script = [random_answer(rng, len(at), mc, malformed) for _ in range(nsp * 6 + 2)]
        cases.append(as_case(at, family="scripted:" + fam, tags=tags, cfg=cfg, script=script, stream=stream,
                             extra_arrays=rng.random() < 0.2))
    return cases


# ---------------------------------------------------------------------------------------------
# running
# ---------------------------------------------------------------------------------------------
def run_impl(cases, jobs=None, script="c17_impl"):
    jobs = jobs or C.NCPU
    chunks = [cases[i::jobs] for i in range(jobs)]
    chunks = [c for c in chunks if c]
    outs = C.impl_run_parallel(script, [{"cases": c} for c in chunks])
    rows = {}
    ext = set()
    for o in outs:
        ext.add(o.get("ext"))
        for r in o["rows"]:
            rows[r["id"]] = r
    return rows, sorted(x for x in ext if x)


def cfg_of(case):
    cfg = dict(DEFAULT_CFG)
    cfg.update(case.get("cfg") or {})
    return cfg


def is_both_absolute(case):
    cfg = cfg_of(case)
    return cfg["pos_tol_mode"] == "absolute" and cfg["delaunay_threshold_mode"] == "absolute"


def in_family(case):
    # with the repaired source (else-branch present) the both-absolute configuration must work like any other
    return not is_both_absolute(case) or BOTH_ABSOLUTE_IN_FAMILY or FACTS["else_assigns"]


def f0_ok(row):
    """the finder answers of this run honour F0 (indices in range, prototype cell present)"""
    n = row["n"]
    for obs in (row.get("obs1"), row.get("obs2")):
        for c in (obs or {}).get("calls", []):
            a = c["answer"]
            if a is None:
                continue
            if not a["cell"]:
                return False
            for u in a["units"]:
                for x in u:
                    if x is not None and not (0 <= x < n):
                        return False
    return True


def class_ok(dim, n, cls):
    if dim is None:
        return cls == "Unknown"
    if dim == 0:
        return cls == ("Atom" if n == 1 else "Class0D")
    if dim == 1:
        return cls == "Class1D"
    if dim == 2:
        return cls in ("Class2D", "Surface", "Material2D")
    if dim == 3:
        return cls == "Class3D"
    return False


def predicate(case, row):
    """The property's own predicate, evaluated on what the implementation did.  Returns the list of
    failed clauses (empty = holds)."""
    bad = []
    if "runner_error" in row:
        return ["runner:" + row["runner_error"]]
    if "ctor_error" in row:
        return ["constructor raised: " + row["ctor_error"]]
    o1, o2, fr = row["obs1"], row["obs2"], row["fresh"]
    if o1["kind"] != 0:
        bad.append("does not return a Classification: " + (o1.get("exc") or "returned None"))
        return bad
    n = row["n"]
    dim = row.get("dim")
    if isinstance(dim, str):
        bad.append("independent get_dimensionality failed: " + dim)
    elif not class_ok(dim, n, o1["cls"]):
        bad.append("class %s does not match dimensionality %r of the wrapped structure (n=%d)" % (o1["cls"], dim, n))
    orc = row.get("dim_oracle") or {}
    if orc.get("decided") and not class_ok(orc.get("dim"), n, o1["cls"]):
        bad.append("class %s does not match the dimensionality %r of the wrapped structure computed from first principles "
                   "(brute-force periodic image sums, rank of the cycle-voltage lattice; matid.geometry.get_dimensionality says %r)"
                   % (o1["cls"], orc.get("dim"), dim))
    if not o1.get("atoms_is_input", True):
        bad.append("classification.atoms is not the caller's object")
    if o1["cls"] in ("Surface", "Material2D"):
        if not o1.get("has_region"):
            bad.append("Surface/Material2D without region")
        else:
            if f0_ok(row):
                if not o1["cell"]:
                    bad.append("prototype_cell is None")
                b, o = o1["basis"], o1["outliers"]
                if sorted(b + o) != list(range(n)) or o1["basis_raw_len"] != len(b) or o1["outliers_raw_len"] != len(o):
                    bad.append("basis_indices and outliers do not partition the atoms")
            mc = cfg_of(case)["min_coverage"]
            if not (len(o1["basis"]) / n >= mc):
                bad.append("coverage %d/%d below min_coverage %r" % (len(o1["basis"]), n, mc))
    elif o1.get("has_region"):
        bad.append("%s carries a region" % o1["cls"])
    if not row.get("input_equal_1", False) or not row.get("input_equal", False):
        bad.append("input Atoms modified")
    if o2["kind"] != 0 or o2.get("cls") != o1["cls"] or o2.get("basis") != o1.get("basis"):
        bad.append("repeated call on the same object differs: %s vs %s" % (o1.get("cls"), o2.get("cls") or o2.get("exc")))
    if fr["kind"] != 0 or fr.get("cls") != o1["cls"] or fr.get("basis") != o1.get("basis"):
        bad.append("call on a fresh Classifier differs: %s vs %s" % (o1.get("cls"), fr.get("cls") or fr.get("exc")))
    return bad


# ---- Coq terms -----------------------------------------------------------------------------------
def q_hex(h):
    return C.qlit(Fraction(float.fromhex(h)))


def nat(n):
    return "%d%%nat" % n


def coq_region(rid, a):
    units = C.listlit([C.listlit(["None" if x is None else "(Some %s)" % nat(x) for x in u]) for u in a["units"]])
    graph = C.listlit([C.listlit(["(%s, %s, %s)" % tuple(C.zlit(v) for v in m) for m in nd]) for nd in a["graph"]])
    cell = "(Some %s)" % nat(a.get("n_cell") or 1) if a["cell"] else "None"
    return "(mkRegion %s %s %s %s %s)" % (nat(rid), units, graph, C.boollit(a["is_2d"]), cell)


def coq_call(c):
    return "(%s, %s, %s)" % (nat(c["seed"]), q_hex(c["size"]), q_hex(c["tol"]))


def coq_obs(obs):
    kind = obs["kind"]
    cls = obs.get("cls") if kind == 0 else "Unknown"
    if cls not in CLASSES:
        cls, kind = "Unknown", 3
    hr = bool(obs.get("has_region")) if kind == 0 else False
    return "(mkObs %s %s %s %s %s %s %s %s)" % (
        nat(kind), cls, C.boollit(hr), nat(max(0, obs.get("rid", 0)) if hr else 0),
        C.listlit([nat(i) for i in obs.get("basis", [])] if hr else []),
        C.listlit([nat(i) for i in obs.get("outliers", [])] if hr else []),
        C.boollit(bool(obs.get("cell")) if hr else False),
        C.listlit([coq_call(c) for c in obs["calls"]]))


def effective_min_cov(mc, n, sizes):
    """binary64 `nb / n >= mc` versus the exact comparison: when they differ for a region size that
    occurs, the model is given the exact rational threshold equivalent to the float test for this n
    (the smallest nb/n accepted); such cases are counted as coverage-boundary."""
    exact = Fraction(mc)
    boundary = any(((nb / n) >= mc) != (Fraction(nb, n) >= exact) for nb in sizes) if n else False
    if not boundary:
        return exact, False
    nbmin = None
    for nb in range(0, 4 * n + 8):
        if nb / n >= mc:
            nbmin = nb
            break
    return (Fraction(nbmin, n) if nbmin is not None else exact), True


def coq_term(case, row):
    """closed bool term: Dispatch.agree_twice on this case, or None when the case cannot be expressed"""
    if isinstance(row.get("dim"), str) or "order" not in row or "obs1" not in row:
        return None, False
    cfg = cfg_of(case)
    n = row["n"]
    sizes = cfg["max_cell_size"]
    if isinstance(sizes, (int, float)):
        sizes = [sizes]
    region_sizes = set()
    tbl = []
    seen = set()
    for obs in (row["obs1"], row["obs2"]):
        for k, c in enumerate(obs["calls"]):
            key = (c["seed"], c["size"], c["tol"])
            a = c["answer"]
            if a is not None:
                region_sizes.add(len({x for u in a["units"] for x in u if x is not None}))
            if key in seen:
                continue
            seen.add(key)
            tbl.append("(%s, %s)" % (coq_call(c), "None" if a is None else "(Some %s)" % coq_region(k, a)))
    mc, boundary = effective_min_cov(float(cfg["min_coverage"]), n, region_sizes)
    pt = row.get("pos_tol")
    ccfg = "(mkConfig %s %s %s %s %s %s)" % (
        C.boollit(cfg["pos_tol_mode"] == "relative"), C.boollit(cfg["delaunay_threshold_mode"] == "relative"),
        "None" if pt is None else "(Some %s)" % C.listlit([q_hex(h) for h in pt]), C.boollit(FACTS["else_assigns"]),
        C.listlit([C.qlit(Fraction(float(s))) for s in sizes]), C.qlit(mc))
    dim = row["dim"]
    inp = "(mkInput %s %s %s %s %s)" % (
        "None" if dim is None else "(Some %s)" % nat(dim), nat(n),
        C.listlit([C.zlit(z) for z in case["numbers"]]), C.listlit([nat(i) for i in row["order"]]),
        C.listlit([q_hex(h) for h in (row.get("scaled") or [])]))
    term = "agree_twice %s %s %s %s %s" % (ccfg, inp, C.listlit(tbl), coq_obs(row["obs1"]), coq_obs(row["obs2"]))
    return term, boundary


# ---- evaluation of one batch -----------------------------------------------------------------------
def canon_hash(case):
    key = {k: case[k] for k in ("numbers", "positions", "cell", "pbc", "cfg", "script") if k in case}
    return hashlib.sha256(json.dumps(key, sort_keys=True).encode()).hexdigest()


def evaluate(ctx, name, cases, dist):
    """runs implementation + model on `cases`; returns list of failures
    {case, row, clauses (predicate), agree (bool|None), in_family}"""
    for i, c in enumerate(cases):
        c["id"] = i
        # history stream (no PRNG draw): every third case is classified by a Classifier object that classified ANOTHER
        # structure first (a cell-less molecule, a slab with an adsorbate, a sparse gas: very different shortest distances)
        if i % 3 == 0 and "prior" not in c:
            c["prior"] = PRIORS[(i // 3) % len(PRIORS)]
    rows, ext = run_impl(cases)
    dist.setdefault("ext_module", ext)
    dist["cases_with_prior_structure_on_the_same_classifier"] = dist.get("cases_with_prior_structure_on_the_same_classifier", 0) + sum(1 for c in cases if c.get("prior"))
    terms = []
    info = {}
    for c in cases:
        row = rows.get(c["id"], {"id": c["id"], "runner_error": "no row returned"})
        t, boundary = (None, False)
        if "runner_error" not in row and "ctor_error" not in row:
            t, boundary = coq_term(c, row)
        info[c["id"]] = {"row": row, "term": t, "boundary": boundary}
        if t is not None:
            terms.append((c["id"], t))
    failing, errors = C.coq_case_files("c17_" + name, PREAMBLE, terms) if terms else ([], [])
    failing = set(failing)
    if errors:
        raise RuntimeError("case files did not compile: " + json.dumps(errors)[:3000])
    failures = []
    seen = set()
    nontriv = 0
    for c in cases:
        row = info[c["id"]]["row"]
        fam_in = in_family(c)
        stream = c.get("stream") or ("real" if c.get("script") is None else "scripted")
        dist["stream"][stream] = dist["stream"].get(stream, 0) + 1
        if "runner_error" in row:
            if "CaseTimeout" in row["runner_error"]:
                dist["timeouts"] = dist.get("timeouts", 0) + 1
                continue
            failures.append({"case": c, "row": row, "clauses": ["runner: " + row["runner_error"]], "agree": None, "in_family": fam_in})
            continue
        clauses = predicate(c, row)
        agree = None if info[c["id"]]["term"] is None else (c["id"] not in failing)
        o1 = row.get("obs1", {})
        cls = o1.get("cls") if o1.get("kind") == 0 else {1: "None", 2: "TypeError", 3: "Exception"}.get(o1.get("kind"), "?")
        dist["class"][cls] = dist["class"].get(cls, 0) + 1
        d = row.get("dim")
        dist["dimensionality"][str(d)] = dist["dimensionality"].get(str(d), 0) + 1
        ok_ = (row.get("dim_oracle") or {})
        okk = "decided" if ok_.get("decided") else "undecided: " + str(ok_.get("why"))[:40]
        dist.setdefault("first_principles_oracle", {})
        dist["first_principles_oracle"][okk] = dist["first_principles_oracle"].get(okk, 0) + 1
        pk = "".join("T" if b else "F" for b in c["pbc"])
        dist["pbc"][pk] = dist["pbc"].get(pk, 0) + 1
        fam = c.get("family", "?").split(":")[0] if c.get("script") is None else "scripted"
        dist["family"][fam] = dist["family"].get(fam, 0) + 1
        nb = min(150, (row["n"] // 20) * 20)
        dist["n_atoms"]["%d-%d" % (nb, nb + 19)] = dist["n_atoms"].get("%d-%d" % (nb, nb + 19), 0) + 1
        for tg in c.get("tags", []):
            dist["tags"][tg] = dist["tags"].get(tg, 0) + 1
        if row.get("wrap_moved"):
            dist["tags"]["wrap_changes_positions"] = dist["tags"].get("wrap_changes_positions", 0) + 1
        if not np.any(np.array(c["cell"])):
            dist["tags"]["no_cell"] = dist["tags"].get("no_cell", 0) + 1
        if c.get("cfg"):
            dist["tags"]["non_default_config"] = dist["tags"].get("non_default_config", 0) + 1
        ncalls = len(o1.get("calls", []))
        dist["finder_calls"] += ncalls
        if ncalls:
            dist["consulted_finder"] += 1
        if info[c["id"]]["boundary"]:
            dist["coverage_boundary"] += 1
        if row.get("f0_bad_calls"):
            dist["real_finder_F0_violations"] += len(row["f0_bad_calls"])
        if agree is None:
            dist["not_expressible_in_model"] += 1
        h = canon_hash(c)
        if h not in seen and d is not None and not isinstance(d, str):
            seen.add(h)
            nontriv += 1
        if is_both_absolute(c) and o1.get("kind") == 2:
            dist["both_absolute_TypeError"] += 1
        if (clauses and fam_in) or agree is False or (agree is None and "obs1" in row and fam_in) or \
                (row.get("f0_bad_calls") and c.get("script") is None):
            failures.append({"case": c, "row": row, "clauses": clauses if fam_in else [], "agree": agree, "in_family": fam_in})
    return failures, nontriv, rows


def new_dist():
    return {"stream": {}, "class": {}, "dimensionality": {}, "pbc": {}, "family": {}, "n_atoms": {}, "tags": {},
            "finder_calls": 0, "consulted_finder": 0, "coverage_boundary": 0, "real_finder_F0_violations": 0,
            "not_expressible_in_model": 0, "both_absolute_TypeError": 0}


# ---- shrinking --------------------------------------------------------------------------------------
def shrink(case, budget_s=60):
    """greedy atom removal on a real-finder case while the property's predicate keeps failing"""
    if case.get("script") is not None:
        return case
    t0 = time.time()
    cur = case

    def fails(c):
        c = dict(c, id=0)
        rows, _ = run_impl([c], jobs=1)
        r = rows.get(0, {"runner_error": "no row"})
        if "runner_error" in r and "CaseTimeout" in r["runner_error"]:
            return False
        return bool(predicate(c, r))

    step = max(1, len(cur["numbers"]) // 2)
    while step >= 1 and time.time() - t0 < budget_s:
        i = 0
        progressed = False
        while i < len(cur["numbers"]) and len(cur["numbers"]) > 1 and time.time() - t0 < budget_s:
            keep = [j for j in range(len(cur["numbers"])) if not (i <= j < i + step)]
            if not keep:
                i += step
                continue
            cand = dict(cur, numbers=[cur["numbers"][j] for j in keep], positions=[cur["positions"][j] for j in keep])
            try:
                if fails(cand):
                    cur = cand
                    progressed = True
                    continue
            except Exception:
                pass
            i += step
        if not progressed or step == 1:
            step //= 2
    return cur


def slim(case):
    return {k: case[k] for k in ("numbers", "positions", "cell", "pbc", "cfg", "script", "family", "tags", "extra_arrays", "stream", "prior") if k in case}


def _priors():
    """structures a Classifier object may have seen before the examined one"""
    h2o = {"numbers": [8, 1, 1], "positions": [[0, 0, 0.119], [0, 0.763, -0.477], [0, -0.763, -0.477]], "cell": [[0, 0, 0]] * 3, "pbc": [False] * 3}
    a = 3.61
    cu = []
    for i in range(3):
        for j in range(3):
            for k in range(3):
                off = 0.5 * a / 2 ** 0.5 * (k % 2)
                cu.append([i * a / 2 ** 0.5 + off, j * a / 2 ** 0.5 + off, 6.0 + k * a / 2])
    L = 3 * a / 2 ** 0.5
    slab = {"numbers": [29] * 27 + [6, 8], "positions": cu + [[L / 2, L / 2, 6.0 + a + 1.85], [L / 2, L / 2, 6.0 + a + 3.0]],
            "cell": [[L, 0, 0], [0, L, 0], [0, 0, 22.0]], "pbc": [True, True, True]}
    gas = {"numbers": [18, 18, 18], "positions": [[1, 1, 1], [7, 8, 9], [13, 3, 15]], "cell": [[20, 0, 0], [0, 20, 0], [0, 0, 20]], "pbc": [True, True, True]}
    return [h2o, slab, gas]


PRIORS = _priors()


def finding_key(clauses):
    """identifies a failure by its call site / exception class (for known_findings.json)"""
    for cl in clauses:
        if cl.startswith("does not return a Classification: "):
            what = cl[len("does not return a Classification: "):]
            return "classify:raises:" + what.split(":")[0].strip()
    return None


def report(ctx, failures, broken):
    """at most one found-input violation and one no-input violation per run"""
    known = C.load_known(PID)
    printed = set()
    kept = []
    for f in failures:
        key = finding_key(f["clauses"]) if f["clauses"] else None
        k = C.known_match(known, key) if key else None
        if k and f["in_family"]:
            if key not in printed:
                printed.add(key)
                ctx.known_finding(k)
            ctx.coverage.setdefault("known_finding_hits", {})
            ctx.coverage["known_finding_hits"][key] = ctx.coverage["known_finding_hits"].get(key, 0) + 1
            continue
        kept.append(f)
    failures = kept
    with_input = [f for f in failures if f["clauses"] and f["in_family"]]
    if with_input:
        f = min(with_input, key=lambda f: len(f["case"]["numbers"]))
        small = shrink(f["case"]) if ctx.tier in ("quick", "thorough") else f["case"]
        rows, _ = run_impl([dict(small, id=0)], jobs=1)
        cl = predicate(small, rows[0])
        if not cl:
            small, cl = f["case"], f["clauses"]
        ctx.violation({"kind": "property-fails-on-implementation", "case": slim(small), "failed_clauses": cl, "key": finding_key(cl),
                       "call": "Classifier(**case.cfg).classify(Atoms(numbers, positions, cell, pbc))",
                       "model_agrees": f["agree"], "broken_obligation": broken,
                       "others": len(with_input) - 1}, found_input=True)
        return
    rest = [f for f in failures if f["agree"] is False or f["agree"] is None or f["row"].get("f0_bad_calls")]
    if rest:
        f = min(rest, key=lambda f: len(f["case"]["numbers"]))
        o1 = f["row"].get("obs1", {})
        what = "finder contract F0 violated by the real PeriodicFinder" if f["row"].get("f0_bad_calls") else \
            "agreement relation Classify.Dispatch.agree_twice (model vs implementation)"
        ctx.violation({"kind": "correspondence-broken", "broken": what, "case": slim(f["case"]),
                       "implementation": {"kind": o1.get("kind"), "cls": o1.get("cls"), "exc": o1.get("exc"), "basis": o1.get("basis"),
                                          "outliers": o1.get("outliers"), "n_calls": len(o1.get("calls", []))},
                       "independent": {k: f["row"].get(k) for k in ("dim", "dim_oracle", "order", "scaled", "order_error")},
                       "searched": "the property's predicate was evaluated on every generated input of this run: no failing input",
                       "broken_obligation": broken, "others": len(rest) - 1}, found_input=False)
        return
    if broken:
        ctx.violation({"kind": "proof-obligation-broken", "broken": broken,
                       "searched": "the property's predicate was evaluated on every generated input of this run: no failing input"},
                      found_input=False)


def load_corpus():
    cases = []
    if os.path.isdir(CORPUS):
        for fn in sorted(os.listdir(CORPUS)):
            if fn.endswith(".json"):
                with open(os.path.join(CORPUS, fn)) as f:
                    d = json.load(f)
                for c in (d["cases"] if "cases" in d else [d.get("case", d)]):
                    c = dict(c)
                    c.setdefault("family", "corpus")
                    c.setdefault("tags", [])
                    c.setdefault("script", None)
                    cases.append(c)
    return cases


def run(ctx):
    ctx.add_trusted("hand-written model coq/Classify/Dispatch.v of classifier.py:156-348, linkedunits.py:78-124, classifications.py:39-59 "
                    "(tied to the code by the correspondence below, not by a translator)",
                    "harness/impl/c17_impl.py: scripted stub / logging wrapper installed over matid.classification.classifier.PeriodicFinder; "
                    "independent dimensionality = matid.geometry.get_dimensionality on a wrapped copy (itself the subject of C09) AND a first-principles "
                    "oracle without matid (harness/lib/dim_oracle.py: brute-force image sums, integer rank of the cycle voltages; undecided near ties)",
                    "coverage test: the model compares exactly (Q); binary64 `nb/n >= min_coverage` differs only within half an ulp below "
                    "min_coverage; such cases are detected exactly and counted as coverage_boundary")
    ctx.assumptions += [
        "finder contract F0 (indices in range, prototype cell attached) for the cell/partition clauses -- validated on every real get_region call of the run",
        "at least one of pos_tol_mode / delaunay_threshold_mode is 'relative' (default: both); the other combination is refuted (C17_both_absolute_raises)",
        "'returns normally' and 'input untouched' are observed on every run, not proved (unmodelled numpy/ASE/C++ paths, Python aliasing)",
        "structures with at least one atom (Classifier().classify(Atoms()) crashes the interpreter inside matid.ext: outside the stated family)",
    ]
    broken = None
    FACTS.update(observed_facts())
    try:
        ast_facts = source_facts()
        ctx.coverage["source_facts_ast"] = dict(ast_facts, agrees_with_observation=(ast_facts == FACTS))
    except (TranslationError, SyntaxError, OSError) as e:
        ctx.coverage["source_facts_ast"] = {"unreadable": str(e)[:200],
                                            "note": "informational only: the fact is observed on the running code; the mode block of classify was rewritten"}
    ctx.coverage["source_facts"] = dict(FACTS)
    pres = C.prove_property(PID)
    ctx.record_proof(pres)
    if pres["failed"]:
        broken = {"stage": "prove", "file": pres["failed"]["path"], "error": pres["failed"]["out"][-1500:]}

    quick = ctx.tier == "quick"
    nmax = 80 if quick else 150
    scale = float(os.environ.get("VERIF_C17_SCALE", "1"))     # development aid only
    n_script = int((480 if quick else 4000) * scale)
    n_real = int((224 if quick else 1600) * scale)
    dist = new_dist()
    failures = []
    total = 0
    nontriv = 0
    samples = []
    corpus = load_corpus()
    batches = [("corpus", corpus)] if corpus else []
    batches.append(("scripted", gen_scripted(ctx, n_script)))
    batches.append(("real", gen_real(ctx, n_real, nmax)))
    for name, cases in batches:
        t0 = time.time()
        fl, nt, rows = evaluate(ctx, name, cases, dist)
        C.log("[C17] %s: %d cases, %d flagged, %.1fs" % (name, len(cases), len(fl), time.time() - t0))
        failures += fl
        total += len(cases)
        nontriv += nt
        for c in cases[:2]:
            r = rows.get(c["id"], {})
            samples.append({"stream": name, "family": c.get("family"), "n_atoms": len(c["numbers"]), "pbc": c["pbc"], "cfg": c.get("cfg"),
                            "dim": r.get("dim"), "class": (r.get("obs1") or {}).get("cls"), "finder_calls": len((r.get("obs1") or {}).get("calls", []))})
    ctx.add_cases(total, nontriv, samples)
    ctx.coverage["input_distribution"] = dist
    ctx.coverage["rule"] = ("every case = Classifier(**cfg).classify(atoms) called twice on one object and once on a fresh object, "
                            "finder scripted (stub returning real LinkedUnitCollection objects) or real (logged); compared in Coq with "
                            "Dispatch.agree_twice (class, region identity, basis, outliers, prototype cell, exact sequence of finder calls) and "
                            "checked directly against the property's predicate. distinct_nontrivial = distinct (structure, config, script) with a "
                            "defined dimensionality, i.e. past the early `return Unknown`; consulted_finder counts the 2D-branch cases")
    ctx.coverage["both_absolute_in_family"] = BOTH_ABSOLUTE_IN_FAMILY
    if dist["both_absolute_TypeError"]:
        ctx.notes.append("%d cases with pos_tol_mode = delaunay_threshold_mode = 'absolute' raised TypeError ('NoneType' object is not iterable) "
                         "on a 2D structure, as the model predicts (C17_both_absolute_raises); treated as outside 'varied thresholds'"
                         % dist["both_absolute_TypeError"])
    if dist.get("timeouts"):
        ctx.notes.append("%d cases exceeded the per-case time limit and were not evaluated" % dist["timeouts"])
    report(ctx, failures, broken)


def replay(ctx, rep):
    case = rep.get("case")
    if not case:
        pres = C.prove_property(PID)
        if pres["failed"]:
            ctx.violation(rep, found_input=False)
        else:
            print("replay: no input recorded; the proof obligations hold now")
        return
    FACTS.update(observed_facts())
    dist = new_dist()
    failures, _, rows = evaluate(ctx, "replay", [dict(case)], dist)
    bad = [f for f in failures if (f["clauses"] and rep.get("found_failing_input")) or (not rep.get("found_failing_input"))]
    if rep.get("found_failing_input") and not BOTH_ABSOLUTE_IN_FAMILY and is_both_absolute(case):
        # replays of the both-absolute finding evaluate the predicate regardless of the family switch
        r = rows.get(0, {})
        cl = predicate(case, r)
        if cl:
            bad = [{"clauses": cl}]
    if bad:
        print("replay: still failing: %s" % (bad[0].get("clauses") or "model/implementation disagree"))
        ctx.violation(rep, found_input=bool(rep.get("found_failing_input")))
    else:
        print("replay: the property holds on this input now")
