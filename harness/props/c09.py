"""C09 -- dimensionality is the rank of the periodic bonding network, however presented.

prove (Properties/C09.v over Geometry/Dimensionality*.v, Base/Cover.v)  ->  correspond:
  * the harness computes, in exact integer arithmetic on the 2^-12 grid, the list E of bonded image
    pairs (i, j, o) of every generated structure (oracle code: box enumeration, BFS potentials over
    periodic images with translation offsets, integer/GF(2) rank of the cycle lattice);
  * the implementation (harness/impl/c09_impl.py) is run on the same floats;
  * Coq evaluates, by vm_compute, the code mirror get_dim_graph and the specification dim_spec on
    E and compares with the implementation's answer and 1x partition (Dimensionality.check_case);
  * invariance clauses on pairs (permutation, lattice shifts, unimodular basis change, rigid
    motion, supercell) on the implementation and on dim_spec.
When anything breaks: shrink (drop atoms, drop periodic axes) and evaluate the property's own
predicate on the implementation.
"""
import json
import math
import os
from fractions import Fraction

import numpy as np

from lib import common as C

LEVEL = "proof"
STATIC = ["Geometry/Dimensionality.vo", "Geometry/DimensionalityProofs.vo", "Geometry/DimensionalityInvariance.vo", "Geometry/RankDet.vo", "Geometry/RankElim.vo", "Geometry/VoltageLattice.vo", "Geometry/InvarianceFull.vo", "Geometry/DimFromTensor.vo", "Geometry/Sublattice.vo", "Geometry/Supercell.vo", "Geometry/DimWrapped.vo", "Base/Cover.vo", "Base/CaseUtil.vo"]
G = 4096  # grid: coordinates are integer multiples of 2^-12
PREAMBLE = ("From Coq Require Import List ZArith Bool.\nImport ListNotations.\n"
            "From MV Require Import Geometry.Dimensionality Geometry.RankDet Geometry.Supercell.\n")
CORPUS = os.path.join(C.VERIF, "corpus", "C09")

COV_Z = [1, 6, 7, 8, 14, 16, 26, 29, 47, 79, 55, 11, 17]
VDW_Z = [1, 6, 7, 8, 14, 16, 29, 47, 79, 11, 17, 18]


# ------------------------------------------------------------------------------------------------
# radii tables (the documented ASE tables; C19 ties get_radii to them)
# ------------------------------------------------------------------------------------------------
def radii_floats(case):
    r = case["radii"]
    if isinstance(r, str):
        from ase.data import covalent_radii
        from ase.data.vdw_alvarez import vdw_radii
        tab = covalent_radii if r == "covalent" else vdw_radii
        return [float(tab[z]) for z in case["numbers"]]
    return [float(x) for x in r]


# ------------------------------------------------------------------------------------------------
# oracle (harness side): bonded image pairs, components, cycle lattice rank
# ------------------------------------------------------------------------------------------------
class Dense(Exception):
    pass


def grid_ints(a):
    v = np.asarray(a, dtype=float) * G
    r = np.rint(v)
    if not np.array_equal(v, r) or np.abs(r).max(initial=0) > 2 ** 26:
        return None
    return r.astype(np.int64)


def bonded_pairs(case, cap=None, work_cap=4e6, ext_cap=40000, bin_cap=2e6):
    """All (i, j, o): |r_i - r_j - o.cell|^2 <= (thr + rad_i + rad_j)^2, o integer, zero on non-periodic
    axes; each unordered pair once (i < j, or i == j with o lexicographically positive).
    Exact integers on the grid.  Returns (E, info)."""
    P = grid_ints(case["positions"])
    Cc = grid_ints(case["cell"])
    if P is None or Cc is None:
        raise ValueError("off-grid input")
    n = len(P)
    pbc = [bool(x) for x in case["pbc"]]
    rad = [Fraction(x) for x in radii_floats(case)]
    thr = Fraction(float(case["thr"]))
    t = [[thr + rad[i] + rad[j] for j in range(n)] for i in range(n)]
    dyadic = all((tt * G).denominator == 1 for row in t for tt in row)
    T = np.array([[(int(math.floor(tt * tt * G * G)) if tt >= 0 else -1) for tt in row] for row in t], dtype=np.int64)
    tf = np.array([[float(tt) for tt in row] for row in t])
    tmax = float(max(max(row) for row in t))
    # move atoms into the cell by whole lattice vectors (a relabelling of offsets, undone below)
    w = np.zeros((n, 3), dtype=np.int64)
    N = [0, 0, 0]
    if any(pbc):
        Cf = Cc.astype(float)
        vol = abs(np.linalg.det(Cf))
        if vol == 0:
            raise ValueError("singular cell with periodic axes")
        s = np.linalg.solve(Cf.T, P.astype(float).T).T
        w = np.floor(s).astype(np.int64)
        for k in range(3):
            if not pbc[k]:
                w[:, k] = 0
            else:
                cr = np.cross(Cf[(k + 1) % 3], Cf[(k + 2) % 3])
                h = vol / np.linalg.norm(cr)
                N[k] = int(math.floor(tmax * G / h)) + 2
    Pw = P - w @ Cc
    noff = (2 * N[0] + 1) * (2 * N[1] + 1) * (2 * N[2] + 1)
    # resource guard for the implementation runs (cell list of the C++ code: one bin per cutoff^3 of the
    # bounding box of the extended system, built from the positions *as stored*)
    pad = sum(2 * N[k] * np.abs(Cc[k]) for k in range(3))
    span = (P.max(axis=0) - P.min(axis=0) + pad).astype(float) / G
    bins = float(np.prod(span / max(tmax, 1e-3) + 3.0))
    if bins > bin_cap:
        raise Dense("cell list of about %.1e bins" % bins)
    if noff * n * n > work_cap or noff * n > ext_cap:
        raise Dense("box %d offsets x %d atoms" % (noff, n))
    D0 = Pw[:, None, :] - Pw[None, :, :]
    E = []
    near = 0
    iu = np.triu(np.ones((n, n), dtype=bool), 1)
    for x in range(-N[0], N[0] + 1):
        for y in range(-N[1], N[1] + 1):
            for z in range(-N[2], N[2] + 1):
                ov = np.array([x, y, z], dtype=np.int64) @ Cc
                D = D0 - ov[None, None, :]
                d2 = (D * D).sum(axis=2)
                ok = d2 <= T
                if not dyadic:
                    dd = np.sqrt(d2.astype(float)) / G
                    m = np.abs(dd - tf) < 1e-9
                    near += int(m.sum())
                sel = ok & iu
                if (x, y, z) > (0, 0, 0):
                    sel = sel | (ok & np.eye(n, dtype=bool))
                ii, jj = np.nonzero(sel)
                for i, j in zip(ii.tolist(), jj.tolist()):
                    o = (x + int(w[i, 0] - w[j, 0]), y + int(w[i, 1] - w[j, 1]), z + int(w[i, 2] - w[j, 2]))
                    # atom i at P_i is bonded to atom j at P_j + o.cell  (stored labelling)
                    E.append((i, j, o))
                if cap is not None and len(E) > cap:
                    raise Dense("more than %d bonded image pairs" % cap)
    E.sort()
    return E, {"near_tie": near, "dyadic": dyadic, "box": N, "shifted": int((np.abs(w).sum(axis=1) > 0).sum()),
               "exact_ties": 0}


def rank_fraction(vs):
    rows = [[Fraction(x) for x in v] for v in vs]
    r = 0
    for c in range(3):
        piv = None
        for k in range(r, len(rows)):
            if rows[k][c] != 0:
                piv = k
                break
        if piv is None:
            continue
        rows[r], rows[piv] = rows[piv], rows[r]
        for k in range(len(rows)):
            if k != r and rows[k][c] != 0:
                f = rows[k][c] / rows[r][c]
                rows[k] = [a - f * b for a, b in zip(rows[k], rows[r])]
        r += 1
    return r


def rank_gf2(vs):
    rows = [[x & 1 for x in v] for v in vs]
    r = 0
    for c in range(3):
        piv = None
        for k in range(r, len(rows)):
            if rows[k][c]:
                piv = k
                break
        if piv is None:
            continue
        rows[r], rows[piv] = rows[piv], rows[r]
        for k in range(len(rows)):
            if k != r and rows[k][c]:
                rows[k] = [a ^ b for a, b in zip(rows[k], rows[r])]
        r += 1
    return r


def analyse(n, E):
    """components of the cell contents, potentials over images, voltages, ranks"""
    nb = [[] for _ in range(n)]
    for i, j, o in E:
        nb[i].append((j, o))
        nb[j].append((i, (-o[0], -o[1], -o[2])))
    label = [None] * n
    pot = [None] * n
    for root in range(n):
        if label[root] is not None:
            continue
        label[root] = root
        pot[root] = (0, 0, 0)
        stack = [root]
        while stack:
            u = stack.pop()
            for v, o in nb[u]:
                if label[v] is None:
                    label[v] = root
                    pot[v] = (pot[u][0] + o[0], pot[u][1] + o[1], pot[u][2] + o[2])
                    stack.append(v)
    connected = all(x == 0 for x in label)
    res = {"labels": label, "connected": connected, "rankZ": None, "rank2": None}
    if connected:
        vs = [(pot[i][0] + o[0] - pot[j][0], pot[i][1] + o[1] - pot[j][1], pot[i][2] + o[2] - pot[j][2]) for i, j, o in E]
        vs = [v for v in vs if v != (0, 0, 0)]
        res["rankZ"] = rank_fraction(vs)
        res["rank2"] = rank_gf2(vs)
    return res


def oracle(case, cap):
    E, info = bonded_pairs(case, cap)
    a = analyse(len(case["numbers"]), E)
    a["E"] = E
    a["info"] = info
    a["mismatch"] = bool(a["connected"] and a["rankZ"] != a["rank2"])
    a["dim"] = a["rankZ"] if a["connected"] else None
    return a


# ------------------------------------------------------------------------------------------------
# generators
# ------------------------------------------------------------------------------------------------
def qz(x, g):
    return round(x * g) / g


def gen_cell(rng, g):
    kind = rng.choice(["orthogonal", "skewed", "sheared"])
    L = [max(0.5, qz(math.exp(rng.uniform(math.log(0.5), math.log(30.0))), g)) for _ in range(3)]
    cell = [[L[0], 0.0, 0.0], [0.0, L[1], 0.0], [0.0, 0.0, L[2]]]
    if kind == "skewed":
        cell[1][0] = qz(rng.uniform(-0.5, 0.5) * L[0], g)
        cell[2][0] = qz(rng.uniform(-0.5, 0.5) * L[0], g)
        cell[2][1] = qz(rng.uniform(-0.5, 0.5) * L[1], g)
    elif kind == "sheared":
        m1, m2, m3 = (rng.randint(-3, 3) for _ in range(3))
        cell[1] = [cell[1][k] + m1 * cell[0][k] for k in range(3)]
        cell[2] = [cell[2][k] + m2 * cell[0][k] + m3 * cell[1][k] for k in range(3)]
    return kind, cell


def gen_base(rng, tier):
    g = rng.choice([4, 64, 64, 4096])
    kind, cell = gen_cell(rng, g)
    n = rng.choice([1, 1, 2, 2, 3, 3, 4, 5, 6, 8, 10, 12, 16, 20, 25, 30])
    shape = rng.choice(["gas", "layer", "chain", "blob"])
    L = [math.sqrt(sum(x * x for x in v)) for v in cell]
    c0 = [rng.random() for _ in range(3)]
    wid = [1.0, 1.0, 1.0]
    if shape == "layer":
        wid[2] = min(1.0, rng.uniform(0.0, 1.5) / L[2])
    elif shape == "chain":
        wid[1] = min(1.0, rng.uniform(0.0, 1.5) / L[1])
        wid[2] = min(1.0, rng.uniform(0.0, 1.5) / L[2])
    elif shape == "blob":
        w = rng.uniform(0.5, 4.0)
        wid = [min(1.0, w / L[k]) for k in range(3)]
    pos = []
    for _ in range(n):
        s = [(c0[k] + rng.uniform(-0.5, 0.5) * wid[k]) % 1.0 if wid[k] < 1.0 else rng.random() for k in range(3)]
        pos.append([qz(sum(s[k] * cell[k][m] for k in range(3)), g) for m in range(3)])
    pbc = [bool(rng.getrandbits(1)) for _ in range(3)]
    mode = rng.choice(["covalent", "vdw", "custom", "custom"])
    if mode == "covalent":
        numbers = [rng.choice(COV_Z) for _ in range(n)]
        radii = "covalent"
    elif mode == "vdw":
        numbers = [rng.choice(VDW_Z) for _ in range(n)]
        radii = "vdw"
    else:
        numbers = [rng.choice(COV_Z) for _ in range(n)]
        base = rng.choice([0.125, 0.25, 0.5, 0.75, 1.0, 1.5])
        radii = [max(0.125, qz(base * rng.uniform(0.6, 1.4), 64)) for _ in range(n)]
    thr = rng.randint(20, 224) / 64.0   # 0.3125 .. 3.5
    if rng.random() < 0.35:
        thr = rng.randint(20, 64) / 64.0
    case = {"numbers": numbers, "positions": pos, "cell": cell, "pbc": pbc, "thr": thr, "radii": radii,
            "meta": {"cell_kind": kind, "shape": shape, "grid": g, "radii_mode": mode, "variant": "base"}}
    if mode == "custom" and rng.random() < 0.35:
        case = exact_tie(rng, case)
    if rng.random() < 0.4 and any(pbc):
        case = shift_atoms(rng, case, 5)
    return case


def exact_tie(rng, case):
    """put a bond EXACTLY on the threshold: among the image pairs (i, j, o), |o| <= 1, whose distance is a grid number (perfect
    square on the 2^-12 grid; with dyadic radii every float operation of the implementation on it is exact) choose one and set
    thr = d - r_i - r_j.  The statement links atoms when distance minus radii <= threshold, so that pair is bonded."""
    P = grid_ints(case["positions"])
    Cc = grid_ints(case["cell"])
    if P is None or Cc is None:
        return case
    n = len(P)
    rad = case["radii"]
    cands = []
    rngs = [(-1, 0, 1) if case["pbc"][k] else (0,) for k in range(3)]
    for x in rngs[0]:
        for y in rngs[1]:
            for z in rngs[2]:
                ov = np.array([x, y, z], dtype=np.int64) @ Cc
                for i in range(n):
                    for j in range(i, n):
                        if i == j and (x, y, z) <= (0, 0, 0):
                            continue
                        d = P[i] - P[j] - ov
                        d2 = int((d * d).sum())
                        r = math.isqrt(d2)
                        if r * r == d2 and r > 0:
                            t = r / G - rad[i] - rad[j]
                            if 0.05 <= t <= 3.5 and (Fraction(t) * 4096).denominator == 1:
                                cands.append(t)
    if not cands:
        return case
    c = dict(case)
    c["thr"] = rng.choice(sorted(set(cands)))
    c["meta"] = dict(case["meta"], exact_tie=True)
    return c


def shift_atoms(rng, case, m):
    """displace some atoms by whole lattice vectors of periodic directions"""
    c = json.loads(json.dumps(case))
    n = len(c["numbers"])
    cell = c["cell"]
    k = 0
    for i in range(n):
        if rng.random() < 0.5 or (i == n - 1 and k == 0):
            sh = [rng.randint(-m, m) if c["pbc"][a] else 0 for a in range(3)]
            if any(sh):
                k += 1
            c["positions"][i] = [c["positions"][i][d] + sum(sh[a] * cell[a][d] for a in range(3)) for d in range(3)]
    c["meta"] = dict(c["meta"], shifted_atoms=k)
    return c


SIGNED_PERMS = None


def signed_perms():
    global SIGNED_PERMS
    if SIGNED_PERMS is None:
        import itertools
        out = []
        for perm in itertools.permutations(range(3)):
            for sg in itertools.product([1, -1], repeat=3):
                M = [[0] * 3 for _ in range(3)]
                for r in range(3):
                    M[r][perm[r]] = sg[r]
                out.append(M)
        SIGNED_PERMS = out
    return SIGNED_PERMS


def det3(M):
    return (M[0][0] * (M[1][1] * M[2][2] - M[1][2] * M[2][1]) - M[0][1] * (M[1][0] * M[2][2] - M[1][2] * M[2][0])
            + M[0][2] * (M[1][0] * M[2][1] - M[1][1] * M[2][0]))


def variant(rng, case, kind):
    """another presentation of the same physical structure (None if not applicable)"""
    c = json.loads(json.dumps(case))
    n = len(c["numbers"])
    pbc = c["pbc"]
    per = [a for a in range(3) if pbc[a]]
    if kind == "permute":
        if n < 2:
            return None
        perm = list(range(n))
        rng.shuffle(perm)
        c["numbers"] = [case["numbers"][i] for i in perm]
        c["positions"] = [case["positions"][i] for i in perm]
        if not isinstance(case["radii"], str):
            c["radii"] = [case["radii"][i] for i in perm]
        c["meta"] = dict(c["meta"], variant=kind, perm=perm)
    elif kind == "shift":
        if not per:
            return None
        c = shift_atoms(rng, c, 5)
        c["meta"] = dict(c["meta"], variant=kind)
    elif kind == "unimodular":
        if len(per) < 2:
            return None
        U = [[1 if r == k else 0 for k in range(3)] for r in range(3)]
        for _ in range(rng.randint(1, 4)):
            a, b = rng.sample(per, 2)
            m = rng.choice([-2, -1, 1, 2])
            U[a] = [U[a][k] + m * U[b][k] for k in range(3)]       # row a += m * row b
        if rng.random() < 0.3:
            a = rng.choice(per)
            U[a] = [-x for x in U[a]]
        c["cell"] = [[sum(U[r][k] * case["cell"][k][d] for k in range(3)) for d in range(3)] for r in range(3)]
        c["meta"] = dict(c["meta"], variant=kind, U=U)
    elif kind == "rigid":
        Q = rng.choice(signed_perms())
        tr = [qz(rng.uniform(-2, 2), 64) for _ in range(3)]
        c["cell"] = [[sum(Q[d][e] * case["cell"][r][e] for e in range(3)) for d in range(3)] for r in range(3)]
        c["positions"] = [[sum(Q[d][e] * (x[e] + tr[e]) for e in range(3)) for d in range(3)] for x in case["positions"]]
        c["meta"] = dict(c["meta"], variant=kind, Q=Q, proper=(det3(Q) == 1), translation=tr)
    elif kind == "supercell":
        if not per:
            return None
        if len(per) >= 2 and rng.random() < 0.35:
            # a NON-diagonal supercell (as ase.build.make_supercell would build it): M mixes two or three periodic axes
            a0, a1 = rng.sample(per, 2)
            M = [[1 if r == k else 0 for k in range(3)] for r in range(3)]
            kind2 = rng.choice(["rot2", "shear2", "det3"] + (["three"] if len(per) == 3 else []))
            if kind2 == "rot2":
                M[a0][a0], M[a0][a1], M[a1][a0], M[a1][a1] = 1, 1, -1, 1
            elif kind2 == "shear2":
                M[a0][a0], M[a0][a1], M[a1][a0], M[a1][a1] = 2, 1, 0, 1
            elif kind2 == "det3":
                M[a0][a0], M[a0][a1], M[a1][a0], M[a1][a1] = 1, 2, -1, 1
            else:
                M = [[1, 1, 0], [0, 1, 1], [1, 0, 1]]
            dM = det3(M)
            if dM == 0 or n * abs(dM) > 30:
                return None
            # adjugate (M' M = M M' = det.I) and the coset representatives r with r M^-1 in [0,1)^3
            adj = [[(M[(j + 1) % 3][(i + 1) % 3] * M[(j + 2) % 3][(i + 2) % 3] - M[(j + 1) % 3][(i + 2) % 3] * M[(j + 2) % 3][(i + 1) % 3])
                    for j in range(3)] for i in range(3)]
            reps_ = []
            for x in range(-3, 4):
                for y in range(-3, 4):
                    for z in range(-3, 4):
                        r = (x, y, z)
                        sfr = [Fraction(sum(r[k] * adj[k][m] for k in range(3)), dM) for m in range(3)]
                        if all(0 <= q < 1 for q in sfr):
                            reps_.append(r)
            reps_.sort(key=lambda r: (r != (0, 0, 0), r))
            if len(reps_) != abs(dM):
                return None
            pos, nums, rad, at_l, sh_l = [], [], [], [], []
            for r in reps_:
                for i in range(n):
                    pos.append([case["positions"][i][d_] + sum(r[a] * case["cell"][a][d_] for a in range(3)) for d_ in range(3)])
                    nums.append(case["numbers"][i])
                    at_l.append(i)
                    sh_l.append(list(r))
                    if not isinstance(case["radii"], str):
                        rad.append(case["radii"][i])
            c["positions"], c["numbers"] = pos, nums
            if not isinstance(case["radii"], str):
                c["radii"] = rad
            c["cell"] = [[sum(M[r][k] * case["cell"][k][d_] for k in range(3)) for d_ in range(3)] for r in range(3)]
            c["meta"] = dict(c["meta"], variant=kind, supercell_matrix=M, adjugate=adj, det=dM, at=at_l, sh=sh_l)
            return c
        rep = [1, 1, 1]
        for a in per:
            if rng.random() < 0.6:
                rep[a] = 2
        if rep == [1, 1, 1]:
            rep[rng.choice(per)] = 2
        tot = rep[0] * rep[1] * rep[2]
        if n * tot > 30:
            return None
        pos, nums, rad = [], [], []
        for m0 in range(rep[0]):
            for m1 in range(rep[1]):
                for m2 in range(rep[2]):
                    m = (m0, m1, m2)
                    for i in range(n):
                        pos.append([case["positions"][i][d] + sum(m[a] * case["cell"][a][d] for a in range(3)) for d in range(3)])
                        nums.append(case["numbers"][i])
                        if not isinstance(case["radii"], str):
                            rad.append(case["radii"][i])
        c["positions"], c["numbers"] = pos, nums
        if not isinstance(case["radii"], str):
            c["radii"] = rad
        c["cell"] = [[rep[r] * case["cell"][r][d] for d in range(3)] for r in range(3)]
        c["meta"] = dict(c["meta"], variant=kind, repeats=rep)
    else:
        raise ValueError(kind)
    return c


def load_corpus():
    out = []
    if os.path.isdir(CORPUS):
        for fn in sorted(os.listdir(CORPUS)):
            if fn.endswith(".json"):
                with open(os.path.join(CORPUS, fn)) as f:
                    d = json.load(f)
                for k, c in enumerate(d["cases"] if "cases" in d else [d]):
                    c.setdefault("meta", {})
                    c["meta"]["corpus"] = fn
                    c["meta"].setdefault("variant", "base")
                    out.append(c)
    return out


# ------------------------------------------------------------------------------------------------
# implementation runs and the property's own predicate
# ------------------------------------------------------------------------------------------------
def strip(case):
    d = {k: case[k] for k in ("id", "numbers", "positions", "cell", "pbc", "thr", "radii", "precomputed", "twin") if k in case}
    d.setdefault("twin", case.get("id", 0) % 4 == 1)     # process history: a twin structure (same edge lengths, orthogonal cell) first
    return d


def run_impl(cases):
    if not cases:
        return {}, "none"
    nj = min(8, C.NCPU)
    chunks = [cases[i::nj] for i in range(nj)]
    chunks = [c for c in chunks if c]
    outs = C.impl_run_parallel("c09_impl", [{"cases": [strip(c) for c in ch]} for ch in chunks], jobs=min(8, C.NCPU))
    res = {}
    for o in outs:
        for r in o["results"]:
            res[r["id"]] = r
    return res, outs[0]["mode"]


def predicate(case, orc, r):
    """the property's own predicate on one structure; returns None if it holds, else a reason"""
    if "error" in r:
        if r["error"].startswith(("CaseTimeout", "MemoryError")):
            return None      # resource limit of the runner, counted as an exclusion (resource_excluded), not a verdict
        return "raised " + r["error"]
    if r.get("labels") is None and "dim" not in r:
        return "no result"
    if not r.get("untouched", True):
        return "caller's Atoms/radii modified"
    if r["labels"] is None:
        return "returned clusters are not a partition of the atoms"
    if r["labels"] != orc["labels"]:
        return "1x clusters differ from the connected components of the bonding graph"
    if (r["dim"] is None) != (not orc["connected"]):
        if r["dim"] is None:
            return "None returned although the bonding graph of the cell contents has one component"
        return "%r returned although the bonding graph of the cell contents has more than one component" % r["dim"]
    if orc["connected"] and not orc["mismatch"] and r["dim"] != orc["rankZ"]:
        return "returned %r, rank of the periodic bonding network is %r" % (r["dim"], orc["rankZ"])
    if "dim_precomputed" in r and r["dim_precomputed"] != r["dim"]:
        return "precomputed-matrix path returned %r, direct path %r" % (r["dim_precomputed"], r["dim"])
    return None


def fails_on_impl(cases):
    """run the implementation on candidate cases, return list of (case, reason) for which the predicate fails"""
    for k, c in enumerate(cases):
        c["id"] = k
    res, _ = run_impl(cases)
    out = []
    for c in cases:
        try:
            orc = oracle(c, None)
        except (Dense, ValueError):
            continue
        if orc["info"]["near_tie"]:
            continue
        why = predicate(c, orc, res[c["id"]])
        if why:
            out.append((c, why, res[c["id"]], orc))
    return out


def drop_atom(case, i):
    c = json.loads(json.dumps(case))
    for key in ("numbers", "positions"):
        c[key] = [x for k, x in enumerate(case[key]) if k != i]
    if not isinstance(case["radii"], str):
        c["radii"] = [x for k, x in enumerate(case["radii"]) if k != i]
    c.pop("precomputed", None)
    return c


def shrink(case, rounds=40):
    """greedy: drop atoms, then switch periodic axes off, while the property's predicate still fails"""
    cur = case
    for _ in range(rounds):
        n = len(cur["numbers"])
        cands = [drop_atom(cur, i) for i in range(n)] if n > 1 else []
        for a in range(3):
            if cur["pbc"][a]:
                c = json.loads(json.dumps(cur))
                c["pbc"][a] = False
                cands.append(c)
        if not cands:
            break
        f = fails_on_impl(cands)
        if not f:
            break
        cur = f[0][0]
    f = fails_on_impl([cur])
    return f[0] if f else None


# ------------------------------------------------------------------------------------------------
# Coq terms
# ------------------------------------------------------------------------------------------------
def nat(k):
    return "%d%%nat" % k


def e_lit(E):
    return C.listlit("(%s,%s,(%d,%d,%d)%%Z)" % (nat(i), nat(j), o[0], o[1], o[2]) for i, j, o in E)


def optz(d):
    return "None" if d is None else "(Some %s)" % C.zlit(d)


def pbc_lit(p):
    return "(%s,%s,%s)" % tuple(C.boollit(bool(x)) for x in p)


def term_check(case, orc, r):
    # ... and the elimination rank of the specification equals the determinantal rank whose invariance is proved (RankDet.v)
    return "andb (check_case %s %s %s %s %s %s %s) (rankZ_consistent %s %s %s)" % (
        nat(len(case["numbers"])), pbc_lit(case["pbc"]), e_lit(orc["E"]), optz(r.get("dim")),
        C.listlit(nat(x) for x in (r.get("labels") or [])), optz(orc["dim"]), C.boollit(orc["mismatch"]),
        nat(len(case["numbers"])), pbc_lit(case["pbc"]), e_lit(orc["E"]))


def term_pair(c1, o1, c2, o2):
    return "same_spec %s %s %s %s %s %s" % (nat(len(c1["numbers"])), pbc_lit(c1["pbc"]), e_lit(o1["E"]),
                                            nat(len(c2["numbers"])), pbc_lit(c2["pbc"]), e_lit(o2["E"]))


PREAMBLE_COMPOSED = ("From Coq Require Import List ZArith QArith Bool.\nImport ListNotations.\n"
                     "From MV Require Import Base.ZV3 Geometry.Extend Geometry.Dimensionality Geometry.DimFromTensor.\n")


def composed_term(case, r):
    """The COMPOSED Coq model of get_dimensionality -- the C10 model of get_displacement_tensor on the wrapped structure and on
    its 2x repetition (tab_1x / tab_2x of Geometry/DimFromTensor.v) followed by the arithmetic of the C09 mirror -- evaluated on the
    grid input itself (no oracle in between) and compared with the implementation's answer.  By C09_get_dimensionality_on_C10_tables
    that value is the answer of the discrete mirror on the true bonded network.  Returns (cost estimate, term) or None."""
    if isinstance(case["radii"], str):
        return None
    P = grid_ints(case["positions"])
    Cc = grid_ints(case["cell"])
    if P is None or Cc is None:
        return None
    rad = [Fraction(x) * G for x in case["radii"]]
    thr = Fraction(float(case["thr"])) * G
    if any(x.denominator != 1 for x in rad) or thr.denominator != 1:
        return None
    a, b, c = [[int(x) for x in row] for row in Cc.tolist()]

    def cross(u, v):
        return [u[1] * v[2] - u[2] * v[1], u[2] * v[0] - u[0] * v[2], u[0] * v[1] - u[1] * v[0]]

    def dot(u, v):
        return u[0] * v[0] + u[1] * v[1] + u[2] * v[2]
    V = dot(a, cross(b, c))
    if V == 0:
        return None
    nrm = [cross(b, c), cross(c, a), cross(a, b)]
    pos = []
    for q in P.tolist():
        q = [int(x) for x in q]
        for k, cv in enumerate((a, b, c)):
            if case["pbc"][k]:
                w = dot(q, nrm[k]) // V            # exact floor of the scaled coordinate
                q = [q[m] - w * cv[m] for m in range(3)]
        pos.append(q)

    def v3(u):
        return "(mk3 (%d) (%d) (%d))" % tuple(u)
    pbc = "(mkP %s %s %s)" % tuple("true" if x else "false" for x in case["pbc"])
    cell = " ".join(v3(u) for u in (a, b, c))
    posl = "[%s]" % "; ".join(v3(u) for u in pos)
    radf = "(fun i => nth i [%s] 0%%Z)" % "; ".join("(%d)%%Z" % int(x) for x in rad)
    n = len(pos)
    box = case["_orc"]["info"]["box"]
    cost = n * 2 ** sum(1 for x in case["pbc"] if x) * (2 * box[0] + 1) * (2 * box[1] + 1) * (2 * box[2] + 1)
    t = ("optZ_eqb (get_dim_metric %s (p_of %s) %s (%d)%%Z (tab_1x (1#4) %s %s %s %s (%d)%%Z) (tab_2x (1#4) %s %s %s %s (%d)%%Z)) %s"
         % (nat(n), pbc, radf, int(thr), cell, pbc, posl, radf, int(thr), cell, pbc, posl, radf, int(thr), optz(r.get("dim"))))
    return cost, t


# ------------------------------------------------------------------------------------------------
def canon_hash(case):
    return C.sha(json.dumps(strip(dict(case, id=0)), sort_keys=True))[:16]


def build_cases(ctx, n_base, cap):
    rng = ctx.rng
    cases, pairs = [], []
    dist = {"dense_rejected": 0}
    kinds = ["permute", "shift", "unimodular", "rigid", "supercell"]

    def add(c):
        c["id"] = len(cases)
        c.setdefault("twin", c["id"] % 4 == 1)     # process history of the runner, kept with the case so that replays repeat it
        cases.append(c)
        return c["id"]

    for c in load_corpus():
        try:
            c["_orc"] = oracle(c, None)
        except (Dense, ValueError):
            continue
        add(c)
    made = 0
    attempts = 0
    while made < n_base and attempts < 40 * n_base:
        attempts += 1
        c = gen_base(rng, ctx.tier)
        try:
            c["_orc"] = oracle(c, cap)
        except Dense:
            dist["dense_rejected"] += 1
            continue
        made += 1
        if made % 7 == 0 and c["meta"].get("shifted_atoms", 0) == 0:
            c["precomputed"] = True
        bid = add(c)
        for kind in rng.sample(kinds, 2):
            v = variant(rng, c, kind)
            if v is None:
                continue
            try:
                v["_orc"] = oracle(v, cap)
            except (Dense, ValueError):
                dist["dense_rejected"] += 1
                continue
            v.pop("precomputed", None)
            vid = add(v)
            pairs.append((bid, vid, kind))
    return cases, pairs, dist


def run(ctx):
    ctx.add_trusted(
        "harness oracle (props/c09.py: bonded image pairs by exact integer box enumeration on the 2^-12 grid; its rank computation is cross-checked against dim_spec inside Coq on every case)",
        "C10 specification of the minimum-image table as a Section hypothesis (tab_spec) in Geometry/DimensionalityProofs.v (theorems C09_graph_1x/2x_is_quotient, C09_metric_eq_graph); validated here only through the end-to-end comparison",
        "scikit-learn DBSCAN(min_samples=1, precomputed) = connected components of d <= eps (modelled by Base/Graph.component + Cover.comps; compared on every case through the returned clusters)",
        "ase.Atoms.repeat ordering and np.tile of the radii (modelled by Dimensionality.mask / rad2; compared through the 2x count)",
        "exact-arithmetic semantics: on grid inputs with dyadic radii every bond decision of the implementation is exact in binary64; with preset (non-dyadic) radii cases with |d - t| < 1e-9 are excluded and counted",
        "tested, not proved: invariance of dim_spec under re-presentation (C09_invariance_full_statement; relation same_spec on every generated pair) and equality of the 1x cluster labels")
    ctx.assumptions += [
        "1-30 atoms, non-singular cell 0.5-30 A on the 2^-12 grid, thresholds 0.3-3.5 A, radii > 0",
        "the supercell clause is read as: if the contents of the supercell are still connected the dimensionality is unchanged; a supercell taken along a direction in which the network is not connected has several components and None is required by the first clause",
        "GF(2) rank = integer rank of the cycle lattice (the property's family condition); the code provably returns the GF(2) rank (C09_mirror_eq_spec); generated cases where the two ranks differ are counted as exclusions (rank_mismatch_exclusions)",
        "structures whose periodic images are so dense that the cell list / extended system would not fit the runner's memory budget are not generated (dense_rejected)",
    ]
    # ---- prove ---------------------------------------------------------------------------------
    broken = None
    pres = C.prove_property("C09", [])
    ctx.record_proof(pres)
    if pres["failed"]:
        broken = {"stage": "prove", "file": pres["failed"]["path"], "error": pres["failed"]["out"][-1500:]}

    # ---- generate + oracle -----------------------------------------------------------------------
    quick = ctx.tier == "quick"
    n_base = int(os.environ.get("VERIF_C09_NBASE", 0)) or (750 if quick else 9000)
    cap = 350 if quick else 500
    import time
    t0 = time.time()
    cases, pairs, dist = build_cases(ctx, n_base, cap)
    C.log("[c09] generated %d structures, %d pairs in %.1fs" % (len(cases), len(pairs), time.time() - t0))
    # the first-principles float oracle that the C17/C18 runners use (harness/lib/dim_oracle.py) against the exact integer oracle
    # (itself cross-checked with dim_spec inside Coq on every case): every structure on which the float oracle is decided
    from lib import dim_oracle
    t0 = time.time()
    fo = {"compared": 0, "undecided": 0, "disagree": []}
    for c in cases[: (1200 if quick else 6000)]:
        o = c["_orc"]
        if o["info"]["near_tie"] or o["mismatch"]:
            continue
        try:
            f = dim_oracle.dimensionality(c["positions"], c["cell"], c["pbc"], radii_floats(c), float(c["thr"]), tie=1e-9)
        except Exception as e:  # noqa
            fo["disagree"].append({"id": c["id"], "error": type(e).__name__ + ": " + str(e)[:100]})
            continue
        if not f["decided"]:
            fo["undecided"] += 1
            continue
        fo["compared"] += 1
        if f["dim"] != o["dim"]:
            fo["disagree"].append({"id": c["id"], "float_oracle": f, "exact_oracle": o["dim"]})
    fo["seconds"] = round(time.time() - t0, 1)
    ctx.coverage["float_oracle_of_C17_vs_exact_oracle"] = dict(fo, disagree=fo["disagree"][:5])
    if fo["disagree"]:
        # a defect of the harness, not of the tree under test: the C17/C18 oracle cannot be trusted
        ctx.violation({"kind": "harness-oracles-disagree", "broken": "harness/lib/dim_oracle.py vs the exact oracle of props/c09.py", "cases": fo["disagree"][:3]},
                      found_input=False)
    t0 = time.time()
    res, mode = run_impl(cases)
    C.log("[c09] implementation runs %.1fs" % (time.time() - t0))
    ctx.coverage["ext_mode"] = mode

    # ---- the property's predicate on the implementation -----------------------------------------------
    failing = []
    near = 0
    hist = {}
    excl_mismatch = []
    for c in cases:
        orc = c["_orc"]
        if orc["info"]["near_tie"]:
            near += 1
            continue
        why = predicate(c, orc, res[c["id"]])
        key = "None" if orc["dim"] is None else str(orc["dim"])
        hist[key] = hist.get(key, 0) + 1
        if orc["mismatch"]:
            excl_mismatch.append(c["id"])
        if why:
            failing.append((c, why))
    pair_fail = []
    sc_disconnect = 0
    for bid, vid, kind in pairs:
        b, v = cases[bid], cases[vid]
        if b["_orc"]["info"]["near_tie"] or v["_orc"]["info"]["near_tie"]:
            continue
        rb, rv = res[bid], res[vid]
        if "error" in rb or "error" in rv:
            continue
        if kind == "supercell" and b["_orc"]["connected"] and not v["_orc"]["connected"]:
            sc_disconnect += 1
            continue
        if rb["dim"] != rv["dim"]:
            pair_fail.append((bid, vid, kind))

    # ---- Coq: mirror and specification on the discrete data ------------------------------------------
    terms = []
    skip = set(c["id"] for c, _ in failing)
    for c in cases:
        if c["_orc"]["info"]["near_tie"] or "error" in res[c["id"]]:
            continue
        terms.append((c["id"], term_check(c, c["_orc"], res[c["id"]])))
    base = len(cases)
    for k, (bid, vid, kind) in enumerate(pairs):
        b, v = cases[bid], cases[vid]
        if kind == "supercell" and not (v["_orc"]["connected"]):
            continue
        if b["_orc"]["info"]["near_tie"] or v["_orc"]["info"]["near_tie"]:
            continue
        if kind == "supercell" and (b["_orc"]["mismatch"] or v["_orc"]["mismatch"]):
            continue
        t = term_pair(b, b["_orc"], v, v["_orc"])
        if kind == "supercell":
            # hypothesis of the supercell theorem (Geometry/Supercell.v, supercell_repeat_rankZ_nat): the repeated presentation covers the
            # base presentation -- evaluated inside Coq on the two lists of bonded image pairs
            if "supercell_matrix" in v["meta"]:
                mt = v["meta"]

                def mlit(A):
                    return "(%s)%%Z" % ", ".join("(%d, %d, %d)" % tuple(row) for row in A)
                t = "andb (%s) (cover_b %s %s %s %s %s %s %s (%d)%%Z (fun u => nth u %s 0%%nat) (fun u => nth u %s ozero))" % (
                    t, nat(len(b["numbers"])), nat(len(v["numbers"])), pbc_lit(b["pbc"]), e_lit(b["_orc"]["E"]), e_lit(v["_orc"]["E"]),
                    mlit(mt["supercell_matrix"]), mlit(mt["adjugate"]), mt["det"], C.listlit(nat(x) for x in mt["at"]),
                    C.listlit("(%d, %d, %d)%%Z" % tuple(r) for r in mt["sh"]))
                dist["non_diagonal_supercell_pairs"] = dist.get("non_diagonal_supercell_pairs", 0) + 1
            else:
                rep = v["meta"]["repeats"]
                t = "andb (%s) (cover_repeat_b %s %s %s %s %s %s %s %s)" % (t, nat(len(b["numbers"])), nat(len(v["numbers"])), pbc_lit(b["pbc"]),
                                                                       e_lit(b["_orc"]["E"]), e_lit(v["_orc"]["E"]), nat(rep[0]), nat(rep[1]), nat(rep[2]))
            dist["supercell_pairs_with_cover_relation_checked_in_coq"] = dist.get("supercell_pairs_with_cover_relation_checked_in_coq", 0) + 1
        terms.append((base + k, t))
    t0 = time.time()
    coq_fail, coq_err = C.coq_case_files("C09", PREAMBLE, terms, per_file=max(8, min(250, len(terms) // (3 * C.NCPU) + 1)))
    C.log("[c09] Coq evaluation of %d terms %.1fs; failing %s errors %d" % (len(terms), time.time() - t0, coq_fail[:10], len(coq_err)))
    # ---- the composed model (C10 tables + C09 arithmetic) evaluated on the inputs themselves ---------------------------------
    t0 = time.time()
    cterms = []
    for c in cases:
        r = res.get(c["id"], {})
        if "error" in r or c["_orc"]["info"]["near_tie"] or c["_orc"]["mismatch"] or len(c["numbers"]) > 4 or c["id"] in skip:
            continue
        ct = composed_term(c, r)
        if ct is None or ct[0] > 150 or float(c["thr"]) + 2 * max(radii_floats(c)) <= 0:
            continue
        cterms.append((c["id"], ct[1]))
        if len(cterms) >= (48 if quick else 400):
            break
    comp_fail, comp_err = C.coq_case_files("C09comp", PREAMBLE_COMPOSED, cterms, per_file=4, timeout=1500) if cterms else ([], [])
    dist["composed_model_cases(C10 tables + C09 arithmetic evaluated in Coq on the grid input, compared with the implementation)"] = len(cterms)
    C.log("[c09] composed model on %d inputs %.1fs; failing %s errors %d" % (len(cterms), time.time() - t0, comp_fail[:10], len(comp_err)))
    coq_fail = list(coq_fail) + list(comp_fail)
    coq_err = list(coq_err) + list(comp_err)

    # ---- bookkeeping --------------------------------------------------------------------------------
    nontrivial = set()
    for c in cases:
        o = c["_orc"]
        if o["E"] and not o["info"]["near_tie"]:
            nontrivial.add(canon_hash(c))
    ctx.add_cases(len(terms), len(nontrivial),
                  [{"n_atoms": len(c["numbers"]), "pbc": c["pbc"], "thr": c["thr"], "meta": c["meta"], "bonded_image_pairs": len(c["_orc"]["E"]),
                    "oracle_dim": c["_orc"]["dim"], "impl": res[c["id"]].get("dim", "ERR")} for c in cases[:6]])
    ctx.coverage["rule"] = ("each case: random structure on the 2^-12 grid; evaluated (a) on the implementation, (b) by the harness oracle, (c) inside Coq "
                            "(get_dim_graph and dim_spec on the list of bonded image pairs, relation Dimensionality.check_case); pairs: same_spec. "
                            "non-trivial = distinct canonical inputs with at least one bonded image pair (so that clustering, repeat ordering and the 2x count are exercised)")
    d = dict(dist)
    d.update({
        "structures": len(cases), "pairs": len(pairs), "pairs_by_kind": {k: sum(1 for p in pairs if p[2] == k) for k in ("permute", "shift", "unimodular", "rigid", "supercell")},
        "oracle_dimension_histogram": hist, "none_count": hist.get("None", 0),
        "structures_with_atoms_outside_cell": sum(1 for c in cases if c["_orc"]["info"]["shifted"] > 0),
        "exact_tie_cases(a bond exactly on the threshold, decided <= in exact arithmetic)": sum(1 for c in cases if c.get("meta", {}).get("exact_tie")),
        "near_tie_excluded": near, "rank_mismatch_exclusions": len(excl_mismatch),
        "rank_mismatch_examples": [strip(cases[i]) for i in excl_mismatch[:2]],
        "supercell_disconnects_network(None required)": sc_disconnect,
        "pbc_histogram": {str(k): sum(1 for c in cases if sum(map(bool, c["pbc"])) == k) for k in range(4)},
        "n_atoms_histogram": {b: sum(1 for c in cases if lo <= len(c["numbers"]) <= hi) for b, lo, hi in (("1", 1, 1), ("2-5", 2, 5), ("6-12", 6, 12), ("13-30", 13, 30))},
        "radii_modes": {m: sum(1 for c in cases if c["meta"].get("radii_mode") == m) for m in ("covalent", "vdw", "custom")},
        "shapes": {m: sum(1 for c in cases if c["meta"].get("shape") == m) for m in ("gas", "layer", "chain", "blob")},
        "cells": {m: sum(1 for c in cases if c["meta"].get("cell_kind") == m) for m in ("orthogonal", "skewed", "sheared")},
        "precomputed_matrix_path": sum(1 for c in cases if c.get("precomputed")),
        "resource_excluded": sum(1 for c in cases if "error" in res[c["id"]] and res[c["id"]]["error"].startswith(("CaseTimeout", "MemoryError"))),
        "max_bonded_image_pairs": max([len(c["_orc"]["E"]) for c in cases] or [0]),
    })
    ctx.coverage["input_distribution"] = d
    ctx.coverage["coq_errors"] = coq_err[:3]

    # ---- verdict -----------------------------------------------------------------------------------
    reported = False
    if failing:
        c, why = failing[0]
        small = shrink(c)
        if small:
            sc, swhy, sres, sorc = small
        else:
            sc, swhy, sres, sorc = c, why, res[c["id"]], c["_orc"]
        ctx.violation({"kind": "property-fails-on-implementation", "why": swhy, "case": strip(dict(sc, id=0)), "meta": c.get("meta"),
                       "implementation": {k: sres.get(k) for k in ("dim", "labels", "error", "untouched", "dim_precomputed")},
                       "oracle": {"dimension": sorc["dim"], "labels": sorc["labels"], "bonded_image_pairs": sorc["E"][:60]},
                       "others_failing": len(failing) - 1, "broken_obligation": broken}, found_input=True)
        reported = True
    elif pair_fail:
        bid, vid, kind = pair_fail[0]
        ctx.violation({"kind": "invariance-fails-on-implementation", "clause": kind, "case": strip(dict(cases[bid], id=0)),
                       "variant": strip(dict(cases[vid], id=0)), "variant_meta": cases[vid]["meta"],
                       "implementation": [res[bid].get("dim"), res[vid].get("dim")], "broken_obligation": broken}, found_input=True)
        reported = True
    coq_only = [i for i in coq_fail if i not in skip]
    if (coq_only or coq_err) and not reported:
        info = {"kind": "correspondence-broken", "broken": "Dimensionality.check_case / same_spec (model vs implementation vs oracle)",
                "failing_case_ids": coq_only[:20], "coq_errors": coq_err[:2]}
        if coq_only and coq_only[0] < base:
            c = cases[coq_only[0]]
            info["case"] = strip(c)
            info["implementation"] = res[c["id"]]
            info["oracle"] = {"dimension": c["_orc"]["dim"], "rank2": c["_orc"]["rank2"], "labels": c["_orc"]["labels"]}
        elif coq_only:
            bid, vid, kind = pairs[coq_only[0] - base]
            info["pair"] = [strip(cases[bid]), strip(cases[vid]), kind]
        ctx.violation(info, found_input=False)
        reported = True
    if broken and not reported:
        ctx.violation({"kind": "proof-obligation-broken", "broken": broken,
                       "searched": "%d structures and %d pairs on the implementation: property holds on all" % (len(cases), len(pairs))},
                      found_input=False)


def replay(ctx, rep):
    kind = rep.get("kind")
    if kind == "property-fails-on-implementation":
        f = fails_on_impl([dict(rep["case"])])
        if f:
            ctx.violation(rep, found_input=True)
        else:
            print("replay: property holds on this input now")
    elif kind == "invariance-fails-on-implementation":
        a, b = dict(rep["case"], id=0), dict(rep["variant"], id=1)
        res, _ = run_impl([a, b])
        if res[0].get("dim") != res[1].get("dim") or "error" in res[0] or "error" in res[1]:
            ctx.violation(rep, found_input=True)
        else:
            print("replay: both presentations give the same answer now")
    else:
        run(ctx)
