"""C01 -- SBC always returns a well-formed, disjoint, connected set of clusters.

prove (Properties/C01.v over the hand-written model coq/Sbc/*.v)
-> correspond:
   (i)   scripted finder through the public API (SBC().get_clusters with
         matid.clustering.sbc.PeriodicFinder replaced by a stub), stage snapshots compared with
         drive/merge/localize/clean evaluated inside Coq on the same script, exact rational distance
         matrix and recorded draws;
   (ii)  trace validation with the real finder on the C01 structure family: every get_region call is
         logged, F0 is checked per call, the model is replayed on the log; the property's own predicate
         is evaluated on the returned clusters (connectivity recomputed from ASE's minimum-image
         distances of the caller's structure);
   (iii) observations the model cannot express: input Atoms untouched, determinism, exception class
         (front end: ValueError iff the model says so, evaluated in Coq).
"""
import glob
import json
import os
import time

from lib import common as C
from props import sbc_gen as G
from props import sbc_terms as T

LEVEL = "proof"
STATIC = ["Sbc/PipelineProofs.vo", "Sbc/Examples.vo", "Sbc/Pipeline.vo", "Sbc/ClusterCacheProofs.vo", "Sbc/PipelineBond.vo", "Base/CaseUtil.vo"]
PID = "C01"
IMPL = "c01_impl"
KNOWN_EXC_KEYS = {}


# ------------------------------------------------------------------------------------------------
# running the implementation
# ------------------------------------------------------------------------------------------------
def run_impl(cases, script=IMPL, jobs=None):
    if not cases:
        return {}
    jobs = jobs or C.NCPU
    order = sorted(cases, key=lambda c: -len(c["structure"]["numbers"]))
    chunks = [order[i::jobs] for i in range(jobs)]
    chunks = [c for c in chunks if c]
    outs = C.impl_run_parallel(script, [{"cases": ch} for ch in chunks], timeout=6000)
    res = {}
    for o in outs:
        for r in o["results"]:
            res[r["id"]] = r
    res["_shim"] = outs[0].get("shim") if outs else None
    return res


def case_hash(case):
    d = {k: case[k] for k in ("structure", "params", "regions", "script", "mode") if k in case}
    return C.sha(json.dumps(d, sort_keys=True))


# ------------------------------------------------------------------------------------------------
# direct evaluation of the property on one implementation result
# ------------------------------------------------------------------------------------------------
def model_front_end_error(zero, pbc):
    """mirror of Coq front_end (the Coq evaluation is the one that counts; this is only used to
    classify before the Coq shard comes back)"""
    return any(z and p for z, p in zip(zero, pbc))


def direct_failures(case, r):
    """list of (kind, detail) on which the property itself fails for this input"""
    out = []
    n = len(case["structure"]["numbers"])
    if r.get("timeout"):
        if case["mode"] == "script" or r.get("calls_made", 0) > n:
            out.append(("does-not-return", {"finder_calls": r.get("calls_made"), "n_atoms": n,
                                            "first_seeds": r.get("seeds_head", [])[:20]}))
        return out
    if r.get("immutable") is False:
        out.append(("input-mutated", {}))
    err = r.get("error")
    if err is not None and err["type"] == "NonTermination":
        out.append(("does-not-return", {"finder_calls": "> n", "n_atoms": n, "msg": err["msg"]}))
        return out
    want_err = model_front_end_error(r["zero"], case["structure"]["pbc"])
    if err is not None:
        if not (err["type"] == "ValueError" and want_err):
            out.append(("forbidden-exception", err))
        return out
    if want_err:
        out.append(("missing-ValueError", {"zero": r["zero"], "pbc": case["structure"]["pbc"]}))
        return out
    if r.get("predicate_failures"):
        out.append(("predicate", r["predicate_failures"][:3]))
    if r.get("deterministic") is False:
        out.append(("nondeterministic", {}))
    return out


def exception_key(err):
    return "exception:%s@%s" % (err.get("type"), err.get("where", ""))


# ------------------------------------------------------------------------------------------------
# Coq side
# ------------------------------------------------------------------------------------------------
def coq_term(case, r):
    if case["mode"] == "script":
        return T.agree_run_term(case, r, T.script_finder(case["regions"], case["script"]))
    return "(%s && f0_log %d %s)" % (T.agree_run_term(case, r, T.log_finder(r["calls"])), r["n"], T.log_entries(r["calls"]))


def frontend_term(case, r):
    z = T.booll(r["zero"])
    p = T.booll(case["structure"]["pbc"])
    raised = r.get("error") is not None and r["error"]["type"] == "ValueError"
    return "(Bool.eqb (match front_end %s %s with FeValueError => true | FeOk _ _ => false end) %s)" % (z, p, C.boollit(raised))


def coq_compare(name, cases, res, per_file):
    terms, fterms = [], []
    for c in cases:
        r = res.get(c["id"])
        if r is None or r.get("timeout"):
            continue
        fterms.append((c["id"], frontend_term(c, r)))
        if r.get("error") is None and "stages" in r and all(k in r["stages"] for k in ("drive", "merge", "local", "clean")):
            terms.append((c["id"], coq_term(c, r)))
    failing, errors = C.coq_case_files(name, T.PREAMBLE, terms, per_file=per_file) if terms else ([], [])
    ffail, ferr = C.coq_case_files(name + "_fe", T.PREAMBLE, fterms, per_file=250) if fterms else ([], [])
    return failing, ffail, errors + ferr, len(terms), len(fterms)


# ------------------------------------------------------------------------------------------------
# shrinking
# ------------------------------------------------------------------------------------------------
def drop_atoms(case, keep):
    """sub-structure on the atoms `keep` (scripts are re-indexed)"""
    st = case["structure"]
    new = dict(case)
    remap = {a: k for k, a in enumerate(keep)}
    new["structure"] = {"numbers": [st["numbers"][a] for a in keep], "positions": [st["positions"][a] for a in keep],
                        "cell": st["cell"], "pbc": st["pbc"]}
    if isinstance(case["params"].get("radii"), dict):
        new["params"] = dict(case["params"])
        new["params"]["radii"] = {"array": [case["params"]["radii"]["array"][a] for a in keep]}
    if case["mode"] == "script":
        new["regions"] = [{"basis": [remap[i] for i in r["basis"] if i in remap], "pbc": r["pbc"]} for r in case["regions"]]
        new["script"] = [{"region": case["script"][a]["region"], "mask": sorted({remap[i] for i in case["script"][a]["mask"] if i in remap} | {remap[a]})}
                         for a in keep]
    return new


def shrink(case, kind, fails, budget_s=90, impl=IMPL):
    """greedy: drop blocks of atoms while the same kind of failure persists (time-boxed)"""
    t0 = time.time()
    cur = case
    block = max(1, len(cur["structure"]["numbers"]) // 2)
    while block >= 1 and time.time() - t0 < budget_s:
        n = len(cur["structure"]["numbers"])
        if n <= 1:
            break
        cands = []
        for start in range(0, n, block):
            keep = [a for a in range(n) if not (start <= a < start + block)]
            if keep:
                c = drop_atoms(cur, keep)
                c["id"] = len(cands)
                c["twice"] = (kind == "nondeterministic")
                cands.append(c)
        cands = cands[:2 * C.NCPU]
        try:
            res = run_impl(cands, impl)
        except Exception:
            break
        hit = None
        for c in cands:
            r = res.get(c["id"])
            if r is not None and fails(c, r):
                hit = c
                break
        if hit is not None:
            cur = hit
            block = min(block, max(1, len(cur["structure"]["numbers"]) // 2))
        else:
            block //= 2
    return cur


# ------------------------------------------------------------------------------------------------
# statistics
# ------------------------------------------------------------------------------------------------
def stage_changes(r):
    st = r.get("stages") or {}
    if not all(k in st for k in ("drive", "merge", "local", "clean")):
        return {}
    key = lambda l: [sorted(c["idx"]) for c in l]  # noqa: E731
    d = {"merged": any(c["merged"] for c in st["merge"]),
         "localized": key(st["merge"]) != key(st["local"]),
         "emptied": sum(1 for c in st["local"] if not c["idx"]),
         "cleaned": key([c for c in st["local"] if c["idx"]]) != key(st["clean"]),
         "clusters": len(st["clean"])}
    return d


def load_corpus(pid):
    out = []
    for p in sorted(glob.glob(os.path.join(C.VERIF, "corpus", pid, "*.json"))):
        with open(p) as f:
            c = json.load(f)
        c["corpus"] = os.path.basename(p)
        out.append(c)
    return out


# ------------------------------------------------------------------------------------------------
def run(ctx):
    ctx.add_trusted(
        "hand-written Gallina model coq/Sbc/{Common,Driver,Merge,Localize,Clean,Pipeline}.v of matid/clustering/sbc.py (tied to the tree by the correspondence below, not by a translator)",
        "oracles as Section variables: PeriodicFinder.get_region (contract F0, checked on every logged call), numpy Generator.choice (returns a member), CPython set iteration order (any duplicate-free enumeration)",
        "scikit-learn DBSCAN(min_samples=1, precomputed) = connected components in order of first member (Base/Graph.v component_iff; compared on every cluster cleaned in every run)",
        "exact-arithmetic reading of float comparisons: D < merge_radius and clip(D) <= eps are evaluated on the exact rationals of the doubles; fl(a/b) > t is evaluated as a/b > midpoint(t, nextafter(t)) (no a/b with b <= 2^20 is such a midpoint)",
        "harness-side stubs/wrappers in harness/impl/sbc_common.py; ASE minimum-image distances for the independent connectivity predicate",
    )
    ctx.assumptions += [
        "structure has at least one atom and a cell whose non-zero vectors are linearly independent (a 'valid cell')",
        "max_cell_size > 0 (otherwise search_mask[seed] is false, F0 fails and the driver loop does not terminate -- outside the parameter domain of the property; recorded as a note)",
        "bond_threshold > 0 (for eps <= 0 the clipping in matid.geometry.get_clusters bonds every pair; Example clip_nonpositive_threshold)",
        "symmetric radii-corrected distance matrix (checked on every run: d_symmetric)",
    ]
    ctx.notes.append("termination note: max_cell_size <= 0 makes search_mask[seed] false, so `indices` never shrinks when no region is found and SBC.get_clusters spins forever (outside the property's parameter domain)")
    broken = []

    pres = C.prove_property(PID)
    ctx.record_proof(pres)
    if pres["failed"]:
        broken.append({"stage": "prove", "file": pres["failed"]["path"], "error": pres["failed"]["out"][-1500:]})

    quick = ctx.tier == "quick"
    n_script = 800 if quick else 6000
    n_real = 120 if quick else 900
    max_atoms = 120 if quick else 300
    n_front = 64 if quick else 256

    rng = ctx.rng
    corpus = load_corpus(PID)
    cases = []
    for c in corpus:
        c = dict(c)
        c["id"] = len(cases)
        cases.append(c)
    n_corpus = len(cases)
    for _ in range(n_script):
        cases.append(G.gen_script_case(rng, len(cases), big=not quick))
    for _ in range(n_real):
        cases.append(G.gen_real_case(rng, len(cases), max_atoms))
    for _ in range(n_front):
        cases.append(G.gen_frontend_case(rng, len(cases)))
    by_id = {c["id"]: c for c in cases}

    t0 = time.time()
    script_cases = [c for c in cases if c["mode"] == "script"]
    real_cases = [c for c in cases if c["mode"] != "script"]
    res = {}
    res.update(run_impl(script_cases))
    t_script = time.time() - t0
    t1 = time.time()
    res.update(run_impl(real_cases))
    t_real = time.time() - t1
    ctx.coverage["shim_mode"] = res.get("_shim")

    # ---- Coq evaluation of the agreement relations
    t2 = time.time()
    f_s, ff_s, err_s, nt_s, nf_s = coq_compare("c01_script", script_cases, res, per_file=max(5, min(60, len(script_cases) // (2 * C.NCPU) + 1)))
    f_r, ff_r, err_r, nt_r, nf_r = coq_compare("c01_real", real_cases, res, per_file=max(1, min(8, len(real_cases) // (2 * C.NCPU) + 1)))
    t_coq = time.time() - t2
    corr_fail = sorted(set(f_s + f_r))
    fe_fail = sorted(set(ff_s + ff_r))
    coq_errors = err_s + err_r

    # ---- statistics and direct property failures
    known = C.load_known(PID)
    dist = {"kinds": {}, "pbc": {}, "sizes": {"1-4": 0, "5-20": 0, "21-60": 0, "61-120": 0, "121-300": 0},
            "script": {"merged": 0, "localized": 0, "emptied_clusters": 0, "cleaned": 0, "region_none_calls": 0},
            "real": {"merged": 0, "localized": 0, "cleaned": 0, "with_clusters": 0, "finder_calls": 0, "f0_checked_calls": 0},
            "errors": {}, "timeouts": 0, "determinism_checked": 0, "immutability_checked": 0}
    seen_hash = set()
    nontrivial = 0
    direct = []
    f0_bad = []
    asym = []
    for c in cases:
        r = res.get(c["id"])
        if r is None:
            continue
        n = len(c["structure"]["numbers"])
        kind = c.get("meta", {}).get("kind", "script")
        dist["kinds"][kind] = dist["kinds"].get(kind, 0) + 1
        pk = "".join("T" if b else "F" for b in c["structure"]["pbc"])
        dist["pbc"][pk] = dist["pbc"].get(pk, 0) + 1
        for lab, lo, hi in (("1-4", 1, 4), ("5-20", 5, 20), ("21-60", 21, 60), ("61-120", 61, 120), ("121-300", 121, 300)):
            if lo <= n <= hi:
                dist["sizes"][lab] += 1
        if r.get("timeout"):
            dist["timeouts"] += 1
        if r.get("error"):
            dist["errors"][r["error"]["type"]] = dist["errors"].get(r["error"]["type"], 0) + 1
        if "immutable" in r:
            dist["immutability_checked"] += 1
        if "deterministic" in r:
            dist["determinism_checked"] += 1
        ch = stage_changes(r)
        grp = "script" if c["mode"] == "script" else "real"
        if ch:
            for k in ("merged", "localized", "cleaned"):
                if ch[k]:
                    dist[grp][k] += 1
            if grp == "script":
                dist["script"]["emptied_clusters"] += ch["emptied"]
                dist["script"]["region_none_calls"] += sum(1 for x in r.get("calls", []) if x["basis"] is None)
            else:
                dist["real"]["finder_calls"] += len(r.get("calls", []))
                dist["real"]["f0_checked_calls"] += len(r.get("calls", []))
                if ch["clusters"]:
                    dist["real"]["with_clusters"] += 1
        nt = bool(ch and (ch["merged"] or ch["localized"] or ch["cleaned"] or ch["emptied"])) if grp == "script" \
            else bool((ch and (ch["clusters"] or len(r.get("calls", [])) > 1)) or r.get("error"))
        h = case_hash(c)
        if nt and h not in seen_hash:
            nontrivial += 1
        seen_hash.add(h)
        if r.get("f0_violations"):
            f0_bad.append(c["id"])
        if r.get("d_symmetric") is False or r.get("d_finite") is False:
            asym.append(c["id"])
        for kind_, detail in direct_failures(c, r):
            direct.append((c["id"], kind_, detail))
    n_eval = sum(1 for c in cases if c["id"] in res)
    samples = []
    for c in (script_cases[:1] + real_cases[:2]):
        r = res.get(c["id"], {})
        samples.append({"mode": c["mode"], "meta": c.get("meta"), "params": c["params"], "n_atoms": len(c["structure"]["numbers"]),
                        "finder_calls": len(r.get("calls", [])), "clusters": r.get("final")})
    ctx.add_cases(n_eval, nontrivial, samples)
    ctx.coverage["rule"] = ("scripted cases: non-trivial iff merge, localize or clean changed a cluster or a cluster was emptied and dropped; "
                            "real-finder cases: non-trivial iff a region was found or more than one finder call was made (or the front end raised); "
                            "distinct by SHA-256 of (structure, params, script)")
    ctx.coverage["input_distribution"] = dist
    ctx.coverage["counts"] = {"corpus": n_corpus, "scripted": len(script_cases), "real_finder": n_real, "front_end": n_front,
                              "coq_agree_run_evaluated": nt_s + nt_r, "coq_front_end_evaluated": nf_s + nf_r,
                              "max_atoms": max_atoms}
    ctx.coverage["timing_s"] = {"impl_scripted": round(t_script, 1), "impl_real": round(t_real, 1), "coq": round(t_coq, 1)}
    ctx.coverage["exhaustive"] = False

    # ---- verdict ---------------------------------------------------------------------------------
    reported = False
    # (1) the property itself fails on an input
    seen_kinds = set()
    for cid, kind, detail in direct:
        c = by_id[cid]
        if kind == "forbidden-exception":
            k = C.known_match(known, exception_key(detail))
            if k:
                ctx.known_finding(k)
                continue
        if kind in seen_kinds:
            continue
        seen_kinds.add(kind)

        def still(cc, rr, kind=kind):
            return any(k2 == kind for k2, _ in direct_failures(cc, rr))
        small = shrink(c, kind, still, budget_s=60 if quick else 240) if kind != "does-not-return" else c
        r2 = run_impl([dict(small, id=0)]).get(0, {})
        d2 = [d for k2, d in direct_failures(small, r2) if k2 == kind]
        rep = {"kind": "property-fails-on-implementation", "failure": kind, "detail": d2[0] if d2 else detail,
               "case": strip(small), "original_atoms": len(c["structure"]["numbers"]),
               "key": exception_key(detail) if kind == "forbidden-exception" else None,
               "broken_obligation": broken or None,
               "how": "SBC().get_clusters on case.structure with case.params" + (" and the scripted finder case.regions/case.script" if c["mode"] == "script" else "")}
        ctx.violation(rep, found_input=True)
        reported = True
    ctx.coverage["direct_failures"] = [{"case": cid, "kind": k} for cid, k, _ in direct[:20]]

    # (1b) history: one SBC instance reused (same atoms with another periodicity, other radii / thresholds first).  The answer
    # must be the function of (structure, parameters, seed) that a fresh SBC() computes.
    from props import sbc_gen as _SG
    rcases, rrows = _SG.reuse_stream(ctx.rng, quick)
    rbad = [r for r in rrows if r.get("same_as_fresh") is False]
    ctx.add_cases(len(rrows), sum(1 for r in rrows if "error" not in r))
    ctx.coverage["sbc_instance_reuse"] = {"sequences": len(rrows), "errors": sum(1 for r in rrows if "error" in r), "differences": rbad[:5]}
    for r in rbad[:1]:
        rc = [c for c in rcases if c["id"] == r["id"]][0]
        ctx.violation({"kind": "property-fails-on-implementation", "failure": "not a function of (structure, parameters, seed)",
                       "history": "sbc = SBC(); sbc.get_clusters(structure with pbc=alt_pbc, **kwargs); for each of prior_structures (translated / permuted / other-element copy, rng seeded with the case id): sbc.get_clusters(copy, **kwargs); (odd case ids: the same Atoms object is clustered once more, then re-ordered and a third of its atoms relabelled IN PLACE, rng seeded with the case id -- see harness/impl/sbc_reuse_impl.py); for pk in prior: sbc.get_clusters(structure, **pk); "
                                  "clusters = sbc.get_clusters(structure, **kwargs) differ from SBC().get_clusters(structure, **kwargs)",
                       "structure": rc["structure"], "alt_pbc": rc["alt_pbc"], "kwargs": rc["kwargs"], "prior": rc["prior"], "prior_structures": rc.get("prior_structures"), "detail": r,
                       "broken_obligation": broken or None}, found_input=True)
        reported = True

    # (2) correspondence / contract / proof broke but the property's predicate held on every input tried
    corr = [(cid, "agree_run (model vs implementation stage snapshots)") for cid in corr_fail] + \
           [(cid, "front_end (ValueError iff zero vector on a periodic axis)") for cid in fe_fail] + \
           [(cid, "F0 (finder contract) violated on a logged call") for cid in f0_bad] + \
           [(cid, "assumption: radii-corrected distance matrix symmetric and finite") for cid in asym]
    ctx.coverage["correspondence_failures"] = [{"case": cid, "relation": rel} for cid, rel in corr[:20]]
    if coq_errors:
        broken.append({"stage": "correspond", "error": coq_errors[0]})
    if (corr or broken) and not reported:
        rep = {"kind": "correspondence-or-proof-broken",
               "broken": (broken[0] if broken else {"relation": corr[0][1]}),
               "searched": "property predicate (non-empty, duplicate-free, in range, disjoint, species, connectivity, cell periodicity, "
                           "input untouched, determinism, exception class) evaluated on all %d generated inputs: no failing input" % n_eval}
        if corr:
            cid, rel = corr[0]
            c = by_id[cid]

            def still_c(cc, rr):
                if rr.get("error") or rr.get("timeout") or "stages" not in rr:
                    return False
                f, ff, e, _, _ = coq_compare("c01_shrink", [cc], {cc["id"]: rr}, per_file=1)
                return bool(f or e)
            small = shrink(c, "corr", still_c, budget_s=40) if rel.startswith("agree_run") and len(c["structure"]["numbers"]) <= 40 else c
            rep["case"] = strip(small)
            rep["relation"] = rel
            rep["n_disagreeing_cases"] = len(corr)
        ctx.violation(rep, found_input=False)


def strip(case):
    return {k: v for k, v in case.items() if k in ("mode", "structure", "params", "regions", "script", "matrix", "twice", "meta", "frontend", "time_limit")}


def replay(ctx, rep):
    case = dict(rep.get("case") or {})
    if not case:
        pres = C.prove_property(PID)
        if pres["failed"]:
            ctx.violation(rep, found_input=False)
        else:
            print("replay: the proof obligations hold now")
        return
    case["id"] = 0
    case.setdefault("twice", True)
    if rep.get("failure") == "nondeterministic":
        case["twice"] = True
    r = run_impl([case]).get(0, {})
    d = direct_failures(case, r)
    if d:
        ctx.violation(dict(rep, detail_now=[{"kind": k, "detail": x} for k, x in d]), found_input=True)
        return
    f, ff, e, _, _ = coq_compare("c01_replay", [case], {0: r}, per_file=1)
    if f or ff or e or r.get("f0_violations"):
        ctx.violation(dict(rep, relation_now="agree_run/front_end/F0 still disagree"), found_input=False)
        return
    print("replay: property and correspondence hold on this input now")
