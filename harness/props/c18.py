"""C18 -- Classifier recognises pristine slabs and monolayers and isolates adsorbates.

LEVEL = other: a CONDITIONAL theorem (Properties/C18.v: contract F1 on the finder + dimensionality 2
=> Surface with outliers = the adsorbates / Material2D without outliers) plus a CONTRACT-CONFORMANCE
RUN of the real code on a curated, deterministic enumeration of the family stated in the property.
This is not a proof of the for-all claim: that the real PeriodicFinder honours F1 on every member of
the family is tested on the enumerated members, not proved.
"""
import contextlib
import io
import json
import os
import time

import numpy as np

from lib import common as C
from props import c17

LEVEL = "other"
STATIC = ["Classify/DispatchProofs.vo", "Base/CaseUtil.vo"]
PID = "C18"
CORPUS = os.path.join(C.VERIF, "corpus", PID)

BOND_THRESHOLD = 0.75      # Classifier default
OVERLAP_THRESHOLD = -0.6   # PeriodicFinder.get_region default
CLUSTER_THRESHOLD = 3.5
MAX_CELL_SIZE = 12.0
MARGIN = 0.05
MIN_LATERAL = 9.0
VACUUM = 7.0               # on each side: 14 A between periodic images of the slab


# ---------------------------------------------------------------------------------------------
# the family
# ---------------------------------------------------------------------------------------------
def reference_elements():
    from ase.data import reference_states, chemical_symbols
    out = {"fcc": [], "bcc": [], "hcp": [], "diamond": [], "sc": []}
    for z in range(1, 97):
        rs = reference_states[z]
        if rs and rs.get("symmetry") in out and "a" in rs:
            out[rs["symmetry"]].append((chemical_symbols[z], rs))
    return out


COMPOUNDS = {
    # name: (symbols, basis, spacegroup, cellpar)
    "rocksalt-NaCl": (("Na", "Cl"), [(0, 0, 0), (0.5, 0.5, 0.5)], 225, [5.64, 5.64, 5.64, 90, 90, 90]),
    "rocksalt-MgO": (("Mg", "O"), [(0, 0, 0), (0.5, 0.5, 0.5)], 225, [4.21, 4.21, 4.21, 90, 90, 90]),
    "zincblende-ZnS": (("Zn", "S"), [(0, 0, 0), (0.25, 0.25, 0.25)], 216, [5.41, 5.41, 5.41, 90, 90, 90]),
    "zincblende-GaAs": (("Ga", "As"), [(0, 0, 0), (0.25, 0.25, 0.25)], 216, [5.65, 5.65, 5.65, 90, 90, 90]),
    "cscl-CsCl": (("Cs", "Cl"), [(0, 0, 0), (0.5, 0.5, 0.5)], 221, [4.12, 4.12, 4.12, 90, 90, 90]),
    "fluorite-CaF2": (("Ca", "F"), [(0, 0, 0), (0.25, 0.25, 0.25)], 225, [5.46, 5.46, 5.46, 90, 90, 90]),
    "wurtzite-ZnO": (("Zn", "O"), [(1 / 3, 2 / 3, 0), (1 / 3, 2 / 3, 0.382)], 186, [3.25, 3.25, 5.2, 90, 90, 120]),
    "perovskite-SrTiO3": (("Sr", "Ti", "O"), [(0, 0, 0), (0.5, 0.5, 0.5), (0.5, 0.5, 0)], 221, [3.905, 3.905, 3.905, 90, 90, 90]),
    "rutile-TiO2": (("Ti", "O"), [(0, 0, 0), (0.305, 0.305, 0)], 136, [4.59, 4.59, 2.96, 90, 90, 90]),
}
COMPOUND_FACETS = {
    "rocksalt-NaCl": [(1, 0, 0), (1, 1, 0)], "rocksalt-MgO": [(1, 0, 0), (1, 1, 0)],
    "zincblende-ZnS": [(1, 1, 0)], "zincblende-GaAs": [(1, 1, 0)], "cscl-CsCl": [(1, 1, 0)],
    "fluorite-CaF2": [(1, 1, 0)], "wurtzite-ZnO": [(1, 0, 0)], "perovskite-SrTiO3": [(1, 0, 0)],
    "rutile-TiO2": [(1, 1, 0), (0, 0, 1)],
}

ADSORBATES = ["H", "O", "C", "N"]


def lateral_repeats(cell):
    """smallest in-plane repeats making both in-plane cell heights >= MIN_LATERAL"""
    a, b = np.array(cell[0]), np.array(cell[1])
    area = np.linalg.norm(np.cross(a, b))
    ha = area / np.linalg.norm(b)      # height of a over b
    hb = area / np.linalg.norm(a)
    return int(np.ceil(MIN_LATERAL / ha - 1e-9)), int(np.ceil(MIN_LATERAL / hb - 1e-9))


def element_slab(sym, st, rs, facet, layers):
    import ase.build as B
    a = rs["a"]
    if st == "fcc":
        f = {"100": B.fcc100, "110": B.fcc110, "111": B.fcc111}[facet]
        unit = f(sym, size=(1, 1, layers), a=a, vacuum=VACUUM)
    elif st == "bcc":
        unit = B.bcc100(sym, size=(1, 1, layers), a=a, vacuum=VACUUM)
    elif st == "hcp":
        c = rs.get("c/a", 1.633) * a
        unit = B.hcp0001(sym, size=(1, 1, layers), a=a, c=c, vacuum=VACUUM)
    elif st == "diamond":
        f = {"100": B.diamond100, "111": B.diamond111}[facet]
        unit = f(sym, size=(1, 1, layers), a=a, vacuum=VACUUM)
    elif st == "sc":
        from ase.build import bulk, surface
        unit = surface(bulk(sym, "sc", a=a), (1, 0, 0), layers, vacuum=VACUUM)
    else:
        raise ValueError(st)
    nx, ny = lateral_repeats(np.array(unit.get_cell()))
    at = unit.repeat((nx, ny, 1))
    at.set_pbc(True)
    return at


def compound_slab(name, facet, layers):
    from ase.spacegroup import crystal
    from ase.build import surface
    syms, basis, sg, cellpar = COMPOUNDS[name]
    bulk = crystal(syms, basis=basis, spacegroup=sg, cellpar=cellpar)
    unit = surface(bulk, facet, layers, vacuum=VACUUM)
    nx, ny = lateral_repeats(np.array(unit.get_cell()))
    at = unit.repeat((nx, ny, 1))
    at.set_pbc(True)
    return at


def monolayer(kind, n):
    import ase.build as B
    if kind == "graphene":
        at = B.graphene(formula="C2", a=2.46, size=(n, n, 1), vacuum=VACUUM)
    elif kind == "hBN":
        at = B.graphene(formula="BN", a=2.50, size=(n, n, 1), vacuum=VACUUM)
    elif kind == "MoS2-2H":
        at = B.mx2(formula="MoS2", kind="2H", a=3.18, thickness=3.19, size=(n, n, 1), vacuum=VACUUM)
    elif kind == "WSe2-2H":
        at = B.mx2(formula="WSe2", kind="2H", a=3.32, thickness=3.34, size=(n, n, 1), vacuum=VACUUM)
    elif kind == "TiS2-1T":
        at = B.mx2(formula="TiS2", kind="1T", a=3.41, thickness=2.85, size=(n, n, 1), vacuum=VACUUM)
    else:
        raise ValueError(kind)
    at.set_pbc(True)
    return at


def add_adsorbates(at, nads, k):
    """nads foreign atoms on top sites of the highest layer, at the sum of the covalent radii above the
    surface atom (radii-corrected distance 0: bonded, not overlapping); deterministic choice by k"""
    from ase import Atom
    from ase.data import covalent_radii, atomic_numbers
    if nads == 0:
        return at, []
    pos = at.get_positions()
    z = pos[:, 2]
    top = [i for i in range(len(at)) if z[i] > z.max() - 0.4]
    present = set(at.get_chemical_symbols())
    pool = [s for s in ADSORBATES if s not in present]
    at = at.copy()
    ads = []
    chosen = []
    for j in range(nads):
        # second adsorbate: a top atom far from the first one
        if not chosen:
            i = top[k % len(top)]
        else:
            d = [min(np.linalg.norm(pos[t, :2] - pos[c, :2]) for c in chosen) for t in top]
            i = top[int(np.argmax(d))]
        chosen.append(i)
        sym = pool[(k + j) % len(pool)]
        h = covalent_radii[atomic_numbers[sym]] + covalent_radii[at.get_atomic_numbers()[i]]
        at.append(Atom(sym, position=pos[i] + np.array([0, 0, h])))
        ads.append(len(at) - 1)
    # keep the vacuum as it was below the slab: the adsorbates stick into the upper vacuum (14 A wide)
    return at, ads


def add_same_species_pair(at, k):
    """two adsorbates of ONE foreign species on lattice-inequivalent sites of the highest layer: one on top of a surface atom,
    one bridging two neighbouring surface atoms (both at the sum of the covalent radii from their surface neighbours)"""
    from ase import Atom
    from ase.data import covalent_radii, atomic_numbers
    pos = at.get_positions()
    z = pos[:, 2]
    top = [i for i in range(len(at)) if z[i] > z.max() - 0.4]
    present = set(at.get_chemical_symbols())
    sym = [s for s in ADSORBATES if s not in present][k % len([s for s in ADSORBATES if s not in present])]
    ra = covalent_radii[atomic_numbers[sym]]
    at = at.copy()
    cell = np.array(at.get_cell())
    i = top[k % len(top)]
    rs = covalent_radii[at.get_atomic_numbers()[i]]
    at.append(Atom(sym, position=pos[i] + np.array([0, 0, ra + rs])))
    # bridge site: the pair of neighbouring top atoms (minimum image in the plane) farthest from the on-top site
    best = None
    for a_ in top:
        for b_ in top:
            if a_ >= b_:
                continue
            d = pos[b_] - pos[a_]
            d[:2] -= np.round(np.linalg.solve(cell[:2, :2].T, d[:2])) @ cell[:2, :2]
            L = np.linalg.norm(d[:2])
            if L < 1e-6 or L > 2 * (ra + rs) - 0.3:
                continue
            mid = pos[a_] + 0.5 * d
            far = np.linalg.norm(mid[:2] - pos[i, :2])
            if best is None or (L, -far) < (best[0], -best[1]):
                best = (L, far, mid)
    if best is None:
        return None, []
    L, far, mid = best
    h = (max((ra + rs) ** 2 - (L / 2) ** 2, 0.25)) ** 0.5
    at.append(Atom(sym, position=[mid[0], mid[1], z.max() + h]))
    return at, [len(at) - 2, len(at) - 1]


def load_corpus():
    from ase import Atoms
    members = []
    if os.path.isdir(CORPUS):
        for fn in sorted(os.listdir(CORPUS)):
            if fn.endswith(".json"):
                with open(os.path.join(CORPUS, fn)) as f:
                    d = json.load(f)
                for c in d["members"]:
                    at = Atoms(numbers=c["numbers"], positions=c["positions"], cell=c["cell"], pbc=c["pbc"])
                    members.append({"label": c["label"], "atoms": at, "slab": c["slab"], "ads": c["ads"], "two_d": c["two_d"]})
    return members


def enumerate_family(tier):
    """deterministic list of members: (label, atoms, slab indices, adsorbate indices, two_d)"""
    quick = tier == "quick"
    els = reference_elements()
    members = []
    k = 0

    def add(label, at, two_d, nads):
        nonlocal k
        n0 = len(at)
        at2, ads = add_adsorbates(at, nads, k) if not two_d else (at, [])
        members.append({"label": label, "atoms": at2, "slab": list(range(n0)), "ads": ads, "two_d": two_d})
        k += 1

    pick = {"fcc": ["Cu", "Al", "Au", "Pt", "Ni", "Pb", "Ca"], "bcc": ["Fe", "W", "Na", "Mo"], "hcp": ["Mg", "Ti", "Zn", "Co"],
            "diamond": ["Si", "C", "Ge"], "sc": ["Po"]}
    facets = {"fcc": ["100", "110", "111"], "bcc": ["100"], "hcp": ["0001"], "diamond": ["100", "111"], "sc": ["100"]}
    for st in ("fcc", "bcc", "hcp", "diamond", "sc"):
        for sym, rs in els[st]:
            if quick and sym not in pick[st]:
                continue
            for fi, facet in enumerate(facets[st]):
                if quick and (k + fi) % 2 == 1 and st == "fcc" and sym not in ("Cu", "Al"):
                    continue
                layer_opts = [3 + (k % 3)] if quick else ([3, 4, 5] if sym in pick[st] else [3 + (k % 3)])
                for layers in layer_opts:
                    if st == "diamond" and facet == "111":
                        if layers == 5 and not quick:
                            continue
                        layers = 4                                # diamond111 needs an even number of atomic layers
                    nads = k % 3
                    try:
                        with contextlib.redirect_stdout(io.StringIO()):
                            at = element_slab(sym, st, rs, facet, layers)
                    except Exception as e:  # ASE refusing a combination is not a member
                        C.log("[C18] generator: %s %s(%s) x%d: %s" % (sym, st, facet, layers, e))
                        continue
                    add("%s-%s(%s)-L%d-ads%d" % (sym, st, facet, layers, nads), at, False, nads)
                    # thin slabs once more with two adsorbates of ONE species on inequivalent sites (on top + bridge)
                    if layers == 3 and st in ("fcc", "bcc") and (not quick or sym in ("Cu", "Fe", "Al")):
                        at3, ads3 = add_same_species_pair(at, k)
                        if at3 is not None:
                            members.append({"label": "%s-%s(%s)-L%d-ads2s" % (sym, st, facet, layers), "atoms": at3,
                                            "slab": list(range(len(at))), "ads": ads3, "two_d": False})
    for name in sorted(COMPOUNDS):
        for facet in COMPOUND_FACETS[name]:
            for layers in ([3] if quick else [3, 4]):
                nads = k % 3
                try:
                    at = compound_slab(name, facet, layers)
                except Exception as e:
                    C.log("[C18] generator: %s %s: %s" % (name, facet, e))
                    continue
                add("%s(%d%d%d)-L%d-ads%d" % ((name,) + tuple(facet) + (layers, nads)), at, False, nads)
    for kind in ("graphene", "hBN", "MoS2-2H", "WSe2-2H", "TiS2-1T"):
        for n in ([4] if quick else [3, 4, 5, 6]):
            add("%s-%dx%d" % (kind, n, n), monolayer(kind, n), True, 0)
    return members


# ---------------------------------------------------------------------------------------------
# the bonding / geometry precondition, evaluated independently of matid (numpy + ASE radii only)
# ---------------------------------------------------------------------------------------------
def precondition(m):
    """returns list of reasons why the member is OUTSIDE the stated family/precondition (empty = inside)"""
    from ase.data import covalent_radii
    at = m["atoms"]
    why = []
    cell = np.array(at.get_cell())
    pos = at.get_positions()
    num = at.get_atomic_numbers()
    rad = covalent_radii[num]
    n = len(at)
    slab = m["slab"]
    if not all(at.get_pbc()):
        why.append("cell not fully periodic")
    nx, ny = lateral_repeats(cell)
    if (nx > 1 or ny > 1) and not m["two_d"]:      # the lateral-size clause is stated for slabs; monolayers are 3x3-6x6 supercells
        why.append("lateral size below %.1f A" % MIN_LATERAL)
    # in-plane periodic images only (the third direction has vacuum)
    shifts = [i * cell[0] + j * cell[1] for i in (-1, 0, 1) for j in (-1, 0, 1)]
    # radii-corrected nearest-neighbour distances
    corr = np.full((n, n), np.inf)
    for s in shifts:
        d = np.linalg.norm(pos[:, None, :] - (pos[None, :, :] + s), axis=2) - rad[:, None] - rad[None, :]
        if np.allclose(s, 0):
            np.fill_diagonal(d, np.inf)
        corr = np.minimum(corr, d)
    nn = corr.min(axis=1)
    if (nn > BOND_THRESHOLD - MARGIN).any():
        why.append("an atom has no neighbour within bond_threshold - margin (max nn corrected distance %.2f)" % nn.max())
    if (corr < OVERLAP_THRESHOLD + MARGIN).any():
        why.append("atoms overlap beyond overlap_threshold + margin (min corrected distance %.2f)" % corr.min())
    # the bonded network (edges <= bond_threshold - margin) of slab + adsorbates is connected
    adj = corr <= BOND_THRESHOLD - MARGIN
    seen = {0}
    stack = [0]
    while stack:
        i = stack.pop()
        for j in np.nonzero(adj[i])[0]:
            if j not in seen:
                seen.add(int(j))
                stack.append(int(j))
    if len(seen) != n:
        why.append("bond graph at bond_threshold - margin is not connected (%d of %d atoms)" % (len(seen), n))
    # vacuum: the periodic images along the third axis are further apart than cluster_threshold + 2 r_max
    normal = np.cross(cell[0], cell[1])
    normal /= np.linalg.norm(normal)
    hz = pos.dot(normal)
    gap = abs(cell[2].dot(normal)) - (hz.max() - hz.min())
    if gap - 2 * rad.max() < CLUSTER_THRESHOLD + 1.0:
        why.append("vacuum too thin for a two-dimensional bonding network (gap %.1f A)" % gap)
    # adsorbate species absent from the slab; coverage
    if set(num[m["ads"]]) & set(num[slab]):
        why.append("adsorbate species occurs in the slab")
    if len(m["ads"]) > 2:
        why.append("more than two adsorbates")
    if len(slab) < 0.5 * n:
        why.append("slab covers less than min_coverage")
    # thickness: slabs have at least three atomic layers
    if not m["two_d"]:
        zs = np.sort(hz[slab])
        layers = 1 + int(np.sum(np.diff(zs) > 0.3))
        if layers < 3:
            why.append("fewer than three atomic layers (%d)" % layers)
    return why


def transform(rng, at, do):
    """rigid rotation, translation and permutation; returns (atoms, perm) with new[i] = old[perm[i]]"""
    from ase import Atoms
    cell = np.array(at.get_cell())
    pos = at.get_positions()
    num = at.get_atomic_numbers()
    perm = list(range(len(at)))
    if do:
        R = c17.random_rotation(rng)
        cell = cell.dot(R.T)
        pos = pos.dot(R.T) + np.array([rng.uniform(-7, 7) for _ in range(3)])
        rng.shuffle(perm)
        pos = pos[perm]
        num = num[perm]
    return Atoms(numbers=num, positions=pos, cell=cell, pbc=at.get_pbc()), perm


# ---------------------------------------------------------------------------------------------
# checks on one run
# ---------------------------------------------------------------------------------------------
def region_set(a):
    return sorted({x for u in a["units"] for x in u if x is not None})


def conn_count(a):
    """number of connected directions of a logged region (same definition as get_connected_directions)"""
    cnt = 0
    for d in range(3):
        e = [0, 0, 0]
        e[d] = 1
        ne = [-x for x in e]
        if any((e in nd) and (ne in nd) for nd in a["graph"]):
            cnt += 1
    return cnt


def contract_F1(row, slab, two_d):
    """the contract of Properties/C18.v evaluated on the logged get_region calls of the first classify call"""
    why = []
    slab_s = sorted(slab)
    calls = row["obs1"]["calls"]
    whole = []
    for c in calls:
        a = c["answer"]
        if a is None:
            whole.append(False)
            continue
        rs = region_set(a)
        is_whole = (rs == slab_s and bool(a["is_2d"]) == two_d and conn_count(a) == 2 and a["cell"])
        whole.append(is_whole)
        if not is_whole and len(rs) >= len(slab_s):
            why.append("F1(i): call seed=%d returned a region of %d atoms that is not the crystal (|crystal| = %d, is_2d=%s, connected=%d)"
                       % (c["seed"], len(rs), len(slab_s), a["is_2d"], conn_count(a)))
    keys = sorted({(c["size"], c["tol"]) for c in calls})
    ok_ii = False
    for key in keys:
        sel = [w for c, w in zip(calls, whole) if (c["size"], c["tol"]) == key and c["seed"] in set(slab)]
        if sel and all(sel):
            ok_ii = True
    if not ok_ii:
        why.append("F1(ii): no (max_cell_size, pos_tol) combination found the whole crystal from every crystal seed asked")
    if row.get("dim") != 2:
        why.append("dimensionality of the wrapped structure is %r, not 2" % (row.get("dim"),))
    return why


def conclusion(row, slab, ads, two_d):
    """the property's own predicate on one run"""
    why = []
    o1 = row["obs1"]
    if o1["kind"] != 0:
        return ["does not return a Classification: " + (o1.get("exc") or "None")]
    want = "Material2D" if two_d else "Surface"
    if o1["cls"] != want:
        why.append("classified as %s, expected %s" % (o1["cls"], want))
    elif o1.get("outliers") != sorted(ads):
        why.append("outliers %s are not exactly the adsorbates %s" % (o1.get("outliers"), sorted(ads)))
    return why


def slim_member(case, m):
    d = c17.slim(case)
    d.update({"label": m["label"], "slab": case["slab"], "ads": case["ads"], "two_d": m["two_d"]})
    return d


def run_members(ctx, members, name):
    """runs every member in its generated orientation and in a rotated/translated/permuted one"""
    import hashlib
    import random as _random
    cases = []
    for mi, m in enumerate(members):
        # orientation / translation / permutation of a member are a pure function of its label (NOT of VERIF_SEED): members on
        # which the pinned tree fails are listed one by one in known_findings.json, which needs a fixed enumeration
        rng = _random.Random(int(hashlib.sha256(("c18:" + m["label"]).encode()).hexdigest()[:12], 16))
        for variant in (0, 1, 2, 3):
            if variant == 3:
                # fourth presentation: the whole structure translated by half the cell height along the surface normal (and a little
                # in plane), positions wrapped: the slab STRADDLES the periodic cell boundary (the random translation of variant 1
                # stays below the vacuum thickness and never does that)
                a0 = m["atoms"]
                cell0 = np.array(a0.get_cell())
                at = a0.copy()
                at.translate(0.03 * cell0[0] + 0.02 * cell0[1] + (0.5 if mi % 2 == 0 else 7.0 / 12.0) * cell0[2])
                at.wrap()
                perm = list(range(len(a0)))
            elif variant == 2:
                # third presentation: the atoms listed by increasing distance from the centroid of the structure (so that the
                # atom the classifier starts from -- the one closest to the centre of mass -- is very likely index 0)
                a0 = m["atoms"]
                p0 = a0.get_positions()
                perm = [int(i) for i in np.argsort(np.linalg.norm(p0 - p0.mean(axis=0), axis=1), kind="stable")]
                at = a0[perm]
            else:
                at, perm = transform(rng, m["atoms"], variant == 1)
            inv = {old: new for new, old in enumerate(perm)}
            case = c17.as_case(at, family="c18:" + m["label"], tags=([] if variant == 0 else (["rotated+translated+permuted"] if variant == 1 else (["sorted-by-distance-from-centroid"] if variant == 2 else ["straddling-the-cell-boundary"]))), cfg={}, script=None,
                               member=mi, variant=variant, slab=sorted(inv[i] for i in m["slab"]), ads=sorted(inv[i] for i in m["ads"]),
                               time_limit=300, single_call=True)
            case["id"] = len(cases)
            cases.append(case)
    rows, ext = c17.run_impl(cases, script="c18_impl")
    return cases, rows, ext


def run(ctx):
    ctx.coverage["explanation"] = (
        "C18 is NOT proved for all inputs. What is machine-checked (Coq, closed under the global context) is a conditional theorem: if the "
        "periodic finder honours the contract F1 on an input (every region it returns is the whole crystal or smaller than it; some tolerance "
        "finds the whole crystal from every crystal seed) and the dimensionality is 2, then the dispatch returns Surface with outliers exactly "
        "the adsorbates, resp. Material2D with no outliers (C18_partial, C18_contract_implies_recognised). That the real PeriodicFinder honours "
        "F1 is validated by running the real code on a deterministic enumeration of the stated family (element slabs fcc/bcc(100)/hcp(0001)/"
        "diamond/sc, compound prototypes, monolayers; 3-5 layers; lateral size >= 9 A; 0-2 adsorbates; each member also rotated, translated and "
        "permuted) -- a conformance run over finitely many members, not a proof; the invariance under rigid motion and atom order is likewise "
        "only observed.")
    ctx.add_trusted("the enumeration and the independent bonding precondition in harness/props/c18.py (numpy + ASE covalent radii)",
                    "harness/impl/c17_impl.py logging wrapper around the real PeriodicFinder",
                    "hand-written model coq/Classify/Dispatch.v (tied to the code by the C17 correspondence)")
    ctx.assumptions += [
        "contract F1 on the finder and dimensionality 2 for every member of the family: validated on the enumerated members only",
        "bonding precondition as implemented here: every atom has a neighbour at radii-corrected distance <= bond_threshold - 0.05, no pair below "
        "overlap_threshold + 0.05, bond graph connected, vacuum gap - 2 r_max >= cluster_threshold + 1 A, lateral cell heights >= 9 A, covalent radii",
    ]
    broken = None
    c17.FACTS.update(c17.observed_facts())
    pres = C.prove_property(PID)
    ctx.record_proof(pres)
    if pres["failed"]:
        broken = {"stage": "prove", "file": pres["failed"]["path"], "error": pres["failed"]["out"][-1500:]}

    t0 = time.time()
    corpus = load_corpus()
    have = {m["label"] for m in corpus}
    members = corpus + [m for m in enumerate_family(ctx.tier) if m["label"] not in have]
    inside, outside = [], []
    for m in members:
        why = precondition(m)
        (outside if why else inside).append((m, why))
    C.log("[C18] %d members generated, %d inside the precondition, %d outside (%.1fs)" % (len(members), len(inside), len(outside), time.time() - t0))
    mem = [m for m, _ in inside]
    if ctx.tier == "quick":
        big = [m for m in mem if len(m["atoms"]) > 130]
        mem = [m for m in mem if len(m["atoms"]) <= 130]
        if big:
            ctx.notes.append("quick tier: %d members above 130 atoms left to the thorough tier: %s" % (len(big), ", ".join(m["label"] for m in big)))
    cases, rows, ext = run_members(ctx, mem, "family")

    # model agreement (same relation as C17) ------------------------------------------------------
    terms = []
    skipped_model = 0
    for c in cases:
        row = rows.get(c["id"], {})
        if "obs1" in row:
            t, _ = c17.coq_term(c, row)
            if t is not None and len(t) <= 60000:
                terms.append((c["id"], t))
            elif t is not None:
                skipped_model += 1      # very large logs (> 200 atoms) make the case file compile for minutes
    # one evaluation of the dispatch model on the log of a 100-atom slab takes up to two minutes of vm_compute: small shards,
    # long and short terms alternating, so that no shard runs into the per-file time limit
    terms.sort(key=lambda t: len(t[1]))
    mixed = []
    lo, hi = 0, len(terms) - 1
    while lo <= hi:
        mixed.append(terms[hi])
        if lo != hi:
            mixed.append(terms[lo])
        lo, hi = lo + 1, hi - 1
    terms = mixed
    failing, errors = C.coq_case_files("c18_family", c17.PREAMBLE, terms, per_file=6, timeout=2400) if terms else ([], [])
    if errors:
        raise RuntimeError("case files did not compile: " + json.dumps(errors)[:3000])
    failing = set(failing)

    dist = {"members": len(mem), "outside_precondition": [{"label": m["label"], "why": why} for m, why in outside][:40],
            "n_outside": len(outside), "runs": len(cases), "class": {}, "kind": {}, "n_adsorbates": {}, "n_atoms": {}, "ext_module": ext,
            "model_agreement_checked": len(terms), "model_agreement_skipped_large": skipped_model,
            "finder_calls": 0, "conclusion_ok": 0, "contract_ok": 0, "invariance_ok": 0, "timeouts": 0}
    bad_conclusion, bad_contract, bad_invariance, bad_model, bad_runner = [], [], [], [], []
    per_member = {}
    for c in cases:
        m = mem[c["member"]]
        row = rows.get(c["id"], {"runner_error": "no row"})
        if "runner_error" in row:
            if "CaseTimeout" in row["runner_error"]:
                dist["timeouts"] += 1
            else:
                bad_runner.append((c, row["runner_error"]))
            continue
        o1 = row["obs1"]
        cls = o1.get("cls") if o1["kind"] == 0 else "exception"
        dist["class"][cls] = dist["class"].get(cls, 0) + 1
        kind = m["label"].split("-")[1].split("(")[0] if not m["two_d"] else "monolayer"
        if m["label"].split("-")[0] in ("rocksalt", "zincblende", "cscl", "fluorite", "wurtzite", "perovskite", "rutile"):
            kind = m["label"].split("-")[0]
        dist["kind"][kind] = dist["kind"].get(kind, 0) + 1
        dist["n_adsorbates"][str(len(c["ads"]))] = dist["n_adsorbates"].get(str(len(c["ads"])), 0) + 1
        nb = (row["n"] // 40) * 40
        dist["n_atoms"]["%d-%d" % (nb, nb + 39)] = dist["n_atoms"].get("%d-%d" % (nb, nb + 39), 0) + 1
        dist["finder_calls"] += len(o1["calls"])
        concl = conclusion(row, c["slab"], c["ads"], m["two_d"])
        gen = c17.predicate(c, row)            # C17's predicate holds on these inputs as well
        contr = contract_F1(row, c["slab"], m["two_d"])
        if concl or gen:
            bad_conclusion.append((c, m, concl + gen, contr))
        else:
            dist["conclusion_ok"] += 1
        if contr:
            bad_contract.append((c, m, contr))
        else:
            dist["contract_ok"] += 1
        if c["id"] in failing:
            bad_model.append((c, m))
        per_member.setdefault(c["member"], {})[c["variant"]] = (c, row)
    # invariance: the rotated/translated/permuted copy gets the same class and the same outliers (as atoms)
    for mi, d in per_member.items():
        if 0 in d and 1 in d:
            (c0, r0), (c1, r1) = d[0], d[1]
            o0, o1 = r0["obs1"], r1["obs1"]
            same = (o0.get("cls") == o1.get("cls") and o0["kind"] == o1["kind"]
                    and (len(o0.get("outliers") or []) == len(o1.get("outliers") or []))
                    and (sorted(o0.get("outliers") or []) == sorted(c0["ads"])) == (sorted(o1.get("outliers") or []) == sorted(c1["ads"])))
            if same:
                dist["invariance_ok"] += 1
            else:
                bad_invariance.append((c1, mem[mi], ["class/outliers differ between the generated orientation (%s, %s) and the rotated, translated, "
                                                      "permuted copy (%s, %s)" % (o0.get("cls"), o0.get("outliers"), o1.get("cls"), o1.get("outliers"))]))
    n_ok = dist["conclusion_ok"]
    ctx.add_cases(len(cases), len({c["member"] for c in cases}),
                  [{"member": mem[c["member"]]["label"], "n_atoms": len(c["numbers"]), "adsorbates": c["ads"],
                    "class": rows.get(c["id"], {}).get("obs1", {}).get("cls"), "outliers": rows.get(c["id"], {}).get("obs1", {}).get("outliers")}
                   for c in cases[:6]])
    dist["failing_conclusion"] = [{"label": m["label"], "variant": c["variant"], "why": why, "contract": contr} for c, m, why, contr in bad_conclusion][:40]
    dist["failing_member_keys"] = sorted({"c18:" + m["label"] for c, m, why, contr in bad_conclusion} | {"c18:" + m["label"] for c, m, w in bad_invariance})
    dist["failing_contract_only"] = [{"label": m["label"], "variant": c["variant"], "why": why} for c, m, why in bad_contract
                                     if not any(c is b[0] for b in bad_conclusion)][:40]
    ctx.coverage["input_distribution"] = dist
    ctx.coverage["rule"] = ("one case = one member of the enumerated family in one orientation (as generated / rotated+translated+permuted); "
                            "distinct_nontrivial = members inside the independent precondition; every run is checked against the property's "
                            "conclusion (class, outliers = adsorbates), the contract F1 on the logged get_region calls, C17's predicate and the "
                            "Coq model (Dispatch.agree_twice)")
    if dist["timeouts"]:
        ctx.notes.append("%d runs exceeded the per-case time limit" % dist["timeouts"])
    if dist["failing_contract_only"]:
        ctx.notes.append("%d runs satisfied the property's conclusion although the sufficient contract F1 did not hold literally (the theorem does not "
                         "apply to them; the conclusion was observed directly)" % len(dist["failing_contract_only"]))

    known = C.load_known(PID)
    printed = set()
    reported = False
    for c, m, why, contr in sorted(bad_conclusion + [(c, m, w, []) for c, m, w in bad_invariance], key=lambda x: (any("Material2D, expected Surface" in w for w in x[2]), len(x[0]["numbers"]))):
        key = "c18:" + m["label"]
        k = C.known_match(known, key)
        if k:
            if key not in printed:
                printed.add(key)
                ctx.known_finding(k)
            continue
        if not reported:
            ctx.violation({"kind": "family-member-fails", "case": slim_member(c, m), "failed_clauses": why, "contract_F1": contr, "key": key,
                           "precondition": "inside (independent check passed)", "broken_obligation": broken,
                           "call": "Classifier().classify(Atoms(numbers, positions, cell, pbc))",
                           "others": [x[1]["label"] for x in bad_conclusion][:30]}, found_input=True)
            reported = True
    if not reported and (bad_model or bad_runner or broken):
        what = ("agreement relation Classify.Dispatch.agree_twice" if bad_model else
                ("runner: " + bad_runner[0][1] if bad_runner else "proof obligation"))
        c = (bad_model[0][0] if bad_model else (bad_runner[0][0] if bad_runner else None))
        ctx.violation({"kind": "correspondence-broken" if (bad_model or bad_runner) else "proof-obligation-broken", "broken": what,
                       "case": c17.slim(c) if c else None, "broken_obligation": broken,
                       "searched": "the property's conclusion was evaluated on every enumerated member: no failing input"}, found_input=False)


def replay(ctx, rep):
    case = rep.get("case")
    if not case:
        pres = C.prove_property(PID)
        if pres["failed"]:
            ctx.violation(rep, found_input=False)
        else:
            print("replay: no input recorded; the proof obligations hold now")
        return
    c = dict(case, id=0, time_limit=300, single_call=True)
    rows, _ = c17.run_impl([c], jobs=1, script="c18_impl")
    row = rows.get(0, {"runner_error": "no row"})
    if "runner_error" in row:
        print("replay: runner error %s" % row["runner_error"])
        ctx.violation(rep, found_input=False)
        return
    why = conclusion(row, case["slab"], case["ads"], case["two_d"]) + c17.predicate(c, row)
    if why:
        print("replay: still failing: %s" % why)
        ctx.violation(rep, found_input=True)
    else:
        print("replay: the property holds on this input now")
