"""Coq term builders for the SBC correspondence (C01, C13)."""
from fractions import Fraction

from lib import common as C

PREAMBLE = ("From Coq Require Import List Bool ZArith QArith.\nImport ListNotations.\n"
            "From MV Require Import Sbc.Common Sbc.Driver Sbc.Merge Sbc.Localize Sbc.Clean Sbc.Pipeline.\n"
            "Local Open Scope nat_scope.\n")


def natl(xs):
    return C.listlit(["%d" % int(x) for x in xs])


def zl(xs):
    return C.listlit([C.zlit(x) for x in xs])


def booll(xs):
    return C.listlit([C.boollit(bool(x)) for x in xs])


def q_of_pair(p):
    return C.qlit(Fraction(int(p[0]), int(p[1])))


def obs(o):
    rid = o["rid"] if o["rid"] >= 0 else 4000
    return "(mkObs %s %s %d %s %s)" % (natl(o["idx"]), zl(o["spec"]), rid, C.boollit(o["merged"]), C.boollit(o["radii"]))


def obsl(os_):
    return C.listlit([obs(o) for o in os_])


def region(rid, basis, pbc):
    return "(mkRegion %d %s %s)" % (rid, natl(basis), booll(pbc))


def script_finder(regions, script):
    regs = C.listlit([region(k, r["basis"], r["pbc"]) for k, r in enumerate(regions)])
    ents = C.listlit(["(%s, %s)" % ("None" if e["region"] is None else "Some %d" % e["region"], natl(sorted(e["mask"])))
                      for e in script])
    return "(script_finder %s %s)" % (regs, ents)


def log_entries(calls):
    ents = []
    for k, c in enumerate(calls):
        r = "None" if c["basis"] is None else "Some %s" % region(c["rid"], c["basis"], c["pbc"] or [])
        ents.append("(%d, %s, %s)" % (c["seed"], r, natl(c["mask"])))
    return C.listlit(ents)


def log_finder(calls):
    return "(log_finder %s)" % log_entries(calls)


def matrix(Drows):
    return C.listlit([C.listlit([q_of_pair(p) for p in row]) for row in Drows])


def nbrs(L):
    return C.listlit([natl(r) for r in L])


def agree_run_term(case, res, finder_term, with_radii=False):
    """case: the generated case (params); res: implementation result of c01_impl."""
    p = case["params"]
    n = res["n"]
    seeds = natl([c["seed"] for c in res["calls"]])
    thr = q_of_pair(res["merge_threshold_eff"])
    st = res["stages"]
    if "D" in res:
        mr = C.qlit(Fraction(float(p.get("merge_radius", 1))))
        bt = C.qlit(Fraction(float(p.get("bond_threshold", 0.65))))
        head = "let M := mat_fun %s in let near := near_of M %s in let bond := bond_of M %s in " % (matrix(res["D"]), mr, bt)
    else:
        head = "let near := nbr_fun %s in let bond := nbr_fun %s in " % (nbrs(res["near"]), nbrs(res["bond"]))
    return "(%sagree_run %s %d %s %s %s %s near bond %s %s %s %s)" % (
        head, C.boollit(with_radii), n, zl(case["structure"]["numbers"]), finder_term, seeds, thr,
        obsl(st["drive"]), obsl(st["merge"]), obsl(st["local"]), obsl(st["clean"]))
