"""Shared by C05 and C06: crystal family with re-presentations, implementation runs, the Coq
correspondence for the normalizer search, and the properties' own predicates."""
import itertools
import os

import numpy as np

from lib import common as C
from lib import symtables as S
from lib import crystals as K

STATIC = S.STATIC + ["Reflect/GroupChecksProofs.vo", "Reflect/NormChecksProofs.vo", "Reflect/CertProofs.vo", "Reflect/GroundChecksProofs.vo",
                     "Symmetry/GroundStateProofs.vo", "Symmetry/GroundStateInvariance.vo", "Symmetry/Congruence.vo",
                     "Symmetry/GroundAgree.vo"]


def origin_moved(cr, tables, rng):
    """the same crystal described from another origin / setting-equivalent frame: a tabulated normalizer of
    its group applied to the fractional coordinates of the standard description (this is exactly "the origin
    moved, which includes every permutation of equivalent Wyckoff sites")"""
    norms = tables[2].get(cr["sg"], [])
    if not norms:
        return None
    n = rng.choice(norms)
    T = np.array([[float(v) for v in row] for row in n["transformation"]])
    P = np.array(cr["scaled_positions"]) @ T[:3, :3].T + T[:3, 3]
    out = dict(cr)
    out["scaled_positions"] = (P % 1.0).tolist()
    return out


def moved_by(cr, norm):
    T = np.array([[float(v) for v in row] for row in norm["transformation"]])
    P = np.array(cr["scaled_positions"]) @ T[:3, :3].T + T[:3, 3]
    out = dict(cr)
    out["scaled_positions"] = (P % 1.0).tolist()
    return out


def targeted_cases(build, rng, nid0=10 ** 6, max_targets=8):
    """When a table clause about normalizer k of group sg no longer checks: crystals on which that entry
    matters -- (i) occupations for which the model's search applies normalizer k, (ii) occupations of the
    letters that normalizer k moves -- each in its standard description, seen from the origin of EVERY
    tabulated normalizer of the group, and rotated/sheared/permuted.  All presentations of one crystal share
    `base`, so the pair predicates of C06 compare them.  Returns (cases, summary)."""
    from props.c14 import offenders_from_build
    tables = build["tables"]
    offs, _ = offenders_from_build(build)
    tg = sorted({(o["sg"], o["k"]) for o in offs if o["clause"].startswith("norm-") and "k" in o})[:max_targets]
    out, nid = [], nid0
    for (sg, k) in tg:
        norms = tables[2].get(sg, [])
        if k >= len(norms):
            continue
        crs = list(targeted_crystals(tables, sg, k, rng, want=10))
        lets = K.table_letters(tables, sg)
        mult = {l: m for l, m, nf in lets}
        gen = max(mult, key=lambda l: mult[l])
        perm = norms[k]["permutations"]
        movedl = [l for l in mult if perm.get(l, l) != l and l != gen]
        rng.shuffle(movedl)
        for l in movedl[:4]:
            for pat in ([(l, None), (gen, None)], [(l, None), (perm[l], None), (gen, None)]):
                if sum(mult[x] for x, _ in pat) > 120:
                    continue
                zs = rng.sample(K.SPECIES, len(pat))
                pat = [(x, z) for (x, _), z in zip(pat, zs)]
                cr = K.make_crystal(sg, rng, pat, tables)
                if cr is not None and K.stable_group(cr) == sg:
                    crs.append((cr, pat))
        for cr, pat in crs:
            base = nid
            out.append({"id": nid, "sg": sg, "base": base, "crystal": cr, "pres": {"kind": "targeted", "normalizer": k, "pattern": pat}})
            nid += 1
            for j, n in enumerate(norms[:6]):
                mv = moved_by(cr, n)
                if K.stable_group(mv) == sg:
                    out.append({"id": nid, "sg": sg, "base": base, "crystal": mv,
                                "pres": {"kind": "targeted", "normalizer": k, "pattern": pat, "origin_moved_by_tabulated_normalizer": j}})
                    nid += 1
            pr, desc = K.represent(cr, rng, supercell=False)
            if K.stable_group(pr) == sg:
                out.append({"id": nid, "sg": sg, "base": base, "crystal": pr, "pres": {"kind": "targeted", "normalizer": k, "pattern": pat, "represented": True}})
                nid += 1
    return out, {"normalizers": tg, "crystals": len({c["base"] for c in out}), "presentations": len(out)}


def family(ctx, tables, per_group, n_pres, max_atoms=120, groups=None):
    """per_group crystals in every space group, each with the base description + n_pres re-presentations."""
    rng = ctx.rng
    cases = []
    disc = 0
    cid = 0
    for sg in (groups or range(1, 231)):
        for j in range(per_group):
            cr, d = K.generate(sg, rng, tables, max_atoms=max_atoms)
            disc += d
            if cr is None:
                continue
            base = cid
            cases.append({"id": cid, "sg": sg, "base": base, "crystal": cr, "pres": {"kind": "standard"}})
            cid += 1
            for p in range(n_pres):
                # supercells (|det| <= 4, lattice-symmetry breaking) for every third presentation, and in the
                # short family for every fourth crystal; origin moved for every other one
                sup = ((p % 3 == 2) or (n_pres <= 2 and p == 1 and base % 4 == 0)) and len(cr["numbers"]) * 2 <= max_atoms
                src = cr
                moved = False
                if (p + base) % 2 == 0:
                    om = origin_moved(cr, tables, rng)
                    if om is not None:
                        src, moved = om, True
                pr, desc = K.represent(src, rng, supercell=sup, shear=(p % 2 == 0) or sup, wrap=(p % 2 == 0))
                if K.stable_group(pr) != sg:
                    disc += 1
                    continue
                d = {k: (v if k == "permuted" else True) for k, v in desc.items()}
                if moved:
                    d["origin_moved_by_tabulated_normalizer"] = True
                cases.append({"id": cid, "sg": sg, "base": base, "crystal": pr, "pres": d})
                cid += 1
            if base % 3 == 0:
                # the crystal once more with every atom displaced by at most 2e-5 A per cartesian component, analysed at a
                # tolerance of 1e-2 A: still the same crystal at that tolerance (group stable over the window 1e-3 .. 1e-1)
                cell = np.array(cr["cell"], dtype=float)
                cart = np.array(cr["scaled_positions"], dtype=float) @ cell
                cart = cart + np.array([[rng.uniform(-2e-5, 2e-5) for _ in range(3)] for _ in range(len(cart))])
                rt = dict(cr)
                rt["scaled_positions"] = (cart @ np.linalg.inv(cell)).tolist()
                if K.stable_group(rt, lo=1e-3, hi=1e-1) == sg:
                    cases.append({"id": cid, "sg": sg, "base": base, "crystal": rt, "tol": 1e-2,
                                  "pres": {"kind": "rattled", "noise_A": 2e-5, "symmetry_tol": 1e-2}})
                    cid += 1
                else:
                    disc += 1
    return cases, disc


def repeated_family(ctx, tables, n_groups, nid0=2 * 10 ** 6, max_atoms=120):
    """Crystals in which ONE species sits on several orbits, among them two orbits of one free-parameter position
    and one orbit of a position that some normalizer exchanges with it (unequal counts on a swappable pair): here the
    ranking of the normalizer search depends on the COUNTS, not only on which (letter, species) pairs occur.  Each
    crystal is presented from the origin of every tabulated normalizer (same interpreter, consecutive analyses)."""
    rng = ctx.rng
    cands = []
    for sg in range(1, 231):
        norms = tables[2].get(sg, [])
        lets = K.table_letters(tables, sg)
        mult = {l: m for l, m, nf in lets}
        free = {l for l, m, nf in lets if nf > 0}
        gen = max(mult, key=lambda l: mult[l])
        pairs = sorted({(l, n["permutations"][l]) for n in norms for l in n["permutations"]
                        if l in free and n["permutations"][l] != l and l != gen and n["permutations"][l] in mult})
        if pairs:
            cands.append((sg, pairs, mult, gen))
    rng.shuffle(cands)
    out, nid, disc = [], nid0, 0
    for sg, pairs, mult, gen in cands[:n_groups]:
        l, l2 = pairs[rng.randrange(len(pairs))]
        z, z2 = rng.sample(K.SPECIES, 2)
        pat = [(l, z), (l, z), (l2, z)]
        if sum(mult[x] for x, _ in pat) + mult[gen] <= max_atoms and rng.random() < 0.5:
            pat.append((gen, z2))
        if sum(mult[x] for x, _ in pat) > max_atoms:
            continue
        cr = None
        for _ in range(3):
            cr = K.make_crystal(sg, rng, pat, tables)
            if cr is not None and K.stable_group(cr) == sg:
                break
            cr = None
            disc += 1
        if cr is None:
            continue
        base = nid
        out.append({"id": nid, "sg": sg, "base": base, "crystal": cr, "pres": {"kind": "repeated-species", "pattern": pat}})
        nid += 1
        for j, n in enumerate(tables[2].get(sg, [])[:6]):
            mv = moved_by(cr, n)
            if K.stable_group(mv) == sg:
                out.append({"id": nid, "sg": sg, "base": base, "crystal": mv,
                            "pres": {"kind": "repeated-species", "pattern": pat, "origin_moved_by_tabulated_normalizer": j}})
                nid += 1
    return out, disc


def run_impl(cases, jobs=8, reuse=False):
    """All presentations of one crystal run consecutively in the same interpreter (so that any state kept
    between analyses is exercised).  With reuse=True every chunk additionally feeds its crystals to ONE
    analyzer instance through set_system; returns (rows, reuse_rows)."""
    nchunk = jobs * 2
    chunks = [[] for _ in range(nchunk)]
    for c in cases:
        chunks[c.get("base", c["id"]) % nchunk].append(c)
    chunks = [c for c in chunks if c]
    payloads = []
    for ch in chunks:
        # every third case: a pseudo-random selection of the analyzer's other public getters is called first (order of public calls)
        pl = {"cases": [dict({"id": c["id"], "crystal": c["crystal"], "getters": c.get("getters"),
                              "getter_seed": c["id"] if (c["id"] % 3 == 1 and c.get("getters") is None) else None},
                             **({"tol": c["tol"]} if "tol" in c else {})) for c in ch]}
        if reuse:
            pl["reuse"] = [{"id": c["id"], "crystal": c["crystal"]} for c in ch[:12]]
        payloads.append(pl)
    outs = C.impl_run_parallel("c05_impl", payloads, jobs=jobs)
    rows, rr = {}, []
    for o in outs:
        for r in o["rows"]:
            rows[r["id"]] = r
        rr += o.get("reuse", [])
    return (rows, rr) if reuse else rows


def slit(s):
    return '"%s"' % s


def coq_ground_cases(name, cases, rows):
    """the model's choice (index + letters) against the implementation's, evaluated inside Coq"""
    pre = ("From Coq Require Import ZArith List String Bool.\nImport ListNotations.\n"
           "From MV Require Import Symmetry.Table Symmetry.GroundState Symmetry.GroundAgree Reflect.GroundChecks.\n"
           "From MVD Require Import Generated.SGAll.\nOpen Scope string_scope.\n"
           "Definition tp (sg : Z) : list perm := table_perms (nth (Z.to_nat (sg - 1)) tables (mkSG 0 (mkRI \"\" \"\" \"\") [] [] [])).\n")
    terms = []
    for c in cases:
        r = rows.get(c["id"])
        if r is None or "error" in r or r.get("chosen_index") is None:
            continue
        L = "[" + ";".join(slit(x) for x in r["spglib_letters_conv"]) + "]"
        Z = "[" + ";".join("%d%%Z" % z for z in r["std_types"]) + "]"
        L2 = "[" + ";".join("None" if x is None else "Some " + slit(x) for x in r["conv_letters"]) + "]"
        terms.append((c["id"], "gs_agree (tp %d%%Z) %s %s %d%%nat %s" % (r["number"], L, Z, r["chosen_index"], L2)))
    failing, errors = C.coq_case_files(name, pre, terms, per_file=60)
    return failing, errors, len(terms)


def wrap01(P, prec=1e-5):
    P = np.array(P, dtype=float) % 1.0
    P[np.abs(P) < prec] = 0
    P[np.abs(P - 1) < prec] = 0
    return P


def frac_close(A, B, tol):
    d = np.abs(np.array(A) - np.array(B))
    d = np.minimum(d, 1 - d)
    return bool((d < tol).all())


def positions_follow_model(r):
    """float part of the correspondence: conventional positions = wrap(T . std_positions) for the chosen T"""
    T = np.array(r["chosen_transformation"], dtype=float)
    P = np.array(r["std_positions"], dtype=float)
    Q = P @ T[:3, :3].T + T[:3, 3]
    if r["chosen_index"] == 0:
        Q = P
    return frac_close(wrap01(Q), np.array(r["conv_scaled"]) % 1.0, 5e-5)


_AUTO = None


def lattice_automorphisms(cell, tol=1e-6):
    """integer matrices with entries in {-1,0,1} that preserve the metric of `cell` (rows = lattice vectors)"""
    global _AUTO
    if _AUTO is None:
        _AUTO = np.array(list(itertools.product((-1, 0, 1), repeat=9))).reshape(-1, 3, 3)
        d = np.round(np.linalg.det(_AUTO))
        _AUTO = _AUTO[np.abs(d) == 1]
    cell = np.array(cell)
    Gm = cell @ cell.T
    scale = np.abs(Gm).max()
    # fractional coordinates transform as x' = R x; lattice metric condition R^T G R = G
    M = np.einsum("nji,jk,nkl->nil", _AUTO, Gm, _AUTO)
    ok = np.abs(M - Gm).reshape(len(_AUTO), -1).max(axis=1) < tol * scale
    return _AUTO[ok]


def proper_congruent(cell, P1, Z1, P2, Z2, tol=2e-4):
    """is there a PROPER lattice automorphism R and a translation t with R.P1 + t = P2 (species-wise, mod 1)?
    Returns (found_proper, found_improper)."""
    P1 = np.array(P1) % 1.0
    P2 = np.array(P2) % 1.0
    Z1 = np.array(Z1)
    Z2 = np.array(Z2)
    if sorted(Z1.tolist()) != sorted(Z2.tolist()):
        return False, False
    # anchor: an atom of the rarest species
    vals, counts = np.unique(Z1, return_counts=True)
    z0 = vals[np.argmin(counts)]
    i0 = int(np.nonzero(Z1 == z0)[0][0])
    targets = np.nonzero(Z2 == z0)[0]
    found = {1: False, -1: False}
    for R in lattice_automorphisms(cell):
        det = int(round(np.linalg.det(R)))
        if found[det]:
            continue
        Q = P1 @ R.T
        for j in targets:
            t = P2[j] - Q[i0]
            X = (Q + t) % 1.0
            okall = True
            for zz in vals:
                A = X[Z1 == zz]
                B = P2[Z2 == zz]
                d = np.abs(A[:, None, :] - B[None, :, :])
                d = np.minimum(d, 1 - d).max(axis=2)
                if not ((d.min(axis=1) < tol).all() and (d.min(axis=0) < tol).all()):
                    okall = False
                    break
            if okall:
                found[det] = True
                break
        if found[1]:
            break
    return found[1], found[-1]


def c05_predicate(r):
    """the property's own predicate on one implementation result; returns list of failed clauses"""
    bad = []
    if r["conv_number_independent"] != r["number"]:
        bad.append("independent symmetry search on the conventional system gives %s, analyzer reports %s" % (r["conv_number_independent"], r["number"]))
    if not np.allclose(np.array(r["conv_cell"]), np.array(r["std_lattice"]), rtol=0, atol=1e-8 * max(1.0, np.abs(np.array(r["std_lattice"])).max())):
        bad.append("conventional cell differs from the standardized lattice")
    if sorted(r["conv_numbers"]) != sorted(r["std_types"]):
        bad.append("composition changed")
    if r["conv_numbers"] != r["std_types"]:
        bad.append("species order of the conventional atoms differs from the standardized atoms")
    if not r["input_untouched"]:
        bad.append("input structure was modified")
    if abs(r["volume_per_atom_input"] - r["volume_per_atom_conv"]) > 1e-3 * r["volume_per_atom_input"]:
        bad.append("atoms per volume changed")
    proper, improper = proper_congruent(r["std_lattice"], r["std_positions"], r["std_types"], r["conv_scaled"], r["conv_numbers"])
    if not proper:
        bad.append("no proper rigid motion maps the standardized atoms onto the returned atoms" + (" (only an improper one: mirror image)" if improper else ""))
    # the same against an independent symmetry search on the input as given (not the analyzer's own dataset)
    if "ind_number" in r:
        if r["ind_number"] != r["number"]:
            bad.append("an independent symmetry search on the INPUT gives space group %s, the analyzer reports %s" % (r["ind_number"], r["number"]))
        elif np.allclose(np.array(r["ind_std_lattice"]), np.array(r["conv_cell"]), rtol=0, atol=1e-6 * max(1.0, np.abs(np.array(r["conv_cell"])).max())):
            p2, i2 = proper_congruent(r["ind_std_lattice"], r["ind_std_positions"], r["ind_std_types"], r["conv_scaled"], r["conv_numbers"])
            if not p2:
                bad.append("no proper rigid motion maps the idealized standardized atoms of the INPUT (independent symmetry search) onto the returned atoms"
                           + (" (only an improper one: mirror image)" if i2 else ""))
        else:
            bad.append("conventional cell differs from the standardized lattice of an independent symmetry search on the input")
    return bad


def multiset(r):
    return sorted((s["letter"], s["element"], s["multiplicity"]) for s in r["wyckoff_sets"])


def c06_pair_predicate(a, b, sg, tables):
    """clauses of C06 on two presentations a, b of one crystal"""
    bad = []
    for key in ("material_id", "number", "has_free"):
        if a[key] != b[key]:
            bad.append("%s differs: %r vs %r" % (key, a[key], b[key]))
    if a["labels"] != b["labels"]:
        bad.append("labels differ: %r vs %r" % (a["labels"], b["labels"]))
    if multiset(a) != multiset(b):
        bad.append("Wyckoff multiset differs: %r vs %r" % (multiset(a), multiset(b)))
    # parameter-free structure in a metrically fixed (cubic) lattice type: identical conventional cell
    if not a["has_free"] and not b["has_free"] and sg >= 195 and len(a["conv_numbers"]) == len(b["conv_numbers"]):
        if not np.allclose(np.array(a["conv_cell"]), np.array(b["conv_cell"]), rtol=1e-5, atol=1e-6):
            bad.append("conventional lattice differs for a parameter-free cubic structure")
        else:
            A = np.array(a["conv_scaled"]) % 1.0
            B = np.array(b["conv_scaled"]) % 1.0
            za, zb = np.array(a["conv_numbers"]), np.array(b["conv_numbers"])
            for zz in set(za.tolist()):
                X, Y = A[za == zz], B[zb == zz]
                if len(X) != len(Y):
                    bad.append("species count differs")
                    break
                d = np.abs(X[:, None, :] - Y[None, :, :])
                d = np.minimum(d, 1 - d).max(axis=2)
                if not ((d.min(axis=1) < 1e-4).all() and (d.min(axis=0) < 1e-4).all()):
                    bad.append("set of atomic positions differs for a parameter-free cubic structure (Z=%d)" % zz)
                    break
    return bad


# ---- search aid (untrusted): which occupation patterns make a given normalizer win -----------------------
def py_ground_state(perms, letters, numbers):
    """Python mirror of Symmetry/GroundState.ground_state; returns the chosen index (0 = identity)."""
    cands = [(0, {l: l for l in set(letters)})] + [(i + 1, p) for i, p in enumerate(perms)]
    if not perms:
        return 0

    def counts(p):
        d = {}
        for l, z in zip(letters, numbers):
            w = p.get(l)
            if w is not None:
                d[(w, z)] = d.get((w, z), 0) + 1
        return d
    reps = [(i, counts(p)) for i, p in cands]
    ws = sorted({v for _, p in cands for v in p.values()}, key=lambda s: ord(s[0]))
    zs = sorted(set(numbers))
    found = False
    for w in ws:
        if found:
            break
        for z in zs:
            m = max((c.get((w, z), 0) for _, c in reps), default=0)
            if m != 0:
                reps = [(i, c) for i, c in reps if c.get((w, z), 0) == m]
            if len(reps) == 1:
                found = True
    return reps[0][0]


def patterns_selecting(tables, sg, k, rng, max_atoms=120, limit=4, pin_group=True):
    """occupation patterns [(letter, Z)] of group sg for which normalizer k is the one the search applies.
    Patterns containing the position of highest multiplicity (the general position, which pins the space
    group) are tried first; several species assignments are tried per letter combination."""
    import itertools
    lets = K.table_letters(tables, sg)
    perms = [n["permutations"] for n in tables[2].get(sg, [])]
    out = []
    names = [l for l, m, nf in lets]
    mult = {l: m for l, m, nf in lets}
    gen = max(names, key=lambda l: mult[l])
    combos = [c for r in (1, 2, 3, 4) for c in itertools.combinations(names, r) if sum(mult[l] for l in c) <= max_atoms]
    rng.shuffle(combos)
    if pin_group:
        combos.sort(key=lambda c: 0 if gen in c else 1)
    seen = set()
    covered = set()
    spare = []
    for combo in combos[:6000]:
        for _ in range(3):
            zs = rng.sample(K.SPECIES, len(combo))
            letters, numbers = [], []
            for l, z in zip(combo, zs):
                letters += [l] * mult[l]
                numbers += [z] * mult[l]
            if py_ground_state(perms, letters, numbers) == k + 1:
                key = (combo, tuple(sorted(range(len(zs)), key=lambda i: zs[i])))
                if key in seen:
                    continue
                seen.add(key)
                pat = list(zip(combo, zs))
                # prefer patterns that bring in a letter no accepted pattern occupies yet: a wrong entry for
                # normalizer k may concern any letter of the group
                if set(combo) - covered:
                    covered |= set(combo)
                    out.append(pat)
                elif len(spare) < limit:
                    spare.append(pat)
                break
        if len(out) >= limit or covered >= set(names):
            break
    out += spare[:max(0, limit - len(out))]
    return out


def targeted_crystals(tables, sg, k, rng, want=10, max_atoms=120):
    """crystals of group sg (confirmed by spglib over the tolerance window) whose occupation makes the model's
    normalizer search apply normalizer k -- the inputs on which a wrong table entry for that normalizer shows"""
    got = []
    for pat in patterns_selecting(tables, sg, k, rng, max_atoms=max_atoms, limit=2 * want):
        for _ in range(2):
            cr = K.make_crystal(sg, rng, pat, tables)
            if cr is not None and K.stable_group(cr) == sg:
                got.append((cr, pat))
                break
        if len(got) >= want:
            break
    return got
