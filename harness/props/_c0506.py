"""Shared by C05 and C06: crystal family with re-presentations, implementation runs, the Coq
correspondence for the normalizer search, and the properties' own predicates."""
import itertools
import os

import numpy as np

from lib import common as C
from lib import symtables as S
from lib import crystals as K

STATIC = S.STATIC + ["Reflect/GroupChecksProofs.vo", "Reflect/NormChecksProofs.vo", "Reflect/CertProofs.vo", "Reflect/GroundChecksProofs.vo",
                     "Symmetry/GroundStateProofs.vo", "Symmetry/GroundStateInvariance.vo", "Symmetry/Congruence.vo",
                     "Symmetry/GroundAgree.vo"]


def origin_moved(cr, tables, rng):
    """the same crystal described from another origin / setting-equivalent frame: a tabulated normalizer of
    its group applied to the fractional coordinates of the standard description (this is exactly "the origin
    moved, which includes every permutation of equivalent Wyckoff sites")"""
    norms = tables[2].get(cr["sg"], [])
    if not norms:
        return None
    n = rng.choice(norms)
    T = np.array([[float(v) for v in row] for row in n["transformation"]])
    P = np.array(cr["scaled_positions"]) @ T[:3, :3].T + T[:3, 3]
    out = dict(cr)
    out["scaled_positions"] = (P % 1.0).tolist()
    return out


def family(ctx, tables, per_group, n_pres, max_atoms=120, groups=None):
    """per_group crystals in every space group, each with the base description + n_pres re-presentations."""
    rng = ctx.rng
    cases = []
    disc = 0
    cid = 0
    for sg in (groups or range(1, 231)):
        for j in range(per_group):
            cr, d = K.generate(sg, rng, tables, max_atoms=max_atoms)
            disc += d
            if cr is None:
                continue
            base = cid
            cases.append({"id": cid, "sg": sg, "base": base, "crystal": cr, "pres": {"kind": "standard"}})
            cid += 1
            for p in range(n_pres):
                # supercells (|det| <= 4, lattice-symmetry breaking) for every third presentation, and in the
                # short family for every fourth crystal; origin moved for every other one
                sup = ((p % 3 == 2) or (n_pres <= 2 and p == 1 and base % 4 == 0)) and len(cr["numbers"]) * 2 <= max_atoms
                src = cr
                moved = False
                if (p + base) % 2 == 0:
                    om = origin_moved(cr, tables, rng)
                    if om is not None:
                        src, moved = om, True
                pr, desc = K.represent(src, rng, supercell=sup, shear=(p % 2 == 0) or sup, wrap=(p % 2 == 0))
                if K.stable_group(pr) != sg:
                    disc += 1
                    continue
                d = {k: (v if k == "permuted" else True) for k, v in desc.items()}
                if moved:
                    d["origin_moved_by_tabulated_normalizer"] = True
                cases.append({"id": cid, "sg": sg, "base": base, "crystal": pr, "pres": d})
                cid += 1
    return cases, disc


def run_impl(cases, jobs=8, reuse=False):
    """All presentations of one crystal run consecutively in the same interpreter (so that any state kept
    between analyses is exercised).  With reuse=True every chunk additionally feeds its crystals to ONE
    analyzer instance through set_system; returns (rows, reuse_rows)."""
    nchunk = jobs * 2
    chunks = [[] for _ in range(nchunk)]
    for c in cases:
        chunks[c.get("base", c["id"]) % nchunk].append(c)
    chunks = [c for c in chunks if c]
    payloads = []
    for ch in chunks:
        pl = {"cases": [{"id": c["id"], "crystal": c["crystal"]} for c in ch]}
        if reuse:
            pl["reuse"] = [{"id": c["id"], "crystal": c["crystal"]} for c in ch[:12]]
        payloads.append(pl)
    outs = C.impl_run_parallel("c05_impl", payloads, jobs=jobs)
    rows, rr = {}, []
    for o in outs:
        for r in o["rows"]:
            rows[r["id"]] = r
        rr += o.get("reuse", [])
    return (rows, rr) if reuse else rows


def slit(s):
    return '"%s"' % s


def coq_ground_cases(name, cases, rows):
    """the model's choice (index + letters) against the implementation's, evaluated inside Coq"""
    pre = ("From Coq Require Import ZArith List String Bool.\nImport ListNotations.\n"
           "From MV Require Import Symmetry.Table Symmetry.GroundState Symmetry.GroundAgree Reflect.GroundChecks.\n"
           "From MVD Require Import Generated.SGAll.\nOpen Scope string_scope.\n"
           "Definition tp (sg : Z) : list perm := table_perms (nth (Z.to_nat (sg - 1)) tables (mkSG 0 (mkRI \"\" \"\" \"\") [] [] [])).\n")
    terms = []
    for c in cases:
        r = rows.get(c["id"])
        if r is None or "error" in r or r.get("chosen_index") is None:
            continue
        L = "[" + ";".join(slit(x) for x in r["spglib_letters_conv"]) + "]"
        Z = "[" + ";".join("%d%%Z" % z for z in r["std_types"]) + "]"
        L2 = "[" + ";".join("None" if x is None else "Some " + slit(x) for x in r["conv_letters"]) + "]"
        terms.append((c["id"], "gs_agree (tp %d%%Z) %s %s %d%%nat %s" % (r["number"], L, Z, r["chosen_index"], L2)))
    failing, errors = C.coq_case_files(name, pre, terms, per_file=60)
    return failing, errors, len(terms)


def wrap01(P, prec=1e-5):
    P = np.array(P, dtype=float) % 1.0
    P[np.abs(P) < prec] = 0
    P[np.abs(P - 1) < prec] = 0
    return P


def frac_close(A, B, tol):
    d = np.abs(np.array(A) - np.array(B))
    d = np.minimum(d, 1 - d)
    return bool((d < tol).all())


def positions_follow_model(r):
    """float part of the correspondence: conventional positions = wrap(T . std_positions) for the chosen T"""
    T = np.array(r["chosen_transformation"], dtype=float)
    P = np.array(r["std_positions"], dtype=float)
    Q = P @ T[:3, :3].T + T[:3, 3]
    if r["chosen_index"] == 0:
        Q = P
    return frac_close(wrap01(Q), np.array(r["conv_scaled"]) % 1.0, 5e-5)


_AUTO = None


def lattice_automorphisms(cell, tol=1e-6):
    """integer matrices with entries in {-1,0,1} that preserve the metric of `cell` (rows = lattice vectors)"""
    global _AUTO
    if _AUTO is None:
        _AUTO = np.array(list(itertools.product((-1, 0, 1), repeat=9))).reshape(-1, 3, 3)
        d = np.round(np.linalg.det(_AUTO))
        _AUTO = _AUTO[np.abs(d) == 1]
    cell = np.array(cell)
    Gm = cell @ cell.T
    scale = np.abs(Gm).max()
    # fractional coordinates transform as x' = R x; lattice metric condition R^T G R = G
    M = np.einsum("nji,jk,nkl->nil", _AUTO, Gm, _AUTO)
    ok = np.abs(M - Gm).reshape(len(_AUTO), -1).max(axis=1) < tol * scale
    return _AUTO[ok]


def proper_congruent(cell, P1, Z1, P2, Z2, tol=2e-4):
    """is there a PROPER lattice automorphism R and a translation t with R.P1 + t = P2 (species-wise, mod 1)?
    Returns (found_proper, found_improper)."""
    P1 = np.array(P1) % 1.0
    P2 = np.array(P2) % 1.0
    Z1 = np.array(Z1)
    Z2 = np.array(Z2)
    if sorted(Z1.tolist()) != sorted(Z2.tolist()):
        return False, False
    # anchor: an atom of the rarest species
    vals, counts = np.unique(Z1, return_counts=True)
    z0 = vals[np.argmin(counts)]
    i0 = int(np.nonzero(Z1 == z0)[0][0])
    targets = np.nonzero(Z2 == z0)[0]
    found = {1: False, -1: False}
    for R in lattice_automorphisms(cell):
        det = int(round(np.linalg.det(R)))
        if found[det]:
            continue
        Q = P1 @ R.T
        for j in targets:
            t = P2[j] - Q[i0]
            X = (Q + t) % 1.0
            okall = True
            for zz in vals:
                A = X[Z1 == zz]
                B = P2[Z2 == zz]
                d = np.abs(A[:, None, :] - B[None, :, :])
                d = np.minimum(d, 1 - d).max(axis=2)
                if not ((d.min(axis=1) < tol).all() and (d.min(axis=0) < tol).all()):
                    okall = False
                    break
            if okall:
                found[det] = True
                break
        if found[1]:
            break
    return found[1], found[-1]


def c05_predicate(r):
    """the property's own predicate on one implementation result; returns list of failed clauses"""
    bad = []
    if r["conv_number_independent"] != r["number"]:
        bad.append("independent symmetry search on the conventional system gives %s, analyzer reports %s" % (r["conv_number_independent"], r["number"]))
    if not np.allclose(np.array(r["conv_cell"]), np.array(r["std_lattice"]), rtol=0, atol=1e-8 * max(1.0, np.abs(np.array(r["std_lattice"])).max())):
        bad.append("conventional cell differs from the standardized lattice")
    if sorted(r["conv_numbers"]) != sorted(r["std_types"]):
        bad.append("composition changed")
    if r["conv_numbers"] != r["std_types"]:
        bad.append("species order of the conventional atoms differs from the standardized atoms")
    if not r["input_untouched"]:
        bad.append("input structure was modified")
    if abs(r["volume_per_atom_input"] - r["volume_per_atom_conv"]) > 1e-3 * r["volume_per_atom_input"]:
        bad.append("atoms per volume changed")
    proper, improper = proper_congruent(r["std_lattice"], r["std_positions"], r["std_types"], r["conv_scaled"], r["conv_numbers"])
    if not proper:
        bad.append("no proper rigid motion maps the standardized atoms onto the returned atoms" + (" (only an improper one: mirror image)" if improper else ""))
    return bad


def multiset(r):
    return sorted((s["letter"], s["element"], s["multiplicity"]) for s in r["wyckoff_sets"])


def c06_pair_predicate(a, b, sg, tables):
    """clauses of C06 on two presentations a, b of one crystal"""
    bad = []
    for key in ("material_id", "number", "has_free"):
        if a[key] != b[key]:
            bad.append("%s differs: %r vs %r" % (key, a[key], b[key]))
    if a["labels"] != b["labels"]:
        bad.append("labels differ: %r vs %r" % (a["labels"], b["labels"]))
    if multiset(a) != multiset(b):
        bad.append("Wyckoff multiset differs: %r vs %r" % (multiset(a), multiset(b)))
    # parameter-free structure in a metrically fixed (cubic) lattice type: identical conventional cell
    if not a["has_free"] and not b["has_free"] and sg >= 195 and len(a["conv_numbers"]) == len(b["conv_numbers"]):
        if not np.allclose(np.array(a["conv_cell"]), np.array(b["conv_cell"]), rtol=1e-5, atol=1e-6):
            bad.append("conventional lattice differs for a parameter-free cubic structure")
        else:
            A = np.array(a["conv_scaled"]) % 1.0
            B = np.array(b["conv_scaled"]) % 1.0
            za, zb = np.array(a["conv_numbers"]), np.array(b["conv_numbers"])
            for zz in set(za.tolist()):
                X, Y = A[za == zz], B[zb == zz]
                if len(X) != len(Y):
                    bad.append("species count differs")
                    break
                d = np.abs(X[:, None, :] - Y[None, :, :])
                d = np.minimum(d, 1 - d).max(axis=2)
                if not ((d.min(axis=1) < 1e-4).all() and (d.min(axis=0) < 1e-4).all()):
                    bad.append("set of atomic positions differs for a parameter-free cubic structure (Z=%d)" % zz)
                    break
    return bad


# ---- search aid (untrusted): which occupation patterns make a given normalizer win -----------------------
def py_ground_state(perms, letters, numbers):
    """Python mirror of Symmetry/GroundState.ground_state; returns the chosen index (0 = identity)."""
    cands = [(0, {l: l for l in set(letters)})] + [(i + 1, p) for i, p in enumerate(perms)]
    if not perms:
        return 0

    def counts(p):
        d = {}
        for l, z in zip(letters, numbers):
            w = p.get(l)
            if w is not None:
                d[(w, z)] = d.get((w, z), 0) + 1
        return d
    reps = [(i, counts(p)) for i, p in cands]
    ws = sorted({v for _, p in cands for v in p.values()}, key=lambda s: ord(s[0]))
    zs = sorted(set(numbers))
    found = False
    for w in ws:
        if found:
            break
        for z in zs:
            m = max((c.get((w, z), 0) for _, c in reps), default=0)
            if m != 0:
                reps = [(i, c) for i, c in reps if c.get((w, z), 0) == m]
            if len(reps) == 1:
                found = True
    return reps[0][0]


def patterns_selecting(tables, sg, k, rng, max_atoms=120, limit=4):
    """occupation patterns [(letter, Z)] of group sg for which normalizer k is the one the search applies"""
    import itertools
    lets = K.table_letters(tables, sg)
    perms = [n["permutations"] for n in tables[2].get(sg, [])]
    out = []
    names = [l for l, m, nf in lets]
    mult = {l: m for l, m, nf in lets}
    combos = [c for r in (1, 2, 3) for c in itertools.combinations(names, r) if sum(mult[l] for l in c) <= max_atoms]
    rng.shuffle(combos)
    for combo in combos[:4000]:
        zs = rng.sample(K.SPECIES, len(combo))
        letters, numbers = [], []
        for l, z in zip(combo, zs):
            letters += [l] * mult[l]
            numbers += [z] * mult[l]
        if py_ground_state(perms, letters, numbers) == k + 1:
            out.append(list(zip(combo, zs)))
            if len(out) >= limit:
                break
    return out
