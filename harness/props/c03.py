"""C03 -- SBC separates a two-material stack into exactly the two slabs.

LEVEL = other.  What this check is, plainly:
  (1) a CONDITIONAL theorem, kernel-checked (Properties/C03.v over coq/Sbc/Conditional*.v): IF every call
      of the periodic finder honours the strong contract F1 (a region is returned; seed + basis indices are
      exactly the slab of the seed's element; the search mask contains the seed and no atom of the other
      slab), the slabs are bonded and merge_threshold >= 0, THEN for every seed-choice sequence the modelled
      pipeline makes exactly two finder calls and returns exactly the two slabs (merge: overlap 0 never
      exceeds a threshold >= 0 under the strict `>`; localize and clean are identities); plus
      C03_species_strict (a region grown by species-strict matching from a prototype cell of element A holds
      only A atoms) and the C13 dimensionality-shortcut clause;
  (2) a CONTRACT-CONFORMANCE RUN of the real SBC().get_clusters (default parameters) on a deterministic
      enumeration of the stated family (ordered pairs of distinct fcc metals on (100)/(111) and bcc metals on
      (100)/(110) with mismatch < 5 %, second strained to the first, 3-5 layers each, 4x4-5x5, interface at
      the mean interlayer spacing, pbc TTT/TTF, noise 0/0.03, rotation/translation/permutation/seed), with a
      logging wrapper around the real finder: F0/F1 per call, and the property's own conclusion (exactly two
      clusters = the two slabs as index sets, each with get_dimensionality() = 2) evaluated directly.
It is NOT a proof of the for-all claim: the finder's success on every member is observed, not proved.
"""
from lib import common as C
from props import crystal_family as F
from props import c02 as K

LEVEL = "other"
STATIC = K.STATIC
PID = "C03"


def run(ctx):
    K.common_context(ctx)
    ctx.assumptions += [
        "contract F1 on every finder call made on this input (ASSUMED by C03_partial; observed per call in the run)",
        "merge_threshold >= 0 (default 0.5); with a negative threshold disjoint clusters would be merged (Example C03_negative_threshold_outside_domain)",
        "each slab is bonded: inside a slab every atom is reached from every other by pairs with clip(D - radii) <= bond_threshold (premise of the property; evaluated independently with margin 0.15 A by the family precondition)",
        "both slabs are non-empty and every atom belongs to one of them",
    ]
    broken = []
    pres = C.prove_property(PID)
    ctx.record_proof(pres)
    if pres["failed"]:
        broken.append({"stage": "prove", "file": pres["failed"]["path"], "error": pres["failed"]["out"][-1500:]})

    quick = ctx.tier == "quick"
    import random as _random    # fixed enumeration (see c02.py): independent of VERIF_SEED
    keys = F.c03_quick_keys() if quick else F.c03_thorough_keys(_random.Random(K.ENUMERATION_SEED), 2500)
    built, rejected, skipped = K.build_members(keys, None, F.c03_member)
    built = built[:40] if quick else built[:700]
    members = []
    for c in K.load_corpus(PID):
        members.append({"id": len(members), "key": c["key"], "structure": c["structure"], "seed": c["seed"],
                        "classes": c["classes"], "dim": c["dim"], "meta": c.get("meta")})
    have = {m["key"] for m in members}
    for m in built:
        if m["key"] in have:
            continue
        members.append({"id": len(members), "key": m["key"], "structure": m["structure"], "seed": m["sbc_seed"],
                        "classes": m["slabs"], "dim": 2, "meta": m["meta"]})
    # the same stacks as ASE builds them (lower slab ON the cell face z = 0, axes aligned, atoms in building order), rattled,
    # with several further SBC seeds: rattled layers straddling the cell boundary and periodic-image bookkeeping of the finder
    # only show in this orientation.  Quick: thin (3-layer lower slab) members, 4 seeds; thorough: every member, 3 seeds.
    for m in list(built):
        lay = m["meta"]["layers"]
        if quick and not (lay[0] == 3):
            continue
        for k in range(4 if quick else 3):
            t = F.c03_member_asbuilt(m["key"], k)
            if t.get("admitted") and t["key"] not in have:
                members.append({"id": len(members), "key": t["key"], "structure": t["structure"], "seed": t["sbc_seed"],
                                "classes": t["slabs"], "dim": 2, "meta": t["meta"]})
    # ... and stacked periodically without vacuum (both interfaces bonded), several SBC seeds each
    for m in list(built):
        for k in range(5 if quick else 3):
            t = F.c03_member_superlattice(m["key"], k)
            if t.get("admitted") and t["key"] not in have:
                members.append({"id": len(members), "key": t["key"], "structure": t["structure"], "seed": t["sbc_seed"],
                                "classes": t["slabs"], "dim": 2, "meta": t["meta"]})
    fam = ("C03 family: ordered pairs (A, B) of distinct fcc metals on (100)/(111) and bcc metals on (100)/(110) of "
           "ase.data.reference_states with |a_B - a_A| / a_A < 5 %; B strained in-plane to A's cell (own interlayer spacing), "
           "3-5 layers each, 4x4 / 5x5 lateral repeats of the primitive surface cell, interface gap = mean interlayer spacing "
           "with B continuing the stacking registry, vacuum >= 8 A, pbc TTT/TTF, noise 0/0.03 A, random SO(3) rotation, "
           "translation, permutation, SBC seed -- all derived from the member key; admitted only if each slab and the stack are "
           "bonded (connected, periodic rank 2) and non-overlapping with margin 0.15 A (this rejects most pairs of W/Ta/Mo/Nb); "
           "plus, for the admitted members, the same stack as ASE builds it (lowest layer on the cell face, axes aligned) and the two slabs "
           "stacked periodically without vacuum, rattled, with several further SBC seeds")
    ctx.coverage["family_enumeration"] = {"keys_drawn": len(keys), "rejected_by_precondition": rejected, "corpus": len(have),
                                          "ordered_pairs_with_mismatch_below_5pct": len(F.c03_pairs())}
    res, verdicts, failing, corr_fail, corr_err, known = K.run_family(
        ctx, PID, members, fam, model_atoms=130 if quick else 200, model_count=16 if quick else 80)
    K.verdict(ctx, PID, broken, res, verdicts, failing, corr_fail, corr_err, known, len(members),
              "exactly two clusters whose index sets are the two slabs, each with get_dimensionality() == 2")


def replay(ctx, rep):
    case = rep.get("case")
    if not case:
        pres = C.prove_property(PID)
        if pres["failed"]:
            ctx.violation(rep, found_input=False)
        else:
            print("replay: the proof obligations hold now")
        return
    m = {"id": 0, "key": case["key"], "structure": case["structure"], "seed": case["seed"], "classes": case["classes"],
         "dim": case["dim"], "meta": case.get("meta")}
    res = K.run_impl([{"id": 0, "key": m["key"], "structure": m["structure"], "seed": m["seed"],
                       "model": len(m["structure"]["numbers"]) <= 220, "time_limit": 900}], jobs=1)
    v = K.judge(m, res.get(0))
    if v["fails"]:
        ctx.violation(dict(rep, failure_now=v["fails"][:3]), found_input=True)
        return
    cf, cerr, _ = K.coq_replay(PID.lower() + "_replay", [m], res, 220, 1)
    if cf or cerr:
        ctx.violation(dict(rep, relation_now="agree_run / f0_log still disagree on the logged run"), found_input=False)
        return
    print("replay: the property's conclusion holds on this input now")
