"""C05 -- the conventional cell is the same crystal as the input, chirality preserved.

prove (Properties/C05.v over the regenerated tables) -> correspond (the normalizer search of the model
against the implementation on real spglib datasets, crystals of all 230 groups in several presentations)
-> the property's own predicate on every implementation result (independent symmetry search, lattice,
composition, density, brute-force search for a PROPER rigid motion onto the standardized atoms).
"""
import os

from lib import common as C
from lib import symtables as S
from props import _c0506 as H

LEVEL = "proof"
STATIC = H.STATIC


def prove(ctx, pid, build):
    if not build["ok"]:
        ctx.add_obligations(len(C.theorem_names(os.path.join(C.COQ, "Properties/%s.v" % pid))), 0,
                            "theorems of Properties/%s.v (not attempted: table reflection failed, see C14)" % pid)
        return {"stage": "reflect", "files": build["broken"]}
    pres = C.prove_property(pid, [("Inst/C14Inst.v", None), ("Inst/C05Inst.v", None)], newer_than=S.all_vo_mtime(), timeout=3000)
    ctx.record_proof(pres)
    if pres["failed"]:
        return {"stage": "prove", "file": pres["failed"]["path"], "error": pres["failed"]["out"][-1500:]}
    return None


def run(ctx):
    ctx.add_trusted("table translation and reflection instances shared with C14 (see evidence/C14.json)",
                    "spglib as oracle: std_lattice/std_positions/std_types/wyckoffs are taken as given (contract S1-S3), validated per crystal",
                    "float part of the correspondence (positions = wrap(T.std_positions)) compared numerically with tolerance 5e-5 in fractional units")
    ctx.assumptions += ["crystals whose detected group is not stable over a 100x tolerance window are discarded and counted",
                        "'same crystal' = image under an operation of the affine normalizer; proper = det +1"]
    build = S.build()
    broken = prove(ctx, "C05", build)
    if build["tables"] is None:
        ctx.violation({"kind": "proof-obligation-broken", "broken": broken}, found_input=False)
        return
    per_group, n_pres = (1, 1) if ctx.tier == "quick" else (4, 3)
    cases, disc = H.family(ctx, build["tables"], per_group, n_pres)
    # a broken table clause about a normalizer: aim the search at crystals for which that normalizer is applied
    if not build["ok"]:
        targeted, summ = H.targeted_cases(build, ctx.rng)
        ctx.coverage["targeted_search"] = summ
        cases = targeted + cases
    rows, reuse_rows = H.run_impl(cases, reuse=True)
    known = C.load_known("C05")
    by_id = {c["id"]: c for c in cases}
    # (1) model vs implementation inside Coq
    failing, errors, n_terms = H.coq_ground_cases("c05gs", cases, rows)
    nontriv = sum(1 for c in cases if rows.get(c["id"], {}).get("chosen_index") not in (None, 0))
    ctx.add_cases(n_terms, len({(c["sg"], rows[c["id"]]["chosen_index"]) for c in cases if "chosen_index" in rows.get(c["id"], {})}),
                  [{"sg": cases[0]["sg"], "atoms": len(cases[0]["crystal"]["numbers"]), "presentation": cases[0]["pres"],
                    "chosen_index": rows[cases[0]["id"]].get("chosen_index")}])
    for e in errors[:1]:
        ctx.violation({"kind": "case-file-failed", "broken": "correspondence c05gs (ground_state model vs implementation)", "detail": e}, found_input=False)
    float_bad = [cid for cid, r in rows.items() if "error" not in r and r.get("chosen_index") is not None and not H.positions_follow_model(r)]
    # (2) the property's own predicate
    viol = []
    errs = []
    for c in cases:
        r = rows.get(c["id"])
        if r is None or "error" in r:
            errs.append((c, r))
            continue
        bad = H.c05_predicate(r)
        if bad:
            viol.append((c, r, bad))
    ctx.coverage["input_distribution"] = {
        "crystals": len({c["base"] for c in cases}), "presentations": len(cases), "discarded": disc,
        "groups_covered": len({c["sg"] for c in cases}),
        "non_identity_normalizer_chosen": nontriv,
        "atoms_min_max": [min(len(c["crystal"]["numbers"]) for c in cases), max(len(c["crystal"]["numbers"]) for c in cases)],
        "analyzer_errors": len(errs)}
    ctx.coverage["rule"] = ("crystals generated from spglib's Hall database in all 230 groups (1-3 orbits, general/special positions, <=120 atoms), "
                            "each as given and re-presented (unimodular shear, rotation, translation, permutation, supercell); distinct non-trivial = "
                            "distinct (group, chosen normalizer index) pairs")
    for (c, r, bad) in viol[:1]:
        key = "conventional:%s:sg%d" % ("mirror-image" if any("mirror" in b for b in bad) else "predicate", c["sg"])
        if C.known_match(known, key):
            ctx.known_finding(C.known_match(known, key))
        else:
            ctx.violation({"kind": "property-fails-on-implementation", "crystal": c["crystal"], "sg": c["sg"], "failed_clauses": bad, "tol": c.get("tol", 1e-3),
                           "presentation": c["pres"], "key": key, "broken_obligation": broken, "getters_called_first": r.get("getters_called_first"),
                           "getters_meaning": "public get_* methods of the SymmetryAnalyzer called (in this order) before the examined calls; null = none",
                           "call": "SymmetryAnalyzer(crystal, symmetry_tol=tol).get_conventional_system()"}, found_input=True)
    bad_reuse = [r for r in reuse_rows if "error" in r or not r.get("same")]
    ctx.coverage["analyzer_reuse"] = {"sequences_checked": len(reuse_rows), "differences": bad_reuse[:5]}
    ctx.add_cases(len(reuse_rows), len(reuse_rows))
    for r in bad_reuse[:1]:
        c = by_id[r["id"]]
        ctx.violation({"kind": "property-fails-on-implementation", "history": "one SymmetryAnalyzer instance fed successive structures through set_system() -- new Atoms objects and the same "
                       "Atoms object edited in place (strained, substituted); at step detail.step the answer differs from a freshly constructed analyzer "
                       "on a copy of the structure", "crystal": c["crystal"], "sg": c["sg"], "detail": r,
                       "broken_obligation": broken}, found_input=True)
    for (c, r) in errs[:1]:
        ctx.violation({"kind": "analyzer-raised", "crystal": c["crystal"], "sg": c["sg"], "error": r, "broken_obligation": broken}, found_input=True)
    ctx.coverage["predicate_failures"] = [{"sg": c["sg"], "clauses": bad} for c, r, bad in viol[:20]]
    if (failing or float_bad) and not viol and not errs and not bad_reuse:
        cid = (failing or float_bad)[0]
        ctx.violation({"kind": "model-vs-implementation-disagree", "broken": "correspondence: GroundState.ground_state / wrap(T.std_positions) vs SymmetryAnalyzer._find_wyckoff_ground_state",
                       "crystal": by_id[cid]["crystal"], "sg": by_id[cid]["sg"], "implementation": {k: rows[cid][k] for k in ("chosen_index", "spglib_letters_conv", "conv_letters", "std_types")},
                       "property_predicate_on_this_input": "holds"}, found_input=False)
    elif broken and not viol and not errs and not bad_reuse:
        ctx.violation({"kind": "proof-obligation-broken", "broken": broken, "searched": "%d presentations: the property's predicate holds on all" % len(cases)}, found_input=False)


def replay(ctx, rep):
    if "crystal" not in rep:
        print("replay: nothing to re-run")
        return
    rows = H.run_impl([dict({"id": 0, "crystal": rep["crystal"], "getters": rep.get("getters_called_first") or []}, **({"tol": rep["tol"]} if rep.get("tol") else {}))], jobs=1)
    r = rows[0]
    if "error" in r or H.c05_predicate(r):
        ctx.violation(rep, found_input=True)
    else:
        print("replay: property holds on this input now")
