"""C15 -- the chirality flag is true exactly for the 65 Sohncke space groups.

translate (shared tables: symmetry_data.py -> Generated/SG*.v, spglib reference)
-> prove (Inst/C15Inst.v: reflection of the exact-determinant model over the 230 regenerated tables,
   cross-check against spglib's Hall database through C14's group_semantics; Properties/C15.v)
-> correspond: crystals of all 230 groups x re-presentations (unimodular basis changes of either
   handedness, supercells |det| <= 4, rotations, translations, permutations) through
   SymmetryAnalyzer.get_space_group_number / get_is_chiral; the integer matrices the implementation
   actually hands to its determinant are written into Coq case files where (a) the exact model is
   evaluated on those same matrices and compared with the returned flag and (b) the spglib contract
   (the scanned matrices are the rotation parts of the group of the reported number in some basis)
   is validated by a certificate check whose soundness is proved (C15_case_files_establish_the_property).
   The property's own predicate (flag <=> number in sohncke65; equal flags across re-presentations) is
   evaluated directly on the implementation's answers.
"""
import contextlib
import glob
import hashlib
import json
import os
import random
import re
import time
from concurrent.futures import ProcessPoolExecutor

import numpy as np

from lib import common as C
from lib import symtables as S
from lib import crystals as K

LEVEL = "proof"
# the generated tables depend on exactly these static files (same list as C14, so that the compiled
# tables are shared between the two checks instead of being rebuilt when the other one ran last)
TABLE_STATIC = S.STATIC + ["Reflect/GroupChecksProofs.vo", "Reflect/NormChecksProofs.vo", "Reflect/InfoAgree.vo"]
STATIC = TABLE_STATIC + ["Symmetry/Chiral.vo", "Symmetry/ChiralProofs.vo"]
TOL = 1e-4          # symmetry tolerance for the main stream (crystals are exact to ~1e-12)
JOBS = min(8, C.NCPU)
CORPUS = os.path.join(C.VERIF, "corpus", "C15")
I3 = [[1, 0, 0], [0, 1, 0], [0, 0, 1]]


def sohncke_from_coq():
    """single transcription: the list the theorems are about, read from Symmetry/Chiral.v"""
    with open(os.path.join(C.COQ, "Symmetry", "Chiral.v"), encoding="utf-8") as f:
        txt = C.strip_coq_comments(f.read())
    m = re.search(r"Definition\s+sohncke65\s*:\s*list Z\s*:=\s*\[(.*?)\]\s*\.", txt, re.S)
    nums = [int(x) for x in m.group(1).replace("\n", " ").split(";")]
    if len(nums) != 65 or len(set(nums)) != 65:
        raise RuntimeError("sohncke65 in Chiral.v is not a list of 65 distinct numbers")
    return frozenset(nums)


@contextlib.contextmanager
def table_static_targets():
    old = C.STATIC_TARGETS
    C.STATIC_TARGETS = TABLE_STATIC
    try:
        yield
    finally:
        C.STATIC_TARGETS = old


# ---------------------------------------------------------------------------------------------------
# re-presentations (explicit and replayable)
# ---------------------------------------------------------------------------------------------------
def det3(m):
    (a, b, c), (d, e, f), (g, h, i) = m
    return a * (e * i - f * h) - b * (d * i - f * g) + c * (d * h - e * g)


def strip(cr):
    return {k: cr[k] for k in ("cell", "scaled_positions", "numbers")}


def random_signed_perm(rng):
    p = [0, 1, 2]
    rng.shuffle(p)
    M = np.zeros((3, 3), dtype=int)
    for i in range(3):
        M[i, p[i]] = rng.choice([-1, 1])
    return M


def proper_supercell(rng):
    while True:
        H = K.random_supercell_matrix(rng)
        if 2 <= abs(det3(H.tolist())) <= 4:
            return H


def make_presentation(kind, rng):
    d = {"kind": kind, "T": I3, "rotation": None, "translation": None, "perm_seed": None}
    if kind == "identity":
        return d
    U = np.eye(3, dtype=int)
    if kind.startswith("primitive"):
        # the description starts from a PRIMITIVE cell of the crystal (spglib, no idealisation), not from the conventional one:
        # supercells of the primitive cell of a centred lattice have as many atoms as the conventional cell, or fewer
        d["from_primitive"] = True
        kind = kind[len("primitive"):].lstrip("-") or "identity"
        if kind == "identity":
            d["rotation"] = K.random_rotation(rng, proper=True).tolist()
            d["perm_seed"] = rng.randrange(1 << 30)
            return d
    if kind in ("shear", "shear-lefthanded", "supercell+shear"):
        U = K.random_unimodular(rng, steps=rng.choice([2, 3, 4, 5, 6]))
    if kind == "shear-lefthanded":
        U = random_signed_perm(rng) @ U
    if kind in ("supercell", "supercell+shear"):
        H = proper_supercell(rng)
        if kind == "supercell+shear":     # applied one after the other: first the supercell, then the shear
            d["T_steps"] = [[[int(x) for x in row] for row in M.tolist()] for M in (H, U)]
        U = U @ H
    d["T"] = [[int(x) for x in row] for row in U.tolist()]
    if kind != "shear-only":
        d["rotation"] = K.random_rotation(rng, proper=True).tolist()
        d["translation"] = [rng.uniform(-5, 5) for _ in range(3)]
        d["perm_seed"] = rng.randrange(1 << 30)
    return d


def apply_presentation(cr, d):
    """the same crystal in another description; None when the supercell enumeration failed"""
    out = strip(cr)
    if d.get("from_primitive"):
        import spglib
        prim = spglib.standardize_cell((np.array(out["cell"]), np.array(out["scaled_positions"]), np.array(out["numbers"])),
                                       to_primitive=True, no_idealize=True, symprec=1e-5)
        if prim is None:
            return None
        out = {"cell": np.array(prim[0]).tolist(), "scaled_positions": np.array(prim[1]).tolist(), "numbers": [int(z) for z in prim[2]]}
    for step in (d.get("T_steps") or [d["T"]]):     # new cell rows = T @ old cell rows; T = product of the steps
        T = np.array(step, dtype=int)
        if not np.array_equal(T, np.eye(3, dtype=int)):
            out = K.transform_basis(out, T)
            if out is None:
                return None
            out = strip(out)
    cell = np.array(out["cell"], dtype=float)
    P = np.array(out["scaled_positions"], dtype=float)
    nums = list(out["numbers"])
    cart = P @ cell
    changed = False
    if d.get("rotation") is not None:
        R = np.array(d["rotation"], dtype=float)
        cell = cell @ R.T
        cart = cart @ R.T
        changed = True
    if d.get("translation") is not None:
        cart = cart + np.array(d["translation"], dtype=float)
        changed = True
    if changed:
        P = (cart @ np.linalg.inv(cell)) % 1.0
    if d.get("perm_seed") is not None:
        perm = list(range(len(nums)))
        random.Random(d["perm_seed"]).shuffle(perm)
        P = P[perm]
        nums = [nums[i] for i in perm]
    return {"cell": cell.tolist(), "scaled_positions": P.tolist(), "numbers": [int(z) for z in nums]}


KINDS_QUICK = ["identity", "shear", "supercell", "supercell+shear", "primitive", "primitive-supercell"]
KINDS_THOROUGH = ["identity", "shear", "shear", "shear-lefthanded", "supercell", "supercell", "supercell+shear",
                  "primitive", "primitive-supercell", "primitive-supercell", "primitive-supercell+shear"]

_TABLES = None


def _gen_job(args):
    """all crystals and presentations of one group, from its own seed (parallel, deterministic)"""
    sg, seed, n_crystals, kinds, max_atoms = args
    rng = random.Random(seed)
    out, disc = [], 0
    for ci in range(n_crystals):
        cr, d = K.generate(sg, rng, _TABLES, max_atoms=max_atoms, tries=30)
        disc += d
        if cr is None and not out:      # every group must be represented: widen the search once
            cr, d = K.generate(sg, rng, _TABLES, max_atoms=2 * max_atoms, tries=60)
            disc += d
        if cr is None:
            continue
        pres = []
        for kind in kinds:
            d_ = make_presentation(kind, rng)
            pc = apply_presentation(cr, d_)
            if pc is None:
                continue
            pres.append({"desc": d_, "crystal": pc, "tol": TOL})
        # the sheared description once more at MatID's default tolerance (0.4 angstrom)
        for p in pres:
            if p["desc"]["kind"] == "shear":
                pres.append({"desc": dict(p["desc"], kind="shear@default-tol"), "crystal": p["crystal"], "tol": None})
                break
        out.append({"sg": sg, "index": ci, "crystal": strip(cr), "orbits": cr.get("orbits"), "presentations": pres})
    return sg, out, disc


def generate_family(ctx, tables, n_crystals, kinds, max_atoms=100, groups=None):
    global _TABLES
    _TABLES = tables
    groups = list(groups or range(1, 231))
    jobs = [(sg, ctx.rng.randrange(1 << 62), n_crystals, kinds, max_atoms) for sg in groups]
    with ProcessPoolExecutor(max_workers=JOBS) as ex:
        res = list(ex.map(_gen_job, jobs, chunksize=2))
    fam, disc = [], 0
    for sg, out, d in res:
        fam += out
        disc += d
    return fam, disc


# ---------------------------------------------------------------------------------------------------
# implementation runs and the property's own predicate
# ---------------------------------------------------------------------------------------------------
PREVIOUS = {}


def run_impl(cases):
    """cases: [{id, crystal, tol}] -> {id: result}"""
    if not cases:
        return {}, "n/a"
    n = max(1, min(JOBS, len(cases) // 8 or 1))
    chunks = [c for c in (cases[i::n] for i in range(n)) if c]
    for ch in chunks:       # which crystal the process-wide analyzer of the runner saw just before each case (same tolerance)
        last = {}
        for c in ch:
            PREVIOUS[c["id"]] = last.get(c["tol"])
            last[c["tol"]] = c["crystal"]
    outs = C.impl_run_parallel("c15_impl", [{"cases": [dict({"id": c["id"], "crystal": c["crystal"], "tol": c["tol"]}, **({"getters": c["getters"]} if c.get("getters") is not None else {}))
                                                       for c in ch]} for ch in chunks], jobs=JOBS)
    res = {}
    for o in outs:
        for r in o["results"]:
            res[r["id"]] = r
    return res, outs[0]["mode"]


def predicate(r, soh):
    """the property on one answer of the implementation: None = holds, else a reason"""
    if "error" in r:
        return "analyzer-error"
    if r["flag_type"] not in ("bool", "bool_"):
        return "flag-not-boolean"
    if r["flag"] != r["flag_again"]:
        return "flag-not-deterministic"
    if r.get("flag_after_getters") is not None and r["flag_after_getters"] != r["flag"]:
        return "flag-depends-on-order-of-public-calls"
    ru = r.get("reused_analyzer")
    if ru is not None and (ru[0] == "error" or ru[0] != r["flag"] or ru[2] != r["flag"] or ru[1] != r["number"]):
        return "flag-depends-on-analyzer-history"
    if r["flag"] != (r["number"] in soh):
        return "flag-differs-from-sohncke-membership"
    return None


def cause_of(r):
    """root cause of a failing answer, from the matrices the implementation scanned"""
    if "error" in r:
        return "error"
    sc = r["scanned"]
    exact = all(det3(m) != -1 for m in sc)
    if sc and exact != r["flag"]:       # the exact model on the same matrices answers differently
        inexact = any(float.fromhex(v) != float(det3(m)) for m, v in zip(sc, r.get("dets", [])))
        return "float-determinant" if inexact else "decision-differs-from-exact-model"
    if r["flag"] and exact:
        return "operations-missing"     # nothing improper among the scanned matrices although the group has some
    return "other"


def mlit(m):
    return "(" + ", ".join("(" + ", ".join(str(int(x)) for x in row) + ")" for row in m) + ")"


PREAMBLE = ("From Coq Require Import ZArith List Bool.\nImport ListNotations.\n"
            "From MV Require Import Symmetry.Table Symmetry.Affine Symmetry.Chiral.\n"
            "From MVD Require Import Generated.RefSpglib.\nOpen Scope Z_scope.\n"
            "Definition refr (n : Z) : list m3 := map fst (ref_of n).\n")


def coq_term(c, r, relation="case_conj"):
    cands = []
    if r["number"] == c.get("sg"):
        T = np.array(c["desc"]["T"], dtype=int)
        cands.append(T.T.tolist())          # columns of Pz = new basis vectors in terms of the old ones
    if I3 not in cands:
        cands.append(I3)
    sc = C.listlit([mlit(m) for m in r["scanned"]])
    if relation == "case_census":
        return "case_census (refr %d) %s %s" % (r["number"], C.boollit(r["flag"]), sc)
    return "%s (refr %d) %s %s %s" % (relation, r["number"], C.boollit(r["flag"]), sc, C.listlit([mlit(m) for m in cands]))


def diagnose(cases, results, ids):
    """case_diag for failing ids -> {id: (model_eq_flag, unimodular, contract_conj, contract_census)}"""
    by = {c["id"]: c for c in cases}
    text = PREAMBLE + "Set Printing Width 100000.\n"
    for i in ids:
        text += "Eval vm_compute in (%d%%nat, %s).\n" % (i, coq_term(by[i], results[i], "case_diag"))
    rc, out = C.coq_eval("c15diag", text)
    d = {}
    if rc != 0:
        return {i: None for i in ids}, out[-1500:]
    for m in re.finditer(r"=\s*\((\d+)%nat,\s*\(?\s*(true|false),\s*(true|false),\s*(true|false),\s*(true|false)\)?\)", out.replace("\n", " ")):
        d[int(m.group(1))] = tuple(x == "true" for x in m.groups()[1:])
    return d, None


# ---------------------------------------------------------------------------------------------------
# shrinking
# ---------------------------------------------------------------------------------------------------
def elementary_shears():
    out = []
    for i in range(3):
        for j in range(3):
            if i != j:
                for s in (1, -1):
                    E = np.eye(3, dtype=int)
                    E[i, j] = s
                    out.append(E.tolist())
    return out


def small_supercells(max_det=3):
    out = []
    for a in range(1, max_det + 1):
        for b in range(1, max_det + 1):
            for c in range(1, max_det + 1):
                if 2 <= a * b * c <= max_det:
                    for x in range(b):
                        for y in range(c):
                            for z in range(c):
                                out.append([[a, x, y], [0, b, z], [0, 0, c]])
    out.sort(key=lambda m: (det3(m), sum(abs(v) for r in m for v in r)))
    return out


def weight(T):
    return sum(abs(v) for row in T for v in row) + 10 * abs(det3(T))


def still_fails(r, soh, cause):
    return r is not None and "error" not in r and predicate(r, soh) == "flag-differs-from-sohncke-membership" and cause_of(r) == cause


def shrink(ctx, base, desc, tol, soh, tables, sg, cause):
    """smaller (crystal, presentation) on which the property still fails FOR THE SAME REASON;
    returns (base, desc, presented, result) or None"""
    bases = [base]
    rng = random.Random(ctx.seed * 1000 + (sg or 0))
    if tables is not None and sg:
        for _ in range(4):
            cr, _d = K.generate(sg, rng, tables, max_atoms=24, n_orbits=rng.choice([1, 2]), tries=10)
            if cr is not None and len(cr["numbers"]) < len(base["numbers"]):
                bases.append(strip(cr))
    bases.sort(key=lambda b: len(b["numbers"]))

    def attempt(cands):
        cs = []
        for k, (b, d) in enumerate(cands):
            pc = apply_presentation(b, d)
            if pc is not None:
                cs.append({"id": k, "crystal": pc, "tol": tol, "base": b, "desc": d})
        res, _ = run_impl(cs)
        return [(c["base"], c["desc"], c["crystal"], res[c["id"]]) for c in cs if still_fails(res.get(c["id"]), soh, cause)]

    def bare(T):
        return {"kind": "shrunk", "T": [[int(v) for v in row] for row in T], "rotation": None, "translation": None, "perm_seed": None}
    # 1. no rotation / translation / permutation, smallest crystal of the group
    hits = attempt([(b, bare(desc["T"])) for b in bases])
    if not hits:
        return None
    best = hits[0]
    # 2. greedy reduction of the integer basis change
    first = True
    for _ in range(10):
        b, T = best[0], np.array(best[1]["T"], dtype=int)
        cand = []
        for E in elementary_shears():
            for T2 in (np.array(E) @ T, T @ np.array(E)):
                cand.append(T2.tolist())
        if first and abs(det3(T.tolist())) > 1:
            cand += small_supercells(4)
        first = False
        cand = [t for t in cand if weight(t) < weight(T.tolist()) and t != I3]
        uniq = []
        for t in sorted(cand, key=weight):
            if t not in uniq:
                uniq.append(t)
        hits = attempt([(b, bare(t)) for t in uniq])
        if not hits:
            break
        best = min(hits, key=lambda h: weight(h[1]["T"]))
    return best


def trim(r, n=12):
    r = dict(r)
    for k in ("scanned", "dets", "rotations"):
        if k in r and len(r[k]) > n:
            r[k + "_count"] = len(r[k])
            r[k] = r[k][:n]
    return r


def report(ctx, soh, tables, c, r, reason, baseline=None, broken=None, do_shrink=True):
    cause = cause_of(r) if reason == "flag-differs-from-sohncke-membership" else reason
    base, desc, presented, rr = c["base"], c["desc"], c["crystal"], r
    shrunk = False
    if do_shrink and reason == "flag-differs-from-sohncke-membership":
        s = shrink(ctx, c["base"], c["desc"], c["tol"], soh, tables, c.get("sg"), cause)
        if s is not None:
            base, desc, presented, rr = s
            shrunk = True
    if baseline is None:
        b, _ = run_impl([{"id": 0, "crystal": base, "tol": c["tol"]}])
        if 0 in b and "error" not in b[0]:
            baseline = {"presentation": "identity (the crystal as constructed)", "number": b[0]["number"], "flag": b[0]["flag"]}
    inexact = [(m, float.fromhex(v)) for m, v in zip(rr.get("scanned", []), rr.get("dets", [])) if float.fromhex(v) != float(det3(m))]
    rep = {"kind": "property-fails-on-implementation", "reason": reason, "cause": cause, "shrunk": shrunk,
           "call": "SymmetryAnalyzer(Atoms(numbers, cell, scaled_positions, pbc=True), symmetry_tol=%r): get_space_group_number(), get_is_chiral()" % c["tol"],
           "space_group_of_construction": c.get("sg"), "crystal": base, "presentation": desc,
           "presented_crystal": presented, "tol": c["tol"],
           "implementation": trim(rr), "expected_flag": (rr.get("number") in soh) if "number" in rr else None,
           "scanned_matrices_with_inexact_float_determinant": [{"matrix": m, "float_det": v, "exact_det": det3(m)} for m, v in inexact[:6]],
           "baseline": baseline, "broken_obligation": broken}
    if reason == "flag-depends-on-order-of-public-calls":
        rep["history"] = ("a fresh SymmetryAnalyzer on presented_crystal: the public getters listed in getters_called_first are called in that order, then "
                          "get_is_chiral() answers implementation.flag_after_getters, while a fresh analyzer asked directly answers implementation.flag")
        rep["getters_called_first"] = rr.get("getters_called_first")
    if reason == "flag-depends-on-analyzer-history":
        rep["history"] = ("one SymmetryAnalyzer object: constructed on / set_system(previous_crystal), get_is_chiral(); then set_system(presented_crystal): "
                          "get_is_chiral() / get_space_group_number() differ from a fresh analyzer's (implementation.reused_analyzer = [flag, number, flag again])")
        rep["previous_crystal"] = PREVIOUS.get(c["id"])
    return ctx.violation(rep, found_input=True, tag="%s-sg%s" % (cause, rr.get("number", c.get("sg"))))


# ---------------------------------------------------------------------------------------------------
def prove():
    """Inst/C14Inst.v is shared with the other table properties (same per-run directory): when somebody else
    recompiled it after our instance file was built, ours is stale although its source did not change"""
    dep = S.all_vo_mtime()
    c14 = os.path.join(C.dyn_dir(), "Inst", "C14Inst.vo")
    if os.path.exists(c14):
        dep = max(dep, os.path.getmtime(c14))
    return C.prove_property("C15", [("Inst/C14Inst.v", None), ("Inst/C15Inst.v", None)], newer_than=dep, timeout=1800)


def load_corpus():
    items = []
    for p in sorted(glob.glob(os.path.join(CORPUS, "*.json"))):
        with open(p) as f:
            d = json.load(f)
        d["file"] = os.path.basename(p)
        items.append(d)
    return items


def run(ctx):
    ctx.add_trusted("translator/gen_symdata.py + pyast.py (ast, fail-closed) and translator/gen_ref_spglib.py (shared with C14)",
                    "reference data: the list of the 65 Sohncke space-group numbers transcribed from ITA (coq/Symmetry/Chiral.v: sohncke65); "
                    "cross-checked by proof against the regenerated MatID tables and against spglib's Hall database",
                    "the determinant spy of harness/impl/c15_impl.py (numpy.linalg.det wrapped from the harness while get_is_chiral runs) "
                    "reports the matrices the implementation scans",
                    "model: get_is_chiral modelled by hand in exact integer arithmetic (coq/Symmetry/Chiral.v); floating-point determinants "
                    "are compared a posteriori per call, not modelled")
    ctx.assumptions += ["spglib contract (Section hypotheses S4_sound/S4_complete of Inst/C15Inst.v, validated per case by the certificate check s4_b): "
                        "the matrices scanned by get_is_chiral are exactly the rotation parts of the group of the reported number, expressed in some basis",
                        "the standard setting of a space group is spglib's first Hall number for it (as in C14)"]
    soh = sohncke_from_coq()
    with table_static_targets():
        build = S.build()
    ctx.coverage["tables"] = build["meta"]
    ctx.coverage["tables_build"] = {"cached": build["cached"], "wall_s": round(build.get("wall_s", 0), 1), "ok": build["ok"]}
    broken = build["broken"]
    tables = build["tables"]
    pres = None
    if build["ok"]:
        pres = prove()
        if pres["failed"] and "inconsistent assumptions" in pres["failed"]["out"]:
            # another check recompiled a shared per-run file (Inst/C14Inst.vo) in between: rebuild ours once
            for rel in ("Inst/C15Inst.vo", "Properties/C15.vo"):
                with contextlib.suppress(FileNotFoundError):
                    os.remove(os.path.join(C.dyn_dir(), rel))
            pres = prove()
        inst_ok = any(r["path"] == "Inst/C15Inst.v" and r["rc"] == 0 for r in pres["results"])
        ctx.add_obligations(230, 230 if inst_ok else 0, "reflection instance sohncke_reflect: chk_sohncke on each of the 230 regenerated tables (one vm_compute)")
        ctx.record_proof(pres)
        if pres["failed"]:
            broken = {"stage": "prove", "file": pres["failed"]["path"], "error": pres["failed"]["out"][-1500:]}
    else:
        ctx.add_obligations(230 + len(C.theorem_names(os.path.join(C.COQ, "Properties/C15.v"))), 0,
                            "not attempted: the shared table build failed (see C14)")
    offenders = []
    if broken and build["tables"] is not None and os.path.exists(os.path.join(C.dyn_dir(), "Generated", "SGAll.vo")):
        rc, out = C.coq_eval("c15off", "From Coq Require Import ZArith List Bool.\nImport ListNotations.\nFrom MV Require Import Symmetry.Table Symmetry.Chiral.\n"
                                       "From MVD Require Import Generated.SGAll.\nOpen Scope Z_scope.\nEval vm_compute in (sohncke_offenders tables).\n")
        if rc == 0:
            ls = C.parse_eval_lists(out)
            if ls and ls[0].strip():
                offenders = [int(x) for x in ls[0].split(";")]
        ctx.coverage["table_offenders"] = offenders

    # ---------------- inputs: corpus first, then the family ------------------------------------------------
    cases = []          # {id, sg, base, desc, crystal, tol, group_key}
    def add_case(sg, base, desc, crystal, tol, gkey, origin):
        cases.append({"id": len(cases), "sg": sg, "base": base, "desc": desc, "crystal": crystal, "tol": tol, "gkey": gkey, "origin": origin})
    corpus = load_corpus()
    for it in corpus:
        pc = apply_presentation(it["crystal"], it["presentation"])
        if pc is None:
            continue
        gkey = "corpus:" + it["file"]
        add_case(it.get("sg"), it["crystal"], {"kind": "identity", "T": I3, "rotation": None, "translation": None, "perm_seed": None},
                 strip(it["crystal"]), it.get("tol", TOL), gkey, "corpus")
        add_case(it.get("sg"), it["crystal"], it["presentation"], pc, it.get("tol", TOL), gkey, "corpus")
    n_corpus = len(cases)
    fam, disc = [], 0
    if tables is not None:
        t0 = time.time()
        if ctx.tier == "quick":
            fam, disc = generate_family(ctx, tables, 2, KINDS_QUICK)
        else:
            fam, disc = generate_family(ctx, tables, 5, KINDS_THOROUGH)
        ctx.coverage["generation_wall_s"] = round(time.time() - t0, 1)
    for f in fam:
        gkey = "sg%d#%d" % (f["sg"], f["index"])
        for p in f["presentations"]:
            add_case(f["sg"], f["crystal"], p["desc"], p["crystal"], p["tol"], gkey, "family")
    t0 = time.time()
    results, mode = run_impl(cases)
    ctx.coverage["impl_wall_s"] = round(time.time() - t0, 1)
    ctx.coverage["ext_mode"] = mode

    # ---------------- the property's own predicate on the implementation -----------------------------------
    failures = []       # (case, result, reason, baseline)
    for c in cases:
        r = results.get(c["id"])
        if r is None:
            failures.append((c, {"error": "no result"}, "analyzer-error", None))
            continue
        why = predicate(r, soh)
        if why:
            failures.append((c, r, why, None))
    groups = {}
    for c in cases:
        groups.setdefault(c["gkey"], []).append(c)
    unstable = 0
    for gk, cs in groups.items():
        ok = [(c, results[c["id"]]) for c in cs if c["id"] in results and "error" not in results[c["id"]] and c["tol"] is not None]
        if not ok:
            continue
        c0, r0 = ok[0]
        for c, r in ok[1:]:
            if r["number"] != r0["number"]:
                unstable += 1       # the detected group itself changed; the flag is then judged by the predicate above only
                continue
            if r["flag"] != r0["flag"] and not any(f[0] is c or f[0] is c0 for f in failures):
                failures.append((c, r, "flag-differs-between-presentations", {"presentation": c0["desc"], "number": r0["number"], "flag": r0["flag"]}))

    # ---------------- correspondence inside Coq ------------------------------------------------------------
    good = [c for c in cases if c["id"] in results and "error" not in results[c["id"]]]
    coq_cases = [(c["id"], coq_term(c, results[c["id"]])) for c in good]
    failing, errors = ([], [])
    ref_ok = os.path.exists(os.path.join(C.dyn_dir(), "Generated", "RefSpglib.vo"))
    if ref_ok and coq_cases:
        t0 = time.time()
        failing, errors = C.coq_case_files("c15", PREAMBLE, coq_cases, per_file=max(20, min(250, len(coq_cases) // 12 + 1)))
        ctx.coverage["coq_cases_wall_s"] = round(time.time() - t0, 1)
    diag, diag_err = ({}, None)
    if failing:
        diag, diag_err = diagnose(cases, results, failing[:120])
    corr_bad = []       # correspondence genuinely broken: model != flag, non-unimodular, or contract fails both ways
    census_only = 0
    for i in failing:
        d = diag.get(i)
        if d is not None and d[0] and d[1] and d[3]:
            census_only += 1
            continue
        corr_bad.append((i, d))

    # ---------------- bookkeeping --------------------------------------------------------------------------
    seen_inputs = set()
    nontrivial = 0
    n_false = n_inexact = n_calls = n_wrong = 0
    reported_numbers = set()
    by_kind = {}
    s4_reduced = 0
    for c in good:
        r = results[c["id"]]
        h = hashlib.sha256(json.dumps(c["crystal"], sort_keys=True).encode()).hexdigest()
        if h not in seen_inputs and r["scanned"]:
            nontrivial += 1
        seen_inputs.add(h)
        n_false += (not r["flag"])
        reported_numbers.add(r["number"])
        by_kind[c["desc"]["kind"]] = by_kind.get(c["desc"]["kind"], 0) + 1
        for m, v in zip(r["scanned"], r["dets"]):
            n_calls += 1
            fv = float.fromhex(v)
            if fv != float(det3(m)):
                n_inexact += 1
            if round(fv) != det3(m):
                n_wrong += 1
        nref = len(K.ref_ops(r["number"])[0])
        k = abs(det3(c["desc"]["T"]))
        if len(r["rotations"]) != k * nref:
            s4_reduced += 1
    atoms = [len(c["crystal"]["numbers"]) for c in cases] or [0]
    ctx.add_cases(len(cases), nontrivial,
                  [{"space_group": c["sg"], "presentation": dict(c["desc"], rotation="(3x3)" if c["desc"]["rotation"] else None), "atoms": len(c["crystal"]["numbers"]),
                    "implementation": {k: results[c["id"]].get(k) for k in ("number", "flag")}, "scanned_matrices": len(results[c["id"]].get("scanned", []))}
                   for c in good[n_corpus:n_corpus + 4]])
    ctx.coverage["input_distribution"] = {
        "corpus_cases": n_corpus, "crystals": len(fam), "crystals_per_group": 2 if ctx.tier == "quick" else 5,
        "groups_generated": len({f["sg"] for f in fam}), "distinct_reported_space_groups": len(reported_numbers),
        "groups_never_reported": sorted(set(range(1, 231)) - reported_numbers)[:40],
        "discarded_unstable_or_higher_symmetry": disc, "presentations_by_kind": by_kind,
        "atoms_min_median_max": [min(atoms), sorted(atoms)[len(atoms) // 2], max(atoms)],
        "answers_false": n_false, "answers_true": len(good) - n_false,
        "analyzer_errors": len(cases) - len(good), "presentations_where_detected_number_changed": unstable,
        "symmetry_tol": {"main": TOL, "shear@default-tol": "matid.data.constants.SYMMETRY_TOL"}}
    missing_groups = sorted(set(range(1, 231)) - {f["sg"] for f in fam}) if tables is not None else []
    if missing_groups:
        ctx.notes.append("no crystal could be generated for groups %s in this run" % missing_groups)
    ctx.coverage["float_determinants"] = {"calls_observed": n_calls, "not_bit_equal_to_exact_integer": n_inexact, "rounding_to_another_integer": n_wrong}
    ctx.coverage["spglib_contract"] = {
        "cases_checked_in_coq": len(coq_cases), "validated_by_conjugation_certificate": len(coq_cases) - len(failing),
        "validated_by_trace_det_census_only": census_only, "failing": len(corr_bad),
        "dataset_rotations_fewer_than_group_times_index": s4_reduced,
        "note": "spglib's dataset.rotations lists only the operations that keep the lattice of the GIVEN cell invariant: for supercells that break the "
                "point symmetry of the lattice it is a proper subset of the group (DESIGN section 4, S4, does not hold there)"}
    ctx.coverage["rule"] = ("two crystals per space group (thorough: five) built from spglib's Hall database operations on random general/special orbits, detected number confirmed, "
                            "x re-presentations {identity, unimodular shear (+ left-handed), supercell 2<=|det|<=4, supercell+shear}, each with a random proper rotation, "
                            "translation and permutation, plus the sheared description at MatID's default tolerance; non-trivial = distinct presented crystals on which the "
                            "implementation scanned at least one matrix (the determinant branch was exercised)")
    ctx.coverage["exhaustive"] = False
    ctx.coverage["predicate_failures"] = [{"sg": c["sg"], "kind": c["desc"]["kind"], "T": c["desc"]["T"], "reason": why, "cause": cause_of(r),
                                           "number": r.get("number"), "flag": r.get("flag")} for c, r, why, _ in failures[:300]]
    ctx.coverage["predicate_failures_by_cause"] = {}
    for c, r, why, _ in failures:
        k = cause_of(r) if why == "flag-differs-from-sohncke-membership" else why
        ctx.coverage["predicate_failures_by_cause"][k] = ctx.coverage["predicate_failures_by_cause"].get(k, 0) + 1
    ctx.coverage["groups_with_predicate_failure"] = sorted({r.get("number") for c, r, why, _ in failures if "number" in r})

    # ---------------- verdict ------------------------------------------------------------------------------
    for e in errors:
        ctx.violation({"kind": "case-file-failed", "broken": "correspondence c15 (case files did not compile)", "detail": e}, found_input=False)
    done = set()
    for c, r, why, baseline in failures:
        k = cause_of(r) if why == "flag-differs-from-sohncke-membership" else why
        if k in done:
            continue
        done.add(k)
        report(ctx, soh, tables, c, r, why, baseline, broken)
    if corr_bad and not failures:
        # the correspondence broke although the property held on every input of the stream: directed search
        found = directed_search(ctx, soh, tables, 90)
        if found is not None:
            c, r, why = found
            report(ctx, soh, tables, c, r, why, None, broken)
        else:
            i, d = corr_bad[0]
            c = [x for x in cases if x["id"] == i][0]
            ctx.violation({"kind": "correspondence-broken", "broken": "agreement relation Chiral.case_conj / case_census (model on the scanned matrices = flag; "
                           "all determinants +-1; scanned matrices = rotation parts of the group of the reported number in some basis)",
                           "diagnosis_(model_eq_flag, unimodular, contract_by_conjugation, contract_by_census)": d, "diag_error": diag_err,
                           "failing_cases": len(corr_bad), "crystal": c["base"], "presentation": c["desc"], "presented_crystal": c["crystal"],
                           "implementation": trim(results[i]),
                           "searched": "property predicate evaluated on %d inputs of the stream and in a 90 s directed search: no failing input" % len(cases)},
                          found_input=False)
    if broken and not failures and not (corr_bad):
        found = None
        if offenders and tables is not None:
            found = directed_search(ctx, soh, tables, 90, groups=offenders)
        if found is not None:
            c, r, why = found
            report(ctx, soh, tables, c, r, why, None, broken)
        else:
            ctx.violation({"kind": "proof-obligation-broken", "broken": broken, "table_groups_failing_chk_sohncke": offenders,
                           "searched": "property predicate evaluated on %d inputs (all 230 groups) and a directed search on the offending groups: no failing input "
                                       "(get_is_chiral does not read MatID's tables)" % len(cases)}, found_input=False)


def directed_search(ctx, soh, tables, seconds, groups=None):
    """time-boxed search for an input violating the property: small crystals of achiral groups under every
    elementary shear and every supercell of index 2 and 3"""
    if tables is None:
        return None
    t0 = time.time()
    rng = random.Random(ctx.seed + 15)
    gl = list(groups) if groups else [n for n in range(1, 231) if n not in soh]
    rng.shuffle(gl)
    Ts = elementary_shears() + small_supercells()
    for sg in gl:
        if time.time() - t0 > seconds:
            break
        cr, _ = K.generate(sg, rng, tables, max_atoms=32, tries=6)
        if cr is None:
            continue
        cs = []
        for k, T in enumerate(Ts):
            d = {"kind": "directed", "T": T, "rotation": None, "translation": None, "perm_seed": None}
            pc = apply_presentation(cr, d)
            if pc is not None:
                cs.append({"id": k, "sg": sg, "base": strip(cr), "desc": d, "crystal": pc, "tol": TOL})
        res, _ = run_impl(cs)
        for c in cs:
            r = res.get(c["id"])
            if r is not None and "error" not in r:
                why = predicate(r, soh)
                if why:
                    return c, r, why
    return None


def replay(ctx, rep):
    soh = sohncke_from_coq()
    if "presented_crystal" not in rep:
        print("replay: nothing to re-run for kind", rep.get("kind"))
        return
    cs = [{"id": 0, "crystal": rep["presented_crystal"], "tol": rep.get("tol", TOL), "getters": rep.get("getters_called_first")}]
    if rep.get("previous_crystal"):
        cs.insert(0, {"id": 2, "crystal": rep["previous_crystal"], "tol": rep.get("tol", TOL)})
    if rep.get("crystal"):
        cs.append({"id": 1, "crystal": rep["crystal"], "tol": rep.get("tol", TOL)})
    res, _ = run_impl(cs)
    r = res[0]
    why = predicate(r, soh)
    if not why and 1 in res and "error" not in res[1] and "error" not in r:
        if res[1]["number"] == r["number"] and res[1]["flag"] != r["flag"]:
            why = "flag-differs-between-presentations"
    if why:
        print("replay: %s (number=%s flag=%s)" % (why, r.get("number"), r.get("flag")))
        ctx.violation(rep, found_input=True)
    else:
        print("replay: property holds on this input now (number=%s flag=%s)" % (r.get("number"), r.get("flag")))
