"""C04 -- a cluster's prototype cell identifies the material it was cut from.

What this check is (stated plainly, also in the evidence): a kernel-checked CONDITIONAL theorem
(Properties/C04.v: get_cell dispatch, pbc count per finder branch, whole-formula-unit arithmetic, and --
given the oracle contract S1 on spglib's answer for the prototype cell -- equality of space group, Wyckoff
occupation and material-id pre-hash string, obtained from C06_ground_state_invariant plus a sorting lemma)
+ a CONTRACT-CONFORMANCE RUN that evaluates the property's own predicate on the real code for a curated,
deterministic enumeration of the stated family.  It is not a proof of the for-all claim: the periodic
finder's floating-point search and spglib are not modelled.

prove -> correspond (get_cell dispatch and pbc-per-branch model, evaluated inside Coq on what the real
code did) -> conformance: README workflow on every family member, predicate evaluated here.
"""
import functools
import math
import os
import re

import numpy as np

from lib import common as C
from lib import symtables as S
from props import _c0506 as H
from props import crystal_family as F

LEVEL = "other"
STATIC = H.STATIC + ["Symmetry/SortCanon.vo", "Sbc/ProtoCell.vo", "Sbc/PipelineProofs.vo"]

NOISES = (0.0, 0.02)              # "unperturbed or rattled by at most 0.02 A"
TOL = {0.0: 0.1, 0.02: 0.5}       # symmetry tolerance: 0.1 A unperturbed, README tolerance 0.5 A rattled


# ------------------------------------------------------------------------------------------------
# the family
# ------------------------------------------------------------------------------------------------
# monolayers: (prototype, name, builder arguments).  Lattice constants / thicknesses: nominal literature
# values; a member is admitted only if the independent bonding / overlap precondition of crystal_family
# (dimension 2) holds for it.
MONOLAYERS = {
    "graphene": [("C", {"formula": "C2", "a": 2.46, "thickness": 0.0})],
    "hbn": [("BN", {"formula": "BN", "a": 2.50, "thickness": 0.0})],
    "mx2-2H": [("MoS2", {"a": 3.18, "thickness": 3.19}), ("WS2", {"a": 3.18, "thickness": 3.14}),
               ("MoSe2", {"a": 3.32, "thickness": 3.34}), ("WSe2", {"a": 3.32, "thickness": 3.36}),
               ("MoTe2", {"a": 3.55, "thickness": 3.61}), ("NbSe2", {"a": 3.45, "thickness": 3.36}),
               ("NbS2", {"a": 3.33, "thickness": 3.13}), ("TaS2", {"a": 3.31, "thickness": 3.13})],
    "mx2-1T": [("TiS2", {"a": 3.41, "thickness": 2.85}), ("ZrS2", {"a": 3.66, "thickness": 2.90}),
               ("HfS2", {"a": 3.64, "thickness": 2.89}), ("SnS2", {"a": 3.65, "thickness": 2.95}),
               ("PtSe2", {"a": 3.73, "thickness": 2.60}), ("TiSe2", {"a": 3.54, "thickness": 3.04}),
               ("VS2", {"a": 3.22, "thickness": 2.90}), ("HfSe2", {"a": 3.75, "thickness": 3.16})],
}
MONO_SHAPES = ("mono-TTF", "mono-TTT")


def c04_key(proto, name, shape, noise, seed):
    return "c04:%s:%s:%s:%s:%d" % (proto, name, shape, ("%g" % noise), seed)


def split_key(key):
    _, proto, name, shape, noise, seed = key.split(":")
    return proto, name, shape, float(noise), int(seed)


def mono_unit(proto, name):
    """the monolayer's own unit cell (pbc T,T,F; 5 A of vacuum on each side)"""
    from ase.build import graphene as ase_graphene, mx2 as ase_mx2
    args = dict(dict(MONOLAYERS[proto])[name])
    if proto in ("graphene", "hbn"):
        u = ase_graphene(formula=args["formula"], a=args["a"], thickness=args["thickness"], vacuum=5.0)
    else:
        u = ase_mx2(formula=name, kind=proto.split("-")[1], a=args["a"], thickness=args["thickness"], vacuum=5.0)
    u.set_pbc([True, True, False])
    return u


def build_monolayer(proto, name, shape):
    u = mono_unit(proto, name)
    z = u.get_positions()[:, 2]
    thick = float(z.max() - z.min())
    r = F.reps_for(u.get_cell(), which=(0, 1))
    s = u.repeat((r[0], r[1], 1))
    cell = np.array(s.get_cell())
    ttt = shape.endswith("TTT")
    height = max(thick + 10.0, 2 * F.MAX_CELL_SIZE + 0.5) if ttt else thick + 8.0
    cell[2] = [0.0, 0.0, height]
    s.set_cell(cell, scale_atoms=False)
    pos = s.get_positions()
    pos[:, 2] += (height - thick) / 2.0 - pos[:, 2].min()
    s.set_positions(pos)
    s.set_pbc([True, True, ttt])
    return s, u, {"reps": r, "thickness": round(thick, 3)}


def reduced_formula(numbers):
    cnt = {}
    for z in numbers:
        cnt[int(z)] = cnt.get(int(z), 0) + 1
    g = functools.reduce(math.gcd, cnt.values())
    return {z: c // g for z, c in cnt.items()}


@functools.lru_cache(maxsize=None)
def _prim_info(proto, name):
    spec = F.spec_by_name(proto, name)
    conv, prim, system = F.build_cells(spec)
    return F.primitive_info(prim)


def member(key, max_atoms=None):
    """One family member from its key: dict(key, admitted, why, structure, reference, expect_pbc, formula,
    tol, sbc_seed, meta).  A pure function of the key."""
    proto, name, shape, noise, seed = split_key(key)
    out = {"key": key, "tol": TOL[noise] if noise in TOL else (0.1 if noise == 0 else 0.5)}
    if shape.startswith("mono"):
        ideal, unit, meta = build_monolayer(proto, name, shape)
        meta.update({"proto": proto, "name": name, "shape": shape, "noise": noise, "seed": seed, "n": len(ideal)})
        out.update({"meta": meta, "expect_pbc": 2, "dim": 2})
        if max_atoms is not None and len(ideal) > max_atoms:
            out.update({"admitted": False, "skipped": True, "why": {"too_large_for_tier": len(ideal)}})
            return out
        a = float(np.linalg.norm(np.array(unit.get_cell())[0]))
        ok, why = F.precondition(ideal, 2, (len(unit), [a, a]))
        out.update({"admitted": ok, "why": why})
        if not ok:
            return out
        rng = F.key_rng(key)
        at, order = F.present(ideal, rng, noise)
        out["structure"] = F.to_dict(at)
        out["sbc_seed"] = rng.randrange(10 ** 6)
        out["reference"] = F.to_dict(unit)
        out["formula"] = reduced_formula(unit.get_atomic_numbers())
        return out
    if shape == "bulk":
        kind, layers, pbc = "bulk", "-", "TTT"
    else:
        kind, layers, pbc = shape.split("-")
    m = F.c02_member(F.c02_key(proto, name, kind, layers, pbc, noise, seed), max_atoms=max_atoms)
    out.update({"meta": m["meta"], "admitted": m["admitted"], "why": m["why"], "expect_pbc": 3, "dim": m["dim"]})
    if m.get("skipped"):
        out["skipped"] = True
    if not m["admitted"]:
        return out
    conv, prim, system = F.build_cells(F.spec_by_name(proto, name))
    conv = conv.copy()
    conv.set_pbc(True)
    out["structure"] = m["structure"]
    out["sbc_seed"] = m["sbc_seed"]
    out["reference"] = F.to_dict(conv)
    out["formula"] = reduced_formula(conv.get_atomic_numbers())
    return out


# the curated quick enumeration: the single-crystal lines of C02's quick list with the noise mapped into
# C04's range (0.05 -> 0.02), thinned to keep the budget, plus one monolayer line per prototype class
def quick_keys():
    keys = []
    for i, (p, nme, k, l, pbc, noise) in enumerate(F.C02_QUICK):
        if i % 4 == 3:
            continue
        # two of C02's candidate lines fail the independent precondition; take an admitted member of the same class
        if (p, nme) == ("sc", "Po"):
            continue                                   # Po is the only sc element and is outside the family (P3)
        if (p, nme, k) == ("cesiumchloride", "CsCl", "bulk"):
            nme = "NiAl"
        shape = "bulk" if k == "bulk" else "%s-%s-%s" % (k, l, pbc)
        keys.append(c04_key(p, nme, shape, 0.0 if noise == 0 else 0.02, i % 3))
    mono = [("graphene", "C", "mono-TTF", 0.0), ("graphene", "C", "mono-TTT", 0.02), ("hbn", "BN", "mono-TTF", 0.02),
            ("hbn", "BN", "mono-TTT", 0.0), ("mx2-2H", "MoS2", "mono-TTF", 0.0), ("mx2-2H", "WSe2", "mono-TTT", 0.02),
            ("mx2-1T", "TiS2", "mono-TTF", 0.02), ("mx2-1T", "PtSe2", "mono-TTT", 0.0), ("mx2-2H", "MoTe2", "mono-TTF", 0.02),
            ("mx2-1T", "SnS2", "mono-TTF", 0.0)]
    for i, (p, nme, shape, noise) in enumerate(mono):
        keys.append(c04_key(p, nme, shape, noise, i % 3))
    # every MX2 monolayer once more with three further seeds (the seed decides the atom order, hence which species the
    # first region is grown from: metal or chalcogen), alternating shape and noise
    j = 0
    for proto in ("mx2-2H", "mx2-1T"):
        for nme, _ in MONOLAYERS[proto]:
            for sd in (3, 4, 5):
                k = c04_key(proto, nme, MONO_SHAPES[j % 2], NOISES[(j // 2) % 2], sd)
                if k not in keys:
                    keys.append(k)
                j += 1
    return keys


def all_keys(seeds=(0,)):
    keys = []
    for k in F.c02_keys_all(noises=NOISES, seeds=seeds):
        _, proto, name, kind, layers, pbc, noise, seed = k.split(":")
        shape = "bulk" if kind == "bulk" else "%s-%s-%s" % (kind, layers, pbc)
        keys.append(c04_key(proto, name, shape, float(noise), int(seed)))
    for proto, lst in MONOLAYERS.items():
        for name, _ in lst:
            for shape in MONO_SHAPES:
                for noise in NOISES:
                    for seed in seeds:
                        keys.append(c04_key(proto, name, shape, noise, seed))
    return keys


THOROUGH_ENUMERATION_SEED = 4004   # fixed: the thorough family is a deterministic enumeration (see run())


def thorough_keys(rng, n_crystal, n_mono):
    base = all_keys()
    cr = [k for k in base if ":mono-" not in k]
    mo = [k for k in base if ":mono-" in k]
    picks = rng.sample(cr, min(n_crystal, len(cr))) + rng.sample(mo, min(n_mono, len(mo)))
    out = []
    for k in picks:
        parts = k.split(":")
        parts[-1] = str(rng.randrange(10))
        out.append(":".join(parts))
    return out


# ------------------------------------------------------------------------------------------------
# the property's own predicate
# ------------------------------------------------------------------------------------------------
def whole_formula_units(numbers, formula):
    """species counts of `numbers` = k x reduced formula for one integer k >= 1"""
    cnt = {}
    for z in numbers:
        cnt[int(z)] = cnt.get(int(z), 0) + 1
    if set(cnt) != set(int(z) for z in formula):
        return None
    ks = set()
    for z, c in cnt.items():
        f = formula[z] if z in formula else formula[str(z)]
        if c % f:
            return None
        ks.add(c // f)
    return ks.pop() if len(ks) == 1 else None


def classify(m, r):
    """('na', reason) when C04 does not apply (that is C02's business), ('ok', info), or ('fail', clauses)"""
    if r.get("timeout"):
        return "fail", ["workflow exceeded the time limit"]
    if r.get("history_same") is False:
        return "fail", ["the clusters of the workflow depend on what the same SBC object clustered before (a translated, re-ordered copy in the same box): "
                        "reused %s vs fresh %s" % (r.get("history_detail", {}).get("reused"), r.get("history_detail", {}).get("fresh"))]
    if "sbc_error" in r:
        return "na", "get_clusters raised %s (%s)" % (r["sbc_error"]["type"], r["sbc_error"]["where"])
    sizes = r.get("cluster_sizes", [])
    obs = r.get("clusters") or []
    if len(sizes) != 1 or sizes[0] != r["n"]:
        # not exactly one complete cluster (that conclusion is C02's business for bulk and slab members).  The property is
        # about "a cluster's prototype cell": when one returned cluster holds at least half of the atoms, its cell is judged
        big = [o for o in obs if 2 * o["n_indices"] >= r["n"]]
        if not big:
            return "na", "get_clusters returned %d cluster(s) %r for %d atoms" % (len(sizes), sizes[:4], r["n"])
        c = max(big, key=lambda o: o["n_indices"])
        partial = "largest of %d clusters (%d of %d atoms): " % (len(sizes), c["n_indices"], r["n"])
    else:
        c = obs[0]
        partial = ""
    bad = []
    ref = r["reference"]
    if "error" in ref:
        return "fail", ["SymmetryAnalyzer raised on the source crystal's own unit cell: %r" % (ref["error"],)]
    if c["cell"] is None:
        return "fail", [partial + "Cluster.get_cell() returned None for the cluster"]
    if not (c["cell_attr_is_none"] and c["get_cell_is_region_cell"] and c.get("get_cell_stable")):
        bad.append("get_cell() is not the region's prototype cell object")
    npbc = sum(bool(b) for b in c["cell"]["pbc"])
    if npbc != m["expect_pbc"]:
        bad.append("prototype cell periodic in %d directions, expected %d" % (npbc, m["expect_pbc"]))
    k = whole_formula_units(c["cell"]["numbers"], m["formula"])
    if k is None:
        bad.append("prototype cell composition %r is not a whole number of formula units %r" % (sorted(c["cell"]["numbers"]), m["formula"]))
    a = c.get("analysis")
    if a is None or "error" in a:
        bad.append("SymmetryAnalyzer raised on the prototype cell: %r" % (None if a is None else a["error"],))
        return "fail", bad
    if a["number"] != ref["number"]:
        bad.append("space group %d, source crystal %d" % (a["number"], ref["number"]))
    if a["wyckoff"] != ref["wyckoff"]:
        bad.append("Wyckoff occupation %r, source crystal %r" % (a["wyckoff"], ref["wyckoff"]))
    if a["material_id"] != ref["material_id"]:
        bad.append("material id %s, source crystal %s" % (a["material_id"], ref["material_id"]))
    if bad:
        return "fail", [partial + b for b in bad] if partial else bad
    return "ok", {"k": k, "number": a["number"], "n_cell": len(c["cell"]["numbers"]), "builder": (c.get("call") or {}).get("builder")}


def run_members(members, jobs=8, time_limit=240):
    cases = [{"id": i, "key": m["key"], "structure": m["structure"], "reference": m["reference"], "seed": m["sbc_seed"],
              "tol": m["tol"], "time_limit": time_limit} for i, m in enumerate(members)]
    order = sorted(range(len(cases)), key=lambda i: -len(cases[i]["structure"]["numbers"]))
    nch = max(1, min(len(cases), jobs * 3))
    chunks = [[] for _ in range(nch)]
    for rank, i in enumerate(order):
        chunks[rank % nch].append(cases[i])
    outs = C.impl_run_parallel("c04_impl", [{"cases": ch} for ch in chunks if ch], jobs=jobs)
    rows = {}
    shim = None
    for o in outs:
        shim = o.get("shim")
        for r in o["results"]:
            rows[r["id"]] = r
    return rows, shim


# ------------------------------------------------------------------------------------------------
# model correspondence (evaluated inside Coq): get_cell dispatch, pbc per finder branch, ground state on the
# prototype cell's dataset
# ------------------------------------------------------------------------------------------------
PRE = ("From Coq Require Import ZArith List String Bool.\nImport ListNotations.\n"
       "From MV Require Import Sbc.ProtoCell.\nOpen Scope string_scope.\n")


def tri(x):
    return {"none": "PNone", "falsy": "(PSome false)", "truthy": "(PSome true)"}[x]


def dispatch_terms():
    r = C.impl_run("c04_impl", {"dispatch": True})
    rows = r["results"]
    if isinstance(rows, dict):
        return None, rows
    terms = []
    res = {"none": "RNone", "cell": "RCell", "region_cell": "RRegionCell", "other": "ROther"}
    for i, row in enumerate(rows):
        terms.append((i, "result_eqb (get_cell_dispatch %s %s) %s" % (tri(row["cell"]), tri(row["region"]), res[row["result"]])))
    return terms, rows


def branch_terms(rows):
    """every get_region call seen in the conformance run in which a prototype cell was built: the model's
    pbc count for (builder, reduced to 2D?) against the pbc of the cell the finder returned"""
    seen = {}
    for r in rows.values():
        for c in r.get("calls", []):
            if c.get("builder") is None or c.get("final_pbc") is None:
                continue
            reduced = c["builder"] == "3d" and c.get("dim") == 2
            key = (c["builder"], reduced, tuple(c["final_pbc"]), c.get("dim"), tuple(c["built_pbc"] or ()))
            seen[key] = seen.get(key, 0) + 1
    terms = []
    for i, (b, reduced, fin, dim, built) in enumerate(sorted(seen, key=repr)):
        br = "Branch3D" if b == "3d" else "Branch2D"
        terms.append((i, "andb (pbc_eqb (proto_pbc %s %s) %s) (Nat.eqb (n_periodic (proto_pbc %s %s)) %d%%nat)" % (
            br, C.boollit(reduced), C.listlit([C.boollit(x) for x in fin]), br, C.boollit(reduced), 0 if dim is None else dim)))
    return terms, seen


PRE_S1 = ("From Coq Require Import ZArith List String Bool.\nImport ListNotations.\n"
          "From MV Require Import Symmetry.Table Symmetry.GroundState Reflect.GroundChecks Sbc.ProtoCell.\n"
          "From MVD Require Import Generated.SGAll.\nOpen Scope string_scope.\n"
          "Definition tb (sg : Z) : sgtable := nth (Z.to_nat (sg - 1)) tables (mkSG 0 (mkRI \"\" \"\" \"\") [] [] []).\n")


def s1_terms(members, rows):
    """oracle contract S1 of C04_partial evaluated (inside Coq, ProtoCell.s1_holds, proved sound) on the two real
    spglib datasets of every member whose prototype cell was analysed with the source's space-group number"""
    terms = []
    for i, m in enumerate(members):
        r = rows.get(i) or {}
        cl = r.get("clusters") or []
        ref = r.get("reference") or {}
        if len(cl) != 1 or "error" in ref or r.get("cluster_sizes") != [r.get("n")]:
            continue          # C04 applies only when there is one complete cluster
        a = cl[0].get("analysis")
        if not a or "error" in a or a["number"] != ref["number"]:
            continue
        def sl(xs):
            return "[" + ";".join('"%s"' % x for x in xs) + "]"
        def zl(xs):
            return "[" + ";".join("%d%%Z" % x for x in xs) + "]"
        terms.append((i, "s1_holds (table_letters (tb %d%%Z)) (table_perms (tb %d%%Z)) %s %s %s %s" % (
            ref["number"], ref["number"], sl(ref["spglib_letters_conv"]), zl(ref["std_types"]), sl(a["spglib_letters_conv"]), zl(a["std_types"]))))
    return terms


# ------------------------------------------------------------------------------------------------
def load_corpus():
    d = os.path.join(C.VERIF, "corpus", "C04")
    keys = []
    if os.path.isdir(d):
        for fn in sorted(os.listdir(d)):
            if fn.endswith(".keys"):
                with open(os.path.join(d, fn)) as f:
                    keys += [ln.strip() for ln in f if ln.strip() and not ln.startswith("#")]
    return keys


EXPLANATION = ("Conditional theorem (kernel-checked) + conformance run on an enumerated family; NOT a proof of the for-all claim. "
               "Proved in Coq: Cluster.get_cell's dispatch returns the region's prototype cell when no cell was set; the prototype cell has 3 "
               "periodic axes on the finder's 3D branch and exactly 2 on the 2D branch / 3D->2D reduction; species counts that are k times the "
               "primitive cell's are a whole number of formula units; and IF spglib's dataset for the prototype cell has the source crystal's "
               "space group number and its standardized letter/species lists are related to the source's by an element of the group's "
               "letter-permutation group and an atom permutation (oracle contract S1) THEN space group, Wyckoff occupation multiset and the "
               "material-id pre-hash string are equal. Not modelled, hence not proved: that the periodic finder's floating-point search finds the "
               "crystal's cell (F1) and that spglib satisfies S1 on the averaged cell. Those are only validated by running the README workflow "
               "on the enumerated family listed in input_distribution.")


def run(ctx):
    ctx.coverage["explanation"] = EXPLANATION
    ctx.add_trusted("table translation and reflection instances shared with C14 (see evidence/C14.json)",
                    "oracle contracts F1 (periodic finder finds the crystallite's cell) and S1 (spglib on the averaged prototype cell): assumed by "
                    "C04_partial, validated only on the enumerated family of this run",
                    "harness/props/crystal_family.py (family + independent precondition, shared with C02), ASE builders (bulk, surface, graphene, mx2)",
                    "hashlib.sha512/base64 (material id) run, not modelled")
    ctx.assumptions += ["C04 applies to a member only when get_clusters returns exactly one cluster holding every atom; otherwise the member is "
                        "counted as 'not applicable here' (that failure belongs to C02)",
                        "'same Wyckoff occupation' = equal multisets of (letter, element, multiplicity) of get_wyckoff_sets_conventional(): the analyzer "
                        "works on the standardized conventional cell, so the multisets of two cells of one crystal coincide",
                        "'source crystal's own unit cell' = the conventional bulk cell for bulk supercells and slabs, the 2D unit cell (pbc T,T,F) for monolayers"]
    build = S.build()
    from props.c05 import prove
    broken = prove(ctx, "C04", build)

    # ---- model correspondence I: get_cell dispatch (exhaustive, 9 combinations) ----------------------
    terms, drows = dispatch_terms()
    model_bad = []
    if terms is None:
        model_bad.append({"broken": "Cluster.get_cell dispatch could not be observed", "detail": drows})
    else:
        failing, errors = C.coq_case_files("c04dispatch", PRE, terms)
        for e in errors[:1]:
            model_bad.append({"broken": "case file c04dispatch", "detail": e})
        for f in failing[:1]:
            model_bad.append({"broken": "correspondence: ProtoCell.get_cell_dispatch vs Cluster.get_cell", "observed": drows[int(f)]})
        ctx.add_cases(len(terms), len(terms), [drows[4]])

    # ---- the conformance run ------------------------------------------------------------------------
    rng = ctx.rng
    corpus = load_corpus()
    if ctx.tier == "quick":
        keys = corpus + [k for k in quick_keys() if k not in corpus]
        max_atoms = 700
    else:
        # the enumeration is fixed by a constant of this module, NOT by VERIF_SEED: members on which the finder is
        # known to fail are listed one by one (narrow keys) in known_findings.json, which is only possible for a
        # fixed list; every member carries its own seed (SBC seed, rotation, ... from SHA-256 of its key)
        import random as _random
        extra = thorough_keys(_random.Random(THOROUGH_ENUMERATION_SEED), 760, 100)
        keys = corpus + [k for k in quick_keys() if k not in corpus]
        keys += [k for k in extra if k not in keys]
        max_atoms = 1100
    members, outside, skipped = [], [], []
    for k in keys:
        m = member(k, max_atoms=max_atoms)
        if m.get("skipped"):
            skipped.append(k)
        elif not m["admitted"]:
            outside.append({"key": k, "why": {a: b for a, b in m["why"].items() if a.startswith("fail")}})
        else:
            members.append(m)
    rows, shim = run_members(members, jobs=8)
    known = C.load_known("C04")
    stats = {"ok": 0, "na": 0, "fail": 0, "known": 0}
    fails, nas, oks = [], [], []
    for i, m in enumerate(members):
        r = rows.get(i)
        if r is None:
            fails.append((m, {"missing": True}, ["runner returned no row"]))
            continue
        st, info = classify(m, r)
        if st == "ok":
            stats["ok"] += 1
            oks.append((m, r, info))
        elif st == "na":
            stats["na"] += 1
            nas.append({"key": m["key"], "reason": info})
        else:
            e = C.known_match(known, m["key"])
            if e:
                stats["known"] += 1
                ctx.known_finding(e, "%s: %s" % (m["key"], "; ".join(info)[:300]))
            else:
                stats["fail"] += 1
                fails.append((m, r, info))
    distinct = len({(split_key(m["key"])[0], split_key(m["key"])[2].split("-")[0], info["number"], info["k"], info["builder"]) for m, r, info in oks})
    ctx.add_cases(len(members), distinct, [{"key": m["key"], "atoms": m["meta"]["n"], "prototype_cell_atoms": info["n_cell"], "formula_units": info["k"],
                                            "space_group": info["number"], "builder": info["builder"]} for m, r, info in oks[:6]])
    # ---- model correspondence II: pbc per finder branch, on every prototype cell built in this run ----
    bterms, seen = branch_terms(rows)
    if bterms:
        failing, errors = C.coq_case_files("c04branch", PRE, bterms)
        for e in errors[:1]:
            model_bad.append({"broken": "case file c04branch", "detail": e})
        for f in failing[:1]:
            model_bad.append({"broken": "correspondence: ProtoCell.proto_pbc vs PeriodicFinder._find_proto_cell", "observed": repr(sorted(seen, key=repr)[int(f)])})
        ctx.add_cases(sum(seen.values()), len(seen), [])
    # ---- oracle contract S1 of C04_partial, validated on the real datasets (not a proof obligation) ----
    sterms = s1_terms(members, rows)
    s1_fail = []
    if sterms and build["ok"]:
        failing, errors = C.coq_case_files("c04s1", PRE_S1, sterms, per_file=60)
        for e in errors[:1]:
            model_bad.append({"broken": "case file c04s1", "detail": e})
        s1_fail = [members[i]["key"] for i in failing]
        ctx.add_cases(len(sterms), 0, [])
    ctx.coverage["oracle_contract_S1"] = {"evaluated_on": len(sterms), "holds": len(sterms) - len(s1_fail), "anomalies": s1_fail[:20],
                                          "note": "S1 = spglib's (letter, species) multiset of the prototype cell's standardized cell is the source's moved by an "
                                                  "element of the group's letter-permutation group; evaluated by ProtoCell.s1_holds (proved sound) inside Coq; an "
                                                  "anomaly is an oracle anomaly, reported here, not a property violation"}
    by = {}
    for m in members:
        p, n, shape, noise, seed = split_key(m["key"])
        kind = "bulk" if shape == "bulk" else ("monolayer" if shape.startswith("mono") else "slab")
        by[(kind, noise)] = by.get((kind, noise), 0) + 1
    ctx.coverage["input_distribution"] = {
        "members_run": len(members), "by_kind_and_noise": {"%s/%g" % k: v for k, v in sorted(by.items())},
        "prototypes": sorted({split_key(m["key"])[0] for m in members}),
        "outside_family_precondition_fails": len(outside), "skipped_too_large_for_tier": len(skipped),
        "atoms_min_max": [min(m["meta"]["n"] for m in members), max(m["meta"]["n"] for m in members)] if members else None,
        "predicate_holds": stats["ok"], "not_applicable_not_one_cluster": stats["na"], "predicate_fails": stats["fail"],
        "known_findings": stats["known"], "finder_branches_seen": {repr(k): v for k, v in sorted(seen.items(), key=repr)},
        "ext_mode": shim, "symmetry_tolerance": "0.1 A for noise 0, 0.5 A for noise 0.02",
        "presentation": "uniform SO(3) rotation, translation in [-5,5]^3 (unwrapped), random atom order, SBC seed -- all from SHA-256(key)"}
    ctx.coverage["not_applicable"] = nas[:40]
    ctx.coverage["outside_family"] = outside[:40]
    ctx.coverage["rule"] = ("every member is a pure function of its key c04:<prototype>:<element>:<shape>:<noise>:<seed>; quick = curated list (C02's quick "
                            "single-crystal lines with noise mapped into {0, 0.02} + 10 monolayer lines), thorough adds a random sample of the full enumeration; "
                            "distinct non-trivial = distinct (prototype, shape class, space group, formula units in the prototype cell, finder builder) among "
                            "members on which the whole predicate was evaluated and held")
    ctx.coverage["failing_member_keys"] = sorted(m["key"] for m, r, info in fails)
    ctx.coverage["predicate_failures"] = [{"key": m["key"], "clauses": info} for m, r, info in fails[:20]]
    for (m, r, info) in fails[:3]:
        c0 = (r.get("clusters") or [{}])[0]
        ctx.violation({"kind": "property-fails-on-implementation", "key": m["key"], "failed_clauses": info, "structure": m["structure"],
                       "reference": m["reference"], "sbc_seed": m["sbc_seed"], "tol": m["tol"], "expect_pbc": m["expect_pbc"], "formula": m["formula"],
                       "prototype_cell": c0.get("cell"), "analysis": c0.get("analysis"), "reference_analysis": r.get("reference"),
                       "call": "SymmetryAnalyzer(SBC().get_clusters(structure, seed=sbc_seed)[0].get_cell(), symmetry_tol=tol)",
                       "broken_obligation": broken}, found_input=True)
    if not fails:
        for mb in model_bad[:1]:
            mb = dict(mb)
            mb.update({"kind": "model-vs-implementation-disagree", "searched": "%d family members: the property's predicate holds on all applicable ones" % len(members)})
            ctx.violation(mb, found_input=False)
        if broken and not model_bad:
            ctx.violation({"kind": "proof-obligation-broken", "broken": broken,
                           "searched": "%d family members: the property's predicate holds on all applicable ones" % len(members)}, found_input=False)


def replay(ctx, rep):
    if "structure" not in rep:
        print("replay: nothing to re-run")
        return
    m = {"key": rep.get("key", "replay"), "structure": rep["structure"], "reference": rep["reference"], "sbc_seed": rep["sbc_seed"], "tol": rep["tol"],
         "expect_pbc": rep["expect_pbc"], "formula": {int(k): v for k, v in rep["formula"].items()}}
    rows, _ = run_members([m], jobs=1)
    st, info = classify(m, rows[0])
    if st == "fail":
        ctx.violation(rep, found_input=True)
    else:
        print("replay: %s on this input now (%s)" % ("property holds" if st == "ok" else "not applicable", info))
