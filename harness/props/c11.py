"""C11 -- 2D materials get a vacuum-, orientation- and labelling-independent normal form.   (PARTIAL)

prove      Properties/C11.v over Symmetry/Conv2D.v, Conv2DProofs.v (Q model built on the C20 frame model): vacuum rule,
           vacuum independence of the analyzed cell, axis detection, every normal-form clause of the post-processing
           pipeline, the "2D " id prefix.  LEVEL = "proof" refers to THESE theorems.
correspond the executable model is evaluated inside Coq (C.coq_case_files) on the implementation's own intermediate
           data -- input cell/positions -> _analyzed_system (agree_vacuum); spglib's transformation matrix, the ideal
           system returned by _find_wyckoff_ground_state, cell_center - get_center_of_mass -> the conventional system
           (agree_conv) -- on the layer family, on tilted layers (non-periodic vector not perpendicular: outside the
           property, exercises MatIDError / odd transformation matrices) and on inputs with fewer than two periodic
           directions (ValueError).  Nothing in /repo is patched.
conform    contract-conformance family run: the property's own predicate on every family member and on every
           (base, re-presentation) pair.  The INVARIANCE clauses of C11 (id, space group, Wyckoff multiset, in-plane
           lattice parameters independent of vacuum / axis labelling / supercell / rigid motion / translation / atom
           order) are VALIDATED here, NOT proved: they depend on what spglib returns for the padded cell.
"""
import collections
import glob
import hashlib
import json
import math
import os
import sys
import time
from fractions import Fraction as Fr

import numpy as np

from lib import common as C
from props import layer_family as LF

sys.path.insert(0, os.path.join(C.VERIF, "translator"))

LEVEL = "proof"
STATIC = ["Geometry/Frame.vo", "Geometry/FrameProofs.vo", "Symmetry/Conv2D.vo", "Symmetry/Conv2DProofs.vo", "Base/CaseUtil.vo"]
TOL = Fr(1, 10 ** 9)
PREC = Fr(1e-8)          # prec = 1e-8 in get_conventional_system (exact value of the float)
EPS = Fr(1e-7)           # eps of ase.geometry.wrap_positions
SYMTOL = 1e-3            # symmetry_tol handed to the analyzer (inside the stability window 1e-5 .. 1e-3 of the family)
MAX_COQ_ATOMS = 36
PREAMBLE = ("From Coq Require Import ZArith QArith List Bool.\nImport ListNotations.\n"
            "From MV Require Import Geometry.Frame Symmetry.Conv2D.\nOpen Scope Q_scope.\n")
MS_VALUES = [0.5, 1, 3]


# ---------------------------------------------------------------------------------------------
# Coq literals
# ---------------------------------------------------------------------------------------------
def q(x):
    return C.qlit(Fr(x))


def qv(v):
    return "(mkV %s %s %s)" % (q(v[0]), q(v[1]), q(v[2]))


def qm(m):
    return "(mkM %s %s %s)" % (qv(m[0]), qv(m[1]), qv(m[2]))


def ql(vs):
    return C.listlit([qv(v) for v in vs])


def qb3(p):
    return "(mkB %s %s %s)" % tuple(C.boollit(bool(x)) for x in p)


def qzl(zs):
    return C.listlit([C.zlit(z) for z in zs])


def ref_detect(T, i_pbc, prec=1e-8):
    """literal transcription of the detection loop (used only to pick the row whose norm the model needs and for the
    detection-only stream; the model's own answer is what is compared with the analyzer)"""
    for k, axis in enumerate(T):
        if abs(axis[i_pbc]) > prec and abs(axis[(i_pbc + 1) % 3]) < prec and abs(axis[(i_pbc + 2) % 3]) < prec:
            return k
    return None


def vacuum_term(c, r):
    lay = c["layer"]
    if "input_cell" not in r or len(lay["numbers"]) > MAX_COQ_ATOMS:
        return None
    i = r["i_pbc"]
    L = Fr(float(np.linalg.norm(np.array(r["input_cell"][i]))))
    return "agree_vacuum %s %s %s %s %s %s %s" % (C.qlit(TOL), qm(r["input_cell"]), qb3(lay["pbc"]), ql(r["input_positions"]),
                                                 C.qlit(L), q(r["input_thickness"]), qm(r["analyzed_cell"]))


def conv_term(c, r):
    """model of the 2D branch on the implementation's intermediate data vs the public result"""
    lay = c["layer"]
    oc = r.get("outcome")
    if oc == "ValueError":
        z = "(mkM (mkV 1 0 0) (mkV 0 1 0) (mkV 0 0 1))"
        return "agree_conv %s %s %s %s %s %s [] [] (mkV 0 0 0) 1 1 IValueError" % (C.qlit(TOL), C.qlit(PREC), C.qlit(EPS), qb3(lay["pbc"]), z, z)
    if "transformation_matrix" not in r or "ideal_cell" not in r or len(r.get("ideal_numbers", [])) > MAX_COQ_ATOMS:
        return None
    T = r["transformation_matrix"]
    npx = ref_detect(T, r["i_pbc"])
    row = r["ideal_cell"][npx if npx is not None else 2]
    L = Fr(float(np.linalg.norm(np.array(row))))
    head = "agree_conv %s %s %s %s %s %s %s %s %s %s %s" % (
        C.qlit(TOL), C.qlit(PREC), C.qlit(EPS), qb3(lay["pbc"]), qm(T), qm(r["ideal_cell"]), qzl(r["ideal_numbers"]),
        ql(r["ideal_positions"]), qv(r["translation_full"]), q(c["min_2d_thickness"]), C.qlit(L))
    if oc == "MatIDError":
        return head + " IMatIDError"
    if oc == "Conv":
        return head + " (IConv %s %s %s %s)" % (qm(r["conv_cell"]), qb3(r["conv_pbc"]), qzl(r["conv_numbers"]), ql(r["conv_scaled"]))
    return None


# ---------------------------------------------------------------------------------------------
# the property's own predicate
# ---------------------------------------------------------------------------------------------
def npaxis(lay):
    return [i for i in range(3) if not lay["pbc"][i]][0]


def input_extent(lay):
    cell = np.array(lay["cell"], dtype=float)
    P = np.array(lay["scaled_positions"], dtype=float)
    ax = npaxis(lay)
    n = cell[ax] / np.linalg.norm(cell[ax])
    z = (P @ cell) @ n
    return float(z.max() - z.min())


def inplane(r):
    c = np.array(r["conv_cell"])
    a = float(np.linalg.norm(c[0]))
    b = float(np.linalg.norm(c[1]))
    g = float(np.degrees(np.arccos(max(-1.0, min(1.0, np.dot(c[0], c[1]) / a / b)))))
    return a, b, g


def multiset(r):
    return sorted((s["letter"], s["element"], s["multiplicity"]) for s in r["wyckoff_sets"])


def single_predicate(c, r):
    """clauses of C11 that concern one analysis; list of violated clauses"""
    if "error" in r:
        return ["analyzer raised " + r["error"]]
    if r.get("outcome") != "Conv":
        return ["analyzer raised %s: %s" % (r.get("outcome"), r.get("message", ""))]
    bad = []
    ms = c["min_2d_thickness"]
    if r["conv_pbc"] != [True, True, False]:
        bad.append("conventional system not periodic in (a, b) only: pbc = %s" % r["conv_pbc"])
    cc = np.array(r["conv_cell"])
    L = float(np.linalg.norm(cc[2]))
    for i in (0, 1):
        if abs(np.dot(cc[2], cc[i])) > 1e-6 * L * np.linalg.norm(cc[i]):
            bad.append("last cell vector is not perpendicular to the periodic plane (non-periodic vector not last)")
            break
    S = np.array(r["conv_scaled"])
    if S.min() < -1e-6 or S.max() > 1 + 1e-6:
        bad.append("an atom lies outside the conventional cell (scaled coordinate range %.3g .. %.3g)" % (S.min(), S.max()))
    e = input_extent(c["layer"])
    if abs(L - max(e, ms)) > 1e-6:
        bad.append("thickness %.9g is not max(atomic extent %.9g, min_2d_thickness %g)" % (L, e, ms))
    ci = collections.Counter(c["layer"]["numbers"])
    co = collections.Counter(r["conv_numbers"])
    ni, no = len(c["layer"]["numbers"]), len(r["conv_numbers"])
    if any(ci[z] * no != co[z] * ni for z in set(ci) | set(co)):
        bad.append("composition of the conventional system differs from the input")
    if r.get("id_3d") is not None and r["id_3d"] == r["material_id"]:
        bad.append("material id equals the id of the same cell analysed as a 3D crystal")
    if not r.get("input_untouched", True):
        bad.append("input structure was modified")
    if not (r.get("analyzed_positions_same", True) and r.get("analyzed_numbers_same", True)):
        bad.append("the vacuum-padded copy moved or changed atoms")
    return bad


def pair_predicate(b, v):
    """invariance clauses on (base, re-presentation)"""
    bad = []
    if b["material_id"] != v["material_id"]:
        bad.append("material id differs: %s vs %s" % (b["material_id"], v["material_id"]))
    if b["number"] != v["number"]:
        bad.append("space group differs: %s vs %s" % (b["number"], v["number"]))
    if multiset(b) != multiset(v):
        bad.append("(letter, element, multiplicity) multiset differs: %s vs %s" % (multiset(b), multiset(v)))
    pa, pb = inplane(b), inplane(v)
    if abs(pa[0] - pb[0]) > 1e-5 or abs(pa[1] - pb[1]) > 1e-5 or abs(pa[2] - pb[2]) > 1e-4:
        bad.append("in-plane lattice parameters (a, b, gamma) differ: %s vs %s" % (pa, pb))
    return bad


# ---------------------------------------------------------------------------------------------
# family
# ---------------------------------------------------------------------------------------------
def variant_plan(k):
    """features of re-presentation number k (k mod 6 selects the axis permutation)"""
    return {"perm": LF.PERMS[k % 6], "supercell": k % 3 == 1, "rotate": k % 2 == 0, "flip": k % 3 == 2 or k % 12 == 6,
            "wrap_inplane": k % 2 == 0, "ms": MS_VALUES[k % 3] if (k // 6) % 2 == 0 else MS_VALUES[(k + 1) % 3]}


def build_family(rng, tables, per_setting, n_variants, flat_tries=4):
    cases, bases = [], []
    disc = {"generation": 0, "variant_unstable": 0, "variant_not_perpendicular": 0}
    for sg, ax in LF.layer_settings():
        for j in range(per_setting):
            lay, d = LF.generate(sg, ax, rng, tables, flat=False)
            disc["generation"] += d
            if lay is not None:
                bases.append(lay)
        lay, d = LF.generate(sg, ax, rng, tables, flat=True, tries=flat_tries)     # only groups containing the mirror in the layer plane succeed
        if lay is not None:
            bases.append(lay)
    bases += LF.known_monolayers()
    cid = 0
    for lay in bases:
        base = cid
        cases.append({"id": cid, "base": base, "layer": lay, "desc": {"kind": "base"}, "min_2d_thickness": 1, "as3d": True, "stream": "family"})
        cid += 1
        for k in range(n_variants):
            pl = variant_plan(k)
            v, desc = LF.represent(lay, rng, perm=pl["perm"], vacuum=vacuum_factor(lay, rng, k), supercell=pl["supercell"], rotate=pl["rotate"],
                                   flip=pl["flip"], translate=True, permute=True, wrap_inplane=pl["wrap_inplane"])
            if not LF.perpendicular(v, 1e-7):
                disc["variant_not_perpendicular"] += 1
                continue
            if LF.stable_layer_group(v) != lay["sg"]:
                disc["variant_unstable"] += 1
                continue
            cases.append({"id": cid, "base": base, "layer": v, "desc": desc, "min_2d_thickness": pl["ms"], "as3d": k % 6 == 0, "stream": "family"})
            cid += 1
    return cases, bases, disc


def vacuum_factor(lay, rng, k):
    """amount of vacuum of a re-presentation: the stated range 0.6-2.0 of the given length, and -- every other variant -- an
    absolute target on either side of the lengths that matter to the pipeline (the padded length max(5, 3 t) and the in-plane
    lattice vectors), never less than the atomic extent plus 3 A"""
    f = rng.uniform(0.6, 2.0)
    if k % 2 == 0:
        return f
    import numpy as np
    cell = np.array(lay["cell"], dtype=float)
    ax = [i for i in range(3) if not lay["pbc"][i]][0]
    L = float(np.linalg.norm(cell[ax]))
    t = float(lay.get("thickness", 0.0))
    inpl = [float(np.linalg.norm(cell[i])) for i in range(3) if i != ax]
    pad = max(5.0, 3 * t)
    target = rng.choice([0.8 * pad, 1.3 * pad, 0.8 * min(inpl), 0.8 * max(inpl), 1.25 * max(inpl), 2.5 * max(inpl)])
    target = max(target, t + 3.0)
    return target / L


def malformed_stream(rng, bases, n, cid0):
    """outside the property's precondition: tilted non-periodic vector (odd transformation matrices, MatIDError), and
    inputs with fewer than two periodic directions (ValueError).  Used for the model correspondence only."""
    out = []
    cid = cid0
    pool = [b for b in bases if len(b["numbers"]) <= MAX_COQ_ATOMS]
    for k in range(n):
        lay = dict(rng.choice(pool))
        ax = npaxis(lay)
        cell = np.array(lay["cell"], dtype=float)
        P = np.array(lay["scaled_positions"], dtype=float)
        if k % 8 == 7:
            pbc = [[True, False, False], [False, False, False], [False, True, False]][(k // 8) % 3]
            lay.update(pbc=pbc)
            out.append({"id": cid, "layer": lay, "min_2d_thickness": 1, "stream": "not-2d", "desc": {"pbc": pbc}})
        else:
            cart = P @ cell
            oth = [i for i in range(3) if i != ax]
            if k % 8 in (0, 1):      # tilt by a lattice vector: the padded lattice is usually still recognised
                al, be = rng.choice([-1, 1]), rng.choice([-1, 0, 1])
            else:
                al, be = rng.uniform(-0.45, 0.45), rng.uniform(-0.45, 0.45)
            cell = cell.copy()
            cell[ax] = cell[ax] + al * cell[oth[0]] + be * cell[oth[1]]
            lay.update(cell=cell.tolist(), scaled_positions=(cart @ np.linalg.inv(cell)).tolist())
            perm = LF.PERMS[k % 6]
            lay["cell"] = np.array(lay["cell"])[list(perm)].tolist()
            lay["scaled_positions"] = np.array(lay["scaled_positions"])[:, list(perm)].tolist()
            lay["pbc"] = [lay["pbc"][i] for i in perm]
            out.append({"id": cid, "layer": lay, "min_2d_thickness": MS_VALUES[k % 3], "stream": "tilted", "desc": {"tilt": [al, be], "axis_permutation": list(perm)}})
        cid += 1
    return out


def run_impl(cases, jobs=8):
    if not cases:
        return {}, set()
    chunks = [cases[i::jobs * 2] for i in range(jobs * 2)]
    chunks = [ch for ch in chunks if ch]
    payloads = [{"cases": [{"id": c["id"], "layer": {k: c["layer"][k] for k in ("cell", "scaled_positions", "numbers", "pbc")},
                            "min_2d_thickness": c["min_2d_thickness"], "as3d": c.get("as3d", False), "tol": c.get("tol", SYMTOL)} for c in ch]}
                for ch in chunks]
    outs = C.impl_run_parallel("c11_impl", payloads, jobs=jobs)
    rows, modes = {}, set()
    for o in outs:
        modes.add(o["mode"])
        for r in o["rows"]:
            rows[r["id"]] = r
    return rows, modes


def load_corpus():
    out = []
    for p in sorted(glob.glob(os.path.join(C.VERIF, "corpus", "C11", "*.json"))):
        with open(p) as f:
            d = json.load(f)
        d["origin"] = "corpus/" + os.path.basename(p)
        out.append(d)
    return out


def layer_key(lay):
    return hashlib.sha256(json.dumps({k: lay[k] for k in ("cell", "scaled_positions", "numbers", "pbc")}, sort_keys=True).encode()).hexdigest()


def strip_layer(lay):
    return {k: lay[k] for k in ("cell", "scaled_positions", "numbers", "pbc", "sg", "name") if k in lay}


def tables_of_repo():
    import gen_symdata
    _, _, tables = gen_symdata.generate(C.REPO)
    return tables


# ---------------------------------------------------------------------------------------------
def run(ctx):
    ctx.add_trusted(
        "coq/Symmetry/Conv2D.v: hand-written exact-arithmetic (Q) model of the 2D branch (vacuum rule, axis detection, translation mask, "
        "ASE wrap with eps=1e-7, pbc, swap_basis, get_minimized_cell composed from the C20 model Geometry/Frame.v); norms enter as an "
        "argument L with the hypothesis L*L == c.c; agreement relations agree_vacuum / agree_conv (Coq functions, tolerance 1e-9)",
        "spglib (space-group number, standardised cell, transformation matrix, Wyckoff letters) and the periodic centre of mass "
        "(arctan2) are NOT modelled: the model receives their outputs; the invariance clauses of C11 rest on them and are validated "
        "by the conformance run, not proved",
        "harness/props/layer_family.py (family generator: layer-compatible (space group, axis) pairs computed from spglib's Hall database; "
        "layers built with lib/crystals.py), ase.build monolayers",
        "hashlib.sha512/base64 (material id) run, not modelled: the model emits the pre-hash string; distinct strings give distinct ids "
        "only up to hash collisions",
        "ASE Atoms (copy, set_cell, translate, wrap, scaled positions) is part of the observed implementation",
    )
    ctx.assumptions += [
        "property precondition: exactly two periodic directions, the non-periodic cell vector perpendicular to the periodic plane (only such inputs in the family)",
        "family members whose padded cell does not have the same spglib space group at symprec 1e-5 and 1e-3 are discarded and counted (as the C05 family does); "
        "analyses run with symmetry_tol = 1e-3",
        "C11 is claimed PARTIAL: theorems cover the vacuum rule, vacuum independence of the analyzed cell, axis detection, the normal-form clauses for every "
        "ideal system and the id prefix; independence of id / space group / Wyckoff multiset / in-plane lattice parameters from the presentation is a "
        "contract-conformance result of this run (spglib-dependent), with the normalizer-search part proved in C06_ground_state_invariant",
        "float rounding is outside the model: comparisons use 1e-9 (model vs implementation) and 1e-6 / 1e-5 (property predicate)",
    ]
    t_start = time.time()
    broken = None
    pres = C.prove_property("C11", [])
    ctx.record_proof(pres)
    if pres["failed"]:
        broken = {"stage": "prove", "file": pres["failed"]["path"], "error": pres["failed"]["out"][-1500:]}

    try:
        tables = tables_of_repo()
    except Exception as e:  # fail-closed translator
        ctx.violation({"kind": "translation-failed", "broken": "gen_symdata could not read matid/data/symmetry_data.py: %s" % e}, found_input=False)
        return
    settings = LF.layer_settings()
    scale = float(os.environ.get("VERIF_C11_SCALE", "1"))
    per_setting, n_var, n_mal = (2, 6, 48) if ctx.tier == "quick" else (8, 12, 300)
    per_setting = max(1, int(round(per_setting * scale)))

    # ---- corpus first -----------------------------------------------------------------------------------
    corpus = load_corpus()
    corpus_cases = []
    for k, d in enumerate(corpus):
        b = {"id": 10 ** 6 + 2 * k, "base": 10 ** 6 + 2 * k, "layer": d["base"], "desc": {"kind": "base"}, "min_2d_thickness": d.get("min_2d_thickness_base", 1),
             "as3d": True, "stream": "corpus", "origin": d["origin"]}
        corpus_cases.append(b)
        if d.get("variant"):
            corpus_cases.append({"id": 10 ** 6 + 2 * k + 1, "base": b["id"], "layer": d["variant"], "desc": d.get("desc", {}),
                                 "min_2d_thickness": d.get("min_2d_thickness", 1), "as3d": False, "stream": "corpus", "origin": d["origin"]})

    cases, bases, disc = build_family(ctx.rng, tables, per_setting, n_var)
    mal = malformed_stream(ctx.rng, bases, n_mal, len(cases))
    all_cases = corpus_cases + cases + mal
    rows, modes = run_impl(all_cases)
    ctx.coverage["ext_mode"] = sorted(modes)
    by_id = {c["id"]: c for c in all_cases}

    # ---- correspondence inside Coq -------------------------------------------------------------------------
    terms = []
    n_vac = n_conv = 0
    for c in all_cases:
        r = rows.get(c["id"])
        if r is None or "error" in r:
            continue
        try:
            tv = vacuum_term(c, r) if c["stream"] != "not-2d" else None
            tc = conv_term(c, r)
        except (ValueError, OverflowError, TypeError):
            continue
        if tv:
            terms.append((2 * c["id"], tv))
            n_vac += 1
        if tc:
            terms.append((2 * c["id"] + 1, tc))
            n_conv += 1
    failing, errors = C.coq_case_files("C11", PREAMBLE, terms, per_file=24 if ctx.tier == "quick" else 40)
    failing = sorted(set(failing))

    # ---- the property's predicate -----------------------------------------------------------------------------
    groups = collections.OrderedDict()
    for c in corpus_cases + cases:
        groups.setdefault(c["base"], []).append(c)
    single_fail, pair_fail = [], []
    n_pairs = 0
    for base, cs in groups.items():
        for c in cs:
            bad = single_predicate(c, rows[c["id"]])
            if bad:
                single_fail.append((c, bad))
        rb = rows[cs[0]["id"]]
        if "error" in rb or rb.get("outcome") != "Conv":
            continue
        for c in cs[1:]:
            rv = rows[c["id"]]
            if "error" in rv or rv.get("outcome") != "Conv":
                continue
            n_pairs += 1
            bad = pair_predicate(rb, rv)
            if bad:
                pair_fail.append((cs[0], c, bad))

    # ---- coverage ----------------------------------------------------------------------------------------------------
    seen = set()
    nontriv = 0
    for c in all_cases:
        h = layer_key(c["layer"]) + str(c["min_2d_thickness"])
        if h in seen:
            continue
        seen.add(h)
        r = rows.get(c["id"], {})
        if c["stream"] in ("tilted", "not-2d"):
            nontriv += 1 if r.get("outcome") in ("MatIDError", "ValueError", "Conv") else 0
        elif r.get("outcome") == "Conv" and (c["desc"].get("kind") != "base" or npaxis(c["layer"]) != 2 or True):
            nontriv += 1
    oc = collections.Counter((c["stream"], rows.get(c["id"], {}).get("outcome", "error")) for c in all_cases)
    det_axis = collections.Counter()
    padded = 0
    for c in cases:
        r = rows.get(c["id"], {})
        if "transformation_matrix" in r:
            det_axis[str(ref_detect(r["transformation_matrix"], r["i_pbc"]))] += 1
        if r.get("outcome") == "Conv" and input_extent(c["layer"]) < c["min_2d_thickness"]:
            padded += 1
    feats = collections.Counter()
    for c in cases:
        for k in c["desc"]:
            feats[k] += 1
    ctx.add_cases(len(terms) + len(cases) + len(corpus_cases) + n_pairs, nontriv,
                  [{"sg": c["layer"].get("sg"), "axis": c["layer"].get("axis"), "n_atoms": len(c["layer"]["numbers"]),
                    "desc": {k: (v if k in ("axis_permutation", "vacuum_factor", "kind", "flip") else True) for k, v in c["desc"].items()},
                    "min_2d_thickness": c["min_2d_thickness"]} for c in cases[:8]])
    ctx.coverage["rule"] = (
        "evaluations = Coq-evaluated correspondence terms (agree_vacuum + agree_conv) + family analyses judged by the single-analysis predicate + "
        "(base, re-presentation) pairs judged by the invariance predicate. distinct_nontrivial = distinct (layer description, min_2d_thickness) inputs "
        "(sha256 of the JSON) on which the analyzer reached the end of the 2D branch (family) or one of the model's three outcomes (tilted / not-2d streams)")
    ctx.coverage["input_distribution"] = {
        "layer_settings": "%d (space group, normal axis) pairs in %d symmorphic space groups: %s" % (len(settings), len(LF.layer_groups()), LF.layer_groups()),
        "note_on_31": "the property text speaks of 31 groups; the enumeration by the stated criterion (symmorphic, an invariant axis without centring "
                      "component, triclinic..hexagonal) gives 39 space groups = 43 symmorphic layer groups (55 axis settings incl. equivalent ones); all are run",
        "bases": len(bases), "flat_bases": sum(1 for b in bases if b.get("flat")), "monolayers": [b["name"] for b in bases if b.get("name")],
        "family_cases": len(cases), "pairs": n_pairs, "corpus_cases": len(corpus_cases), "discarded": disc,
        "atoms_min_max": [min(len(b["numbers"]) for b in bases), max(len(b["numbers"]) for b in bases)],
        "orbits_per_base": dict(collections.Counter(len(b.get("orbits", [])) for b in bases)),
        "variant_features": dict(feats), "min_2d_thickness": dict(collections.Counter(c["min_2d_thickness"] for c in cases)),
        "padded_cells": padded, "detected_nonperiodic_axis_of_standardised_cell": dict(det_axis),
        "outcomes_by_stream": {"%s/%s" % k: v for k, v in sorted(oc.items())},
        "coq_terms": {"agree_vacuum": n_vac, "agree_conv": n_conv, "max_atoms_in_coq": MAX_COQ_ATOMS},
        "symmetry_tol": SYMTOL,
    }
    ctx.coverage["exhaustive"] = False
    ctx.coverage["coq_disagreements"] = len(failing)
    ctx.coverage["predicate_failures"] = ([{"sg": c["layer"].get("sg"), "desc": str(c["desc"])[:200], "clauses": bad} for c, bad in single_fail[:10]] +
                                          [{"sg": b["layer"].get("sg"), "desc": str(v["desc"])[:200], "clauses": bad} for b, v, bad in pair_fail[:10]])
    ctx.notes.append("C11 is PARTIAL: the invariance clauses (id / space group / Wyckoff multiset / in-plane lattice parameters independent of vacuum, axis "
                     "labelling, in-plane supercells, rigid motions incl. flips, translations, atom order) are validated by the contract-conformance family run "
                     "(%d pairs in this run), not proved; the theorems of Properties/C11.v cover the vacuum rule, the analyzed cell's independence of the vacuum, "
                     "axis detection, the normal-form clauses and the id prefix" % n_pairs)
    ctx.coverage["wall_split_s"] = {"total_until_report": round(time.time() - t_start, 1)}

    # ---- reporting -----------------------------------------------------------------------------------------------------
    known = C.load_known("C11")
    reported = False
    for c, bad in single_fail:
        key = "single:%s" % bad[0].split(":")[0][:60]
        k = C.known_match(known, key)
        if k:
            ctx.known_finding(k)
            continue
        ctx.violation({"kind": "property-fails-on-implementation", "clause_kind": "normal-form", "base": strip_layer(c["layer"]), "variant": None,
                       "min_2d_thickness_base": c["min_2d_thickness"], "desc": c["desc"], "failed_clauses": bad, "key": key, "tol": SYMTOL,
                       "implementation_output": {k2: rows[c["id"]].get(k2) for k2 in ("outcome", "message", "error", "conv_cell", "conv_pbc", "number", "material_id", "id_3d")},
                       "broken_obligation": broken, "origin": c.get("origin", "generated")}, found_input=True)
        reported = True
        break
    if not reported:
        for b, v, bad in pair_fail:
            key = "pair:%s" % bad[0].split(":")[0][:60]
            k = C.known_match(known, key)
            if k:
                ctx.known_finding(k)
                continue
            ctx.violation({"kind": "property-fails-on-implementation", "clause_kind": "invariance", "base": strip_layer(b["layer"]), "variant": strip_layer(v["layer"]),
                           "min_2d_thickness_base": b["min_2d_thickness"], "min_2d_thickness": v["min_2d_thickness"], "desc": v["desc"],
                           "failed_clauses": bad, "key": key, "tol": SYMTOL, "broken_obligation": broken, "origin": v.get("origin", "generated")}, found_input=True)
            reported = True
            break
    if failing and not reported:
        tid = failing[0]
        c = by_id[tid // 2]
        r = rows[c["id"]]
        which = "agree_conv" if tid % 2 else "agree_vacuum"
        bad = single_predicate(c, r) if c["stream"] in ("family", "corpus") else []
        ctx.violation({"kind": "model-implementation-disagreement", "broken": "agreement relation %s of Symmetry/Conv2D.v" % which,
                       "base": strip_layer(c["layer"]), "variant": None, "min_2d_thickness_base": c["min_2d_thickness"], "stream": c["stream"], "desc": c["desc"],
                       "tol": SYMTOL, "failed_clauses": bad, "n_disagreements": len(failing),
                       "implementation_output": {k2: r.get(k2) for k2 in ("outcome", "message", "i_pbc", "transformation_matrix", "input_thickness", "analyzed_cell", "conv_cell", "conv_pbc")},
                       "note": "the Coq model and the implementation differ on this input" + ("" if bad else "; the property's predicate itself holds on it"),
                       "broken_obligation": broken}, found_input=bool(bad))
        reported = True
    if errors:
        ctx.violation({"kind": "correspondence-not-evaluable", "broken": "case files did not compile", "errors": errors[:2]}, found_input=False)
        reported = True
    if broken and not reported:
        ctx.violation({"kind": "proof-obligation-broken", "broken": broken,
                       "searched": "%d analyses and %d pairs judged by the property's predicate: no failing input" % (len(cases), n_pairs)}, found_input=False)


def replay(ctx, rep):
    if not rep.get("base"):
        print("replay: no input recorded (%s)" % rep.get("broken"))
        pres = C.prove_property("C11", [])
        if pres["failed"]:
            ctx.violation(rep, found_input=False)
        return
    tol = rep.get("tol", SYMTOL)
    cs = [{"id": 0, "base": 0, "layer": rep["base"], "min_2d_thickness": rep.get("min_2d_thickness_base", 1), "as3d": True, "tol": tol,
           "stream": rep.get("stream", "family"), "desc": {"kind": "base"}}]
    if rep.get("variant"):
        cs.append({"id": 1, "base": 0, "layer": rep["variant"], "min_2d_thickness": rep.get("min_2d_thickness", 1), "as3d": False, "tol": tol,
                   "stream": "family", "desc": rep.get("desc", {})})
    rows, _ = run_impl(cs, jobs=1)
    bad = []
    if cs[0]["stream"] in ("family", "corpus"):
        for c in cs:
            bad += single_predicate(c, rows[c["id"]])
        if len(cs) == 2 and not bad:
            bad += pair_predicate(rows[0], rows[1])
    cf = None
    if rep.get("kind") == "model-implementation-disagreement" or not bad:
        terms = []
        for c in cs:
            r = rows[c["id"]]
            if "error" in r:
                continue
            tv = vacuum_term(c, r) if c["stream"] != "not-2d" else None
            tc = conv_term(c, r)
            if tv:
                terms.append((2 * c["id"], tv))
            if tc:
                terms.append((2 * c["id"] + 1, tc))
        failing, errors = C.coq_case_files("C11_replay", PREAMBLE, terms)
        cf = bool(failing) or bool(errors)
    if bad or cf:
        ctx.violation(dict(rep, failed_clauses=bad, coq_disagrees=cf), found_input=bool(bad) or rep.get("found_failing_input", False))
    else:
        print("replay: property holds on this input now")
