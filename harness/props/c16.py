"""C16 -- periodic neighbour search and position matching are complete and exact.

prove (Properties/C16.v) -> correspond (get_extended_system, get_cell_list(...).get_neighbours_for_position
+ bin geometry through the shim build, get_matches, get_matches_simple on grid inputs; agreement
relations GeoAgree.{ext_agree,query_agree,matches_agree,simple_agree_all} evaluated inside Coq)
-> on any break: the property's own predicate with brute-force image enumeration on the implementation.
"""
import json
import os
import time
from fractions import Fraction

from lib import common as C
from lib import geo_exact as X
from lib import geo_gen as GEN

LEVEL = "proof"
STATIC = ["Base/ZV3.vo", "Base/CaseUtil.vo", "Geometry/Extend.vo", "Geometry/ExtendProofs.vo", "Geometry/CellList.vo",
          "Geometry/CellListProofs.vo", "Geometry/Matches.vo", "Geometry/MatchesProofs.vo", "Geometry/DispTensor.vo",
          "Geometry/GeoAgree.vo"]
CORPUS = os.path.join(C.VERIF, "corpus", "C16")
KEYS = ("kind", "cell", "pbc", "pos", "nums", "ext", "cutoff", "probes", "tol", "probe_nums", "history", "twin")


def norm_case(c):
    c = dict(c)
    c["cell"] = tuple(tuple(v) for v in c["cell"])
    c["pos"] = [tuple(p) for p in c["pos"]]
    c["pbc"] = tuple(bool(x) for x in c["pbc"])
    if "probes" in c:
        c["probes"] = [tuple(p) for p in c["probes"]]
    c.setdefault("cell_kind", "corpus")
    c.setdefault("ext_kind", "corpus")
    return c


def load_corpus():
    out = []
    if os.path.isdir(CORPUS):
        for fn in sorted(os.listdir(CORPUS)):
            if fn.endswith(".json"):
                with open(os.path.join(CORPUS, fn)) as f:
                    d = json.load(f)
                for c in (d if isinstance(d, list) else [d]):
                    c = norm_case(c)
                    c["corpus"] = fn
                    out.append(c)
    return out


def case_key(c):
    return C.sha(json.dumps([c.get(k) for k in KEYS], sort_keys=True, default=list))[:16]


def run_impl(cases, jobs=None):
    jobs = jobs or C.NCPU
    chunks = [cases[i::jobs] for i in range(jobs)]
    chunks = [ch for ch in chunks if ch]
    outs = C.impl_run_parallel("c16_impl", [{"cases": [{k: c[k] for k in c if k in KEYS or k == "id"} for c in ch]} for ch in chunks])
    res, modes = {}, set()
    for o in outs:
        modes.add(o["mode"])
        for r in o["results"]:
            res[r["id"]] = r
    return res, modes


# ------------------------------------------------------------------------------------------
def finite3(hs, scale=True):
    v = [(X.fx(h) if scale else X.fx_raw(h)) for h in hs]
    return None if any(isinstance(x, str) for x in v) else tuple(v)


def wrap_vector(c, q, Whex):
    """integer lattice vector nw with W ~ q - nw.cell (nearest integers of the exact fractional
    coordinates of q - W), and W in grid units"""
    W = finite3(Whex)
    if W is None:
        return None, None
    cell = c["cell"]
    a, b, cc = cell
    V = X.vol(cell)
    d = tuple(Fraction(q[k]) - W[k] for k in range(3))
    ws = (X.cross(b, cc), X.cross(cc, a), X.cross(a, b))
    nw = tuple(int(round(sum(d[m] * w[m] for m in range(3)) / V)) for w in ws)
    return nw, W


def side_conditions(out):
    bad = []
    if out.get("input_unchanged") is False:
        bad.append("get_extended_system modified the positions of its input")
    if out.get("vacancy_ok") is False:
        bad.append("get_matches: the vacancy atoms do not carry the queried atomic numbers")
    if out.get("consistent") is False:
        bad.append("get_matches_simple: matches and displacements are not None together")
    return bad


def coq_term(c, out):
    if "error" in out or side_conditions(out):
        return "false"
    a, b, cc = c["cell"]
    head = "%s %s %s %s" % (X.v3l(a), X.v3l(b), X.v3l(cc), X.pbcl(c["pbc"]))
    ext2 = c["ext"] * c["ext"]
    kind = c["kind"]
    if kind in ("extend", "extend_deg"):
        atoms = X.listl(["(mkA %s %s)" % (X.v3l(p), X.zl(z)) for p, z in zip(c["pos"], c["nums"])])
        rows = []
        for p, z, i, f in out["rows"]:
            pv, fv = finite3(p), finite3(f, scale=False)
            if pv is None or fv is None:
                return "false"
            rows.append("(%s, %s, %s, %s)" % (X.q3l(pv), X.zl(z), X.zl(i), X.q3l(fv)))
        return "(ext_agree %s %s %s %s %s)" % (head, X.zl(ext2), atoms, X.v3l(out["N"]), X.listl(rows))
    pos = X.listl([X.v3l(p) for p in c["pos"]])
    cu = X.cutl(c["cutoff"])
    common = "%s %s %s %s %s" % (X.ql(X.PAD), head, X.zl(ext2), cu, pos)
    if kind == "query":
        g = [X.fx(h) for h in out["geom"]["g"]]
        n = out["geom"]["n"]
        axes = []
        for k in range(3):
            lo, hi, d = g[2 * k], g[2 * k + 1], g[6 + k]
            if isinstance(lo, str) or isinstance(hi, str) or d in ("-inf", "nan"):
                return "false"
            axes.append("(%s, %s, %s, %s)" % (X.ql(lo), X.ql(hi), X.zl(n[k]), "None" if d == "inf" else "(Some %s)" % X.ql(d)))
        probes = []
        for q, rows in zip(c["probes"], out["results"]):
            rs = []
            for i, o, d, d2, disp, fac in rows:
                dv, fv = finite3(disp), finite3(fac, scale=False)
                dd, dd2 = X.fx(d), X.fx_raw(d2)
                if dv is None or fv is None or isinstance(dd, str) or isinstance(dd2, str):
                    return "false"
                rs.append("(%s, %s, %s, %s, %s, %s)" % (X.zl(i), X.zl(o), X.ql(dd), X.ql(dd2 * X.G * X.G), X.q3l(dv), X.q3l(fv)))
            probes.append("(%s, %s)" % (X.v3l(q), X.listl(rs)))
        return "(query_agree %s %s (%s, %s, %s) %s)" % (common, X.v3l(out["N"]), axes[0], axes[1], axes[2], X.listl(probes))
    nums = X.listl([X.zl(z) for z in c["nums"]])
    if kind == "match":
        probes = []
        for q, z, r in zip(c["probes"], c["probe_nums"], out["results"]):
            f = finite3(r[2] if r[0] != "V" else r[1], scale=False)
            if f is None:
                ir = "IMBad"
            elif r[0] == "M":
                ir = "(IMatch %s %s)" % (X.zl(r[1]), X.q3l(f))
            elif r[0] == "S":
                ir = "(ISubst %s %s %s %s)" % (X.zl(r[1]), X.q3l(f), X.zl(r[3]), X.zl(r[4]))
            else:
                ir = "(IVac %s)" % X.q3l(f)
            probes.append("(%s, %s, %s)" % (X.v3l(q), X.zl(z), ir))
        return "(matches_agree %s %s %s %s %s)" % (common, nums, X.zl(c["tol"]), X.v3l(out["N"]), X.listl(probes))
    if kind == "simple":
        if len(out["queried"]) != len(c["probes"]) or not out.get("consistent", False):
            return "false"
        probes = []
        for q, z, r, Wh in zip(c["probes"], c["probe_nums"], out["results"], out["queried"]):
            nw, W = wrap_vector(c, q, Wh)
            if nw is None:
                return "false"
            if r is None:
                rr = "None"
            else:
                dv = finite3(r[1])
                if dv is None:
                    return "false"
                rr = "(Some (%s, %s))" % (X.zl(r[0]), X.q3l(dv))
            probes.append("(%s, %s, %s, %s, %s)" % (X.v3l(q), X.zl(z), X.v3l(nw), X.q3l(W), rr))
        return "(simple_agree_all %s %s %s %s %s)" % (common, nums, X.zl(c["tol"]), X.v3l(out["N"]), X.listl(probes))
    return "false"


# ------------------------------------------------------------------------------------------
# the property's own predicate on the implementation (brute-force image enumeration)
def eff_pbc(c):
    return tuple(bool(c["pbc"][k]) and not X.isz(c["cell"][k]) for k in range(3))


def pred_extend(c, out):
    cell, pbc, pos, nums, ext = c["cell"], eff_pbc(c), c["pos"], c["nums"], c["ext"]
    n = len(pos)
    rows = out["rows"]
    fails = []
    seen = set()
    if len(rows) < n:
        return ["fewer rows than atoms"]
    for k, (p, z, i, f) in enumerate(rows):
        pv, fv = finite3(p), finite3(f, scale=False)
        if pv is None or fv is None or any(x.denominator != 1 for x in fv) or not (0 <= i < n):
            fails.append("row %d: not a finite image row" % k)
            continue
        nv = tuple(int(x) for x in fv)
        if any(nv[m] != 0 and not pbc[m] for m in range(3)):
            fails.append("row %d: offset %s along a non-periodic axis" % (k, nv))
        if tuple(pv) != tuple(Fraction(x) for x in X.add(pos[i], X.lat(cell, nv))) or z != nums[i]:
            fails.append("row %d: position/number is not original %d + offset.cell" % (k, i))
        if (i, nv) in seen:
            fails.append("row %d: image (%d,%s) occurs twice" % (k, i, nv))
        seen.add((i, nv))
        if k < n and (i != k or nv != (0, 0, 0)):
            fails.append("row %d: the original atoms do not come first" % k)
    # covering, single-axis images: image (j, m e_k) lies within ext of the half-open cell iff
    #   m > 0: (s_jk + m - 1) h_k <  ext      m < 0: (|m| - s_jk) h_k <= ext     (atoms inside the cell)
    cc = X.complete_cell(cell)
    ne = sum(1 for v in cell if X.isz(v))
    if ne <= 1 and X.vol(cc) != 0 and all(X.in_cell(cc, pbc, p) for p in pos):
        V = X.vol(cc)
        ws = (X.cross(cc[1], cc[2]), X.cross(cc[2], cc[0]), X.cross(cc[0], cc[1]))
        for j, p in enumerate(pos):
            for k in range(3):
                if not pbc[k]:
                    continue
                D = X.dot(p, ws[k]) * (1 if V > 0 else -1)
                w2 = X.dot(ws[k], ws[k])
                m = 1
                while True:
                    t = D + (m - 1) * abs(V)  # >= 0
                    if not (t * t < ext * ext * w2):
                        break
                    nv = tuple(m if x == k else 0 for x in range(3))
                    if (j, nv) not in seen:
                        fails.append("image (%d,%s) lies within the extension of the cell but is missing" % (j, nv))
                        break
                    m += 1
                    if m > 500:
                        break
                m = 1
                while True:
                    t = m * abs(V) - D  # > 0
                    if not (t * t <= ext * ext * w2):
                        break
                    nv = tuple(-m if x == k else 0 for x in range(3))
                    if (j, nv) not in seen:
                        fails.append("image (%d,%s) lies within the extension of the cell but is missing" % (j, nv))
                        break
                    m += 1
                    if m > 500:
                        break
    return fails


def applicable(c, q=None):
    cell, pbc = c["cell"], c["pbc"]
    if X.vol(cell) == 0 or not all(X.in_cell(cell, pbc, p) for p in c["pos"]):
        return False
    return q is None or X.in_cell(cell, pbc, q)


def pred_query(c, out):
    cell, pbc, pos = c["cell"], c["pbc"], c["pos"]
    c2, e2 = c["cutoff"] ** 2, c["ext"] ** 2
    fails = []
    for q, rows in zip(c["probes"], out["results"]):
        if not applicable(c, q):
            continue
        seen = set()
        for i, o, d, d2, disp, fac in rows:
            dv, fv = finite3(disp), finite3(fac, scale=False)
            dd = X.fx(d)
            if dv is None or fv is None or isinstance(dd, str) or any(x.denominator != 1 for x in fv) or not (0 <= o < len(pos)):
                fails.append("probe %s: malformed row" % (q,))
                continue
            nv = tuple(int(x) for x in fv)
            v = X.sub(q, X.add(pos[o], X.lat(cell, nv)))
            if tuple(dv) != tuple(Fraction(x) for x in v):
                fails.append("probe %s: displacement of (%d,%s) is not q - image" % (q, o, nv))
            elif not X.d_close(dd, X.dot(v, v)):
                fails.append("probe %s: distance of (%d,%s) is not the norm of the displacement" % (q, o, nv))
            if X.dot(v, v) > c2:
                fails.append("probe %s: image (%d,%s) beyond the cutoff reported" % (q, o, nv))
            if any(nv[m] != 0 and not pbc[m] for m in range(3)):
                fails.append("probe %s: offset along a non-periodic axis" % (q,))
            if (o, nv) in seen:
                fails.append("probe %s: image (%d,%s) reported twice" % (q, o, nv))
            seen.add((o, nv))
        for j, p in enumerate(pos):
            for nv, m in X.images_within(cell, pbc, q, p, min(c2, e2)):
                if (j, nv) not in seen:
                    fails.append("probe %s: image (%d,%s) at squared distance %d <= cutoff^2 (and within the extension) not reported" % (q, j, nv, m))
        # exact completeness: every image the extended system holds (offsets inside the box of copies the implementation made
        # for this extension; those counts are checked against the model's n_copies separately) that lies within the cutoff
        N = out.get("N")
        if N is not None:
            for j, p in enumerate(pos):
                for nv, m in X.images_within(cell, pbc, q, p, c2):
                    if all(abs(nv[k]) <= N[k] for k in range(3)) and (j, nv) not in seen:
                        fails.append("probe %s: image (%d,%s) of the extended system at squared distance %d <= cutoff^2 not reported" % (q, j, nv, m))
    return fails


def nearest(c, q, r2):
    """(min d2, set of (j, n)) over images within r2 of q"""
    best, arg = None, set()
    for j, p in enumerate(c["pos"]):
        for nv, m in X.images_within(c["cell"], c["pbc"], q, p, r2):
            if best is None or m < best:
                best, arg = m, {(j, nv)}
            elif m == best:
                arg.add((j, nv))
    return best, arg


def pred_match(c, out):
    cell, nums, tol = c["cell"], c["nums"], c["tol"]
    if tol > min(c["cutoff"], c["ext"]):
        return []
    fails = []
    V = X.vol(cell)
    for q, z, r in zip(c["probes"], c["probe_nums"], out["results"]):
        if not applicable(c, q):
            continue
        best, arg = nearest(c, q, tol * tol)
        f = finite3(r[2] if r[0] != "V" else r[1], scale=False)
        if f is None or any(x.denominator != 1 for x in f):
            fails.append("probe %s: copy index not a finite integer vector" % (q,))
            continue
        nv = tuple(int(x) for x in f)
        if best is None:
            if r[0] != "V":
                fails.append("probe %s: nothing within the tolerance but %s reported" % (q, r[0]))
            else:
                d = X.frac_num(cell, q)
                for k in range(3):
                    s = Fraction(d[k], V)
                    if not (s - Fraction(1, 2 ** 24) <= nv[k] + 1 and nv[k] <= s + Fraction(1, 2 ** 24) and abs(nv[k] - s) <= 1 + Fraction(1, 2 ** 24)):
                        fails.append("probe %s: vacancy copy index %s is not floor(scaled position)" % (q, nv))
                        break
                    import math
                    if nv[k] not in (math.floor(s - Fraction(1, 2 ** 24)), math.floor(s), math.floor(s + Fraction(1, 2 ** 24))):
                        fails.append("probe %s: vacancy copy index %s is not floor(scaled position)" % (q, nv))
                        break
        else:
            if r[0] == "V":
                fails.append("probe %s: an image lies within the tolerance (d2=%d) but a vacancy is reported" % (q, best))
                continue
            if (r[1], nv) not in arg:
                fails.append("probe %s: reported (%d,%s) is not a nearest image within the tolerance" % (q, r[1], nv))
                continue
            same = nums[r[1]] == z
            if (r[0] == "M") != same:
                fails.append("probe %s: species %s vs %d but reported as %s" % (q, nums[r[1]], z, r[0]))
            if r[0] == "S" and (r[3] != z or r[4] != nums[r[1]]):
                fails.append("probe %s: substitution records the wrong species" % (q,))
    return fails


def pred_simple(c, out):
    cell, pbc, nums, tol = c["cell"], c["pbc"], c["nums"], c["tol"]
    if tol > min(c["cutoff"], c["ext"]) or not applicable(c):
        return []
    fails = []
    for q, z, r, Wh in zip(c["probes"], c["probe_nums"], out["results"], out.get("queried", [])):
        nw, W = wrap_vector(c, q, Wh)
        if nw is None:
            continue
        w0 = X.sub(q, X.lat(cell, nw))
        if any(nw[k] and not pbc[k] for k in range(3)):
            # the searched position was moved by a lattice vector along a NON-periodic axis before the search
            fails.append("probe %s: the position was wrapped along a non-periodic axis (offset %s) before matching" % (q, nw))
            continue
        if not X.in_cell(cell, pbc, w0):
            continue
        best, arg = nearest(c, w0, tol * tol)
        edge = any(m == c["cutoff"] ** 2 for p in c["pos"] for _, m in X.images_within(cell, pbc, w0, p, c["cutoff"] ** 2))
        if edge or best == tol * tol:
            continue
        if r is None:
            if best is not None and all(nums[j] == z for j, _ in arg):
                fails.append("probe %s: nearest image within the tolerance has the queried species but no match is reported" % (q,))
        else:
            if best is None or not any(j == r[0] for j, _ in arg) or nums[r[0]] != z:
                fails.append("probe %s: reported match %d is not a nearest image of the queried species within the tolerance" % (q, r[0]))
    return fails


def predicate_failures(c, out):
    if "error" in out:
        return ["implementation raised " + out["error"]]
    if side_conditions(out):
        return side_conditions(out)
    k = c["kind"]
    if k in ("extend", "extend_deg"):
        return pred_extend(c, out)
    if k == "query":
        return pred_query(c, out)
    if k == "match":
        return pred_match(c, out)
    return pred_simple(c, out)


def impl_predicate(c):
    r, _ = run_impl([dict(c, id=0)], jobs=1)
    return predicate_failures(c, r[0]), r[0]


def shrink(c):
    cur = dict(c)
    budget = 40
    # fewer probes first, then fewer atoms
    if "probes" in cur and len(cur["probes"]) > 1:
        for k in range(len(cur["probes"])):
            cand = dict(cur, probes=[cur["probes"][k]])
            if "probe_nums" in cur:
                cand["probe_nums"] = [cur["probe_nums"][k]]
            budget -= 1
            if impl_predicate(cand)[0]:
                cur = cand
                break
    changed = True
    while changed and budget > 0 and len(cur["pos"]) > 1:
        changed = False
        for k in range(len(cur["pos"])):
            budget -= 1
            if budget <= 0:
                break
            cand = dict(cur, pos=cur["pos"][:k] + cur["pos"][k + 1:], nums=cur["nums"][:k] + cur["nums"][k + 1:])
            if impl_predicate(cand)[0]:
                cur, changed = cand, True
                break
    return cur


def replay_dict(c, fails, out, extra=None):
    call = {"extend": "matid.geometry.get_extended_system", "extend_deg": "matid.geometry.get_extended_system",
            "query": "matid.geometry.get_cell_list(...).get_neighbours_for_position", "match": "matid.geometry.get_matches",
            "simple": "matid.geometry.get_matches_simple"}[c["kind"]]
    d = {"kind": "property-fails-on-implementation", "case": {k: c[k] for k in KEYS if k in c},
         "units": "grid units of 2**-12 Angstrom", "call": call, "failures": fails[:6], "copies_used": out.get("N")}
    if extra:
        d.update(extra)
    return d


def search_stream(cases, impl, seconds):
    t0 = time.time()
    for c in cases:
        if time.time() - t0 > seconds:
            break
        fails = predicate_failures(c, impl[c["id"]])
        if fails:
            small = shrink(c)
            sf, so = impl_predicate(small)
            return (small, sf, so) if sf else (c, fails, impl[c["id"]])
    return None


# ------------------------------------------------------------------------------------------
def run(ctx):
    t0 = time.time()
    ctx.add_trusted(
        "hand-written Gallina model of matid/ext/{geometry,celllist}.cpp and of get_matches/get_matches_simple "
        "(coq/Geometry/Extend.v, CellList.v, Matches.v): exact-arithmetic semantics; float rounding outside the dyadic grid, "
        "int overflow, memory exhaustion are outside the model",
        "agreement relations coq/Geometry/GeoAgree.v (ext_agree, query_agree, matches_agree, simple_agree_all), evaluated by vm_compute",
        "harness/lib/extshim.py + cxx/ (pybind11 stand-in; bin geometry is read through it)",
        "ase.geometry.wrap_positions (used by get_matches_simple) is an oracle: its output is recorded per call and checked to be the input minus an "
        "integer lattice vector, inside the cell up to ASE's eps",
        "harness/lib/geo_gen.py, geo_exact.py, harness/impl/c16_impl.py")
    ctx.assumptions += [
        "atoms and query points inside the half-open cell [0,1) along periodic axes; non-singular cell (extended_exactly_once: every cell, "
        "including 1-3 zero vectors); cutoff > 0; for matching tol <= cutoff and tol <= extension",
        "'within the extension distance of the cell' is read for the half-open cell (DESIGN 5/C16)",
        "model arithmetic exact (Z/Q); implementation binary64, tied on dyadic-grid inputs",
    ]
    pres = C.prove_property("C16", [])
    ctx.record_proof(pres)
    broken = None
    if pres["failed"]:
        broken = {"stage": "prove", "file": pres["failed"]["path"], "error": pres["failed"]["out"][-1500:]}

    ncases = int(os.environ.get("VERIF_C16_CASES", "0")) or (1600 if ctx.tier == "quick" else 24000)
    batch_size = int(os.environ.get("VERIF_C16_BATCH", "6000"))
    dist = {"kind": {}, "n_atoms": {}, "pbc": {}, "cell_kind": {}, "ext_kind": {}, "copies_tie": 0, "copies_boundary_taken": 0,
            "cutoff_gt_extension": 0, "atoms_outside_cell": 0, "probes": 0, "probes_outside_cell": 0, "neighbour_rows": 0,
            "nx_boundary_taken": 0, "match": 0, "substitution": 0, "vacancy": 0, "vacancy_on_cell_face": 0,
            "simple_match": 0, "simple_none": 0, "tol_gt_cutoff_or_ext": 0,
            "shim_fidelity_checked": 0, "shim_fidelity_differs": 0, "impl_errors": 0, "ext_mode": [], "max_extended_atoms": 0}
    seen = set()
    state = {"nontriv": 0, "total": 0, "t_impl": 0.0}

    def account(c, out):
        if "error" in out:
            dist["impl_errors"] += 1
            return
        for key, val in (("kind", c["kind"]), ("n_atoms", len(c["pos"])), ("pbc", "".join("T" if x else "F" for x in c["pbc"])),
                         ("cell_kind", c["cell_kind"]), ("ext_kind", c["ext_kind"])):
            dist[key][str(val)] = dist[key].get(str(val), 0) + 1
        e2 = c["ext"] ** 2
        dist["copies_tie"] += int(X.copies_tie(c["cell"], c["pbc"], e2))
        dist["copies_boundary_taken"] += int(tuple(out["N"]) != X.n_copies(c["cell"], c["pbc"], e2))
        nonsing = X.vol(c["cell"]) != 0
        if nonsing:
            dist["atoms_outside_cell"] += int(not all(X.in_cell(c["cell"], c["pbc"], p) for p in c["pos"]))
        dist["max_extended_atoms"] = max(dist["max_extended_atoms"], out.get("n_ext", len(out.get("rows", []))))
        nt = any(out["N"])
        if "probes" in c:
            dist["probes"] += len(c["probes"])
            dist["probes_outside_cell"] += sum(1 for q in c["probes"] if not X.in_cell(c["cell"], c["pbc"], q))
            dist["cutoff_gt_extension"] += int(c["cutoff"] > c["ext"])
        if c["kind"] == "query":
            dist["neighbour_rows"] += sum(len(r) for r in out["results"])
            if "shim_same" in out:
                dist["shim_fidelity_checked"] += 1
                dist["shim_fidelity_differs"] += int(not out["shim_same"])
            # exact nx of the model for the copy counts used (bounding box of the images is linear in n)
            cc = X.complete_cell(c["cell"])
            for ax in range(3):
                sp = sum(out["N"][k] * abs(cc[k][ax]) for k in range(3))
                lo = min(p[ax] for p in c["pos"]) - sp
                hi = max(p[ax] for p in c["pos"]) + sp
                nx = max(1, int((Fraction(hi - lo) + 2 * X.PAD) / c["cutoff"]))
                dist["nx_boundary_taken"] += int(nx != out["geom"]["n"][ax])
            nt = nt and any(len(r) for r in out["results"])
        if c["kind"] == "match":
            for q, r in zip(c["probes"], out["results"]):
                dist[{"M": "match", "S": "substitution", "V": "vacancy"}[r[0]]] += 1
                if r[0] == "V" and nonsing:
                    d = X.frac_num(c["cell"], q)
                    dist["vacancy_on_cell_face"] += int(any(d[k] % d[3] == 0 for k in range(3)))
            dist["tol_gt_cutoff_or_ext"] += int(c["tol"] > min(c["cutoff"], c["ext"]))
            nt = any(r[0] != "V" for r in out["results"])
        if c["kind"] == "simple":
            for r in out["results"]:
                dist["simple_none" if r is None else "simple_match"] += 1
            nt = any(r is not None for r in out["results"])
        key = case_key(c)
        if key not in seen:
            seen.add(key)
            state["nontriv"] += int(bool(nt))

    corpus = load_corpus()
    pending = [dict(c, id=k) for k, c in enumerate(corpus)]
    next_id = len(pending)
    remaining = ncases
    sample = None
    failing_cases, errors = [], []
    last_cases, last_impl = [], {}
    while pending or remaining > 0:
        take = min(remaining, batch_size - len(pending))
        cases = pending + [GEN.gen_c16_case(ctx.rng, next_id + k) for k in range(take)]
        pending = []
        next_id += take
        remaining -= take
        for c in cases:
            # process-history stream (no PRNG draw): one case in three is measured after the same structure was extended /
            # binned / searched / matched with other extension, cutoff and tolerance values in the same process
            c.setdefault("history", c["id"] % 3 == 0)
            c.setdefault("twin", c["id"] % 2 == 1)      # a twin structure (same edge lengths, orthogonal cell) goes through the library first
        tb = time.time()
        impl, modes = run_impl(cases)
        state["t_impl"] += time.time() - tb
        dist["ext_mode"] = sorted(set(dist["ext_mode"]) | modes)
        terms = [(c["id"], coq_term(c, impl[c["id"]])) for c in cases]
        failing, errs = C.coq_case_files("C16", X.PREAMBLE, terms,
                                         per_file=int(os.environ.get("VERIF_C16_SHARD", "0")) or max(8, min(100, -(-len(terms) // (3 * C.NCPU)))),
                                         timeout=3000)
        del terms
        errors += errs
        by_id = {c["id"]: c for c in cases}
        failing_cases += [(by_id[i], impl[i]) for i in failing]
        for c in cases:
            account(c, impl[c["id"]])
        state["total"] += len(cases)
        if sample is None:
            gen = [c for c in cases if "corpus" not in c]
            if gen:
                sample = {k: (gen[0][k] if k != "pos" else "(%d atoms)" % len(gen[0]["pos"])) for k in ("kind", "cell", "pbc", "pos", "ext")}
        last_cases, last_impl = cases, impl
        C.log("[C16] %d/%d cases, %d disagreements, %.0fs" % (state["total"], ncases + len(corpus), len(failing_cases), time.time() - t0))
        if failing_cases or errors:
            break
    cases, impl = last_cases, last_impl
    ctx.add_cases(state["total"], state["nontriv"], [sample] if sample else [])
    ctx.coverage["rule"] = ("each case is one call sequence on the current C++/Python sources (extended system: all rows in order; query: bin geometry + "
                            "all neighbour rows of 2-6 probes; get_matches / get_matches_simple: every probe), compared inside Coq with the model run on the "
                            "copy counts the implementation used (those checked against n_copies up to the tie rule). distinct = distinct inputs; non-trivial = "
                            "a periodic copy was taken (extend), a neighbour was found in a periodic system (query), a probe was matched/substituted (match/simple)")
    ctx.coverage["input_distribution"] = dist
    ctx.coverage["timing"] = {"impl_s": round(state["t_impl"], 1), "total_s": round(time.time() - t0, 1)}
    ctx.coverage["disagreements"] = len(failing_cases)

    if errors:
        ctx.violation({"kind": "case-files-do-not-compile", "broken": "correspondence GeoAgree (C16 relations) could not be evaluated",
                       "detail": errors[:2]}, found_input=False)
        return
    reported = False
    for c, out in failing_cases[:8]:
        fails = predicate_failures(c, out)
        if fails:
            small = shrink(c)
            sf, so = impl_predicate(small)
            ctx.violation(replay_dict(small if sf else c, sf or fails, so if sf else out, {"broken_obligation": broken}), found_input=True)
            reported = True
            break
    if failing_cases and not reported:
        hit = search_stream(cases, impl, 60 if ctx.tier == "quick" else 300)
        if hit:
            c, fails, out = hit
            ctx.violation(replay_dict(c, fails, out, {"broken_obligation": broken}), found_input=True)
        else:
            c, out = failing_cases[0]
            rel = {"extend": "ext_agree", "extend_deg": "ext_agree", "query": "query_agree", "match": "matches_agree", "simple": "simple_agree_all"}[c["kind"]]
            ctx.violation({"kind": "model-implementation-disagreement", "broken": "correspondence relation GeoAgree.%s (model vs implementation)" % rel,
                           "case": {k: c[k] for k in KEYS if k in c}, "impl_error": out.get("error"), "n_disagreeing_cases": len(failing_cases),
                           "disagreeing_kinds": sorted({fc["kind"] for fc, _ in failing_cases}),
                           "searched": "property predicate (brute-force image enumeration) on the %d cases of the last batch: holds" % len(cases)},
                          found_input=False)
    elif broken and not failing_cases:
        hit = search_stream(cases, impl, 60 if ctx.tier == "quick" else 300)
        if hit:
            c, fails, out = hit
            ctx.violation(replay_dict(c, fails, out, {"broken_obligation": broken}), found_input=True)
        else:
            ctx.violation({"kind": "proof-obligation-broken", "broken": broken,
                           "searched": "property predicate on the %d cases of the last batch: holds" % len(cases)}, found_input=False)


def replay(ctx, rep):
    c = rep.get("case")
    if not c:
        print("replay: no concrete input in this replay file (%s); re-running the check" % rep.get("kind"))
        run(ctx)
        return
    c = norm_case(c)
    fails, out = impl_predicate(c)
    if fails:
        ctx.violation(replay_dict(c, fails, out), found_input=True)
        return
    failing, errors = C.coq_case_files("C16replay", X.PREAMBLE, [(0, coq_term(c, out))])
    if failing or errors:
        ctx.violation({"kind": "model-implementation-disagreement", "broken": "correspondence relation GeoAgree (C16)", "case": rep["case"]},
                      found_input=False)
    else:
        print("replay: property holds on this input now")
