"""Input generators for the SBC checks (C01, C13): scripted-finder cases and the C01 structure family.
Everything is drawn from one random.Random (ctx.rng); floats survive JSON round trips exactly."""
import math

import numpy as np

ELEMENTS = [6, 14, 13, 29, 26, 8, 11, 17, 79, 22, 1, 7]
PBCS = [[a, b, c] for a in (True, False) for b in (True, False) for c in (True, False)]


# ------------------------------------------------------------------------------------------------
# scripted finder cases
# ------------------------------------------------------------------------------------------------
def gen_script_case(rng, cid, big=False):
    n = rng.randint(1, 22 if big else 14)
    nspec = rng.choice([1, 1, 2, 2, 3])
    elems = rng.sample([6, 14, 13, 29, 8], nspec)
    numbers = [rng.choice(elems) for _ in range(n)]
    # positions: jittered points so that the bonding graph has several components of mixed sizes
    L = 1.9 * max(1.0, n ** (1.0 / 3.0)) * rng.choice([0.8, 1.0, 1.3])
    style = rng.random()
    pos = []
    for i in range(n):
        if style < 0.5 or not pos:
            pos.append([rng.uniform(0, L) for _ in range(3)])
        else:  # chain growth: next atom near an existing one
            b = rng.choice(pos)
            d = [rng.gauss(0, 1) for _ in range(3)]
            nd = math.sqrt(sum(x * x for x in d)) or 1.0
            r = rng.uniform(1.3, 2.6)
            pos.append([b[k] + r * d[k] / nd for k in range(3)])
    if rng.random() < 0.3:  # dyadic grid coordinates
        pos = [[round(x * 8) / 8 for x in p] for p in pos]
    cell = [[L + 3, 0, 0], [0, L + 3, 0], [0, 0, L + 3]]
    pbc = rng.choice(PBCS)
    # regions: heavily overlapping / nested / singleton / empty / species-conflicting subsets
    nreg = rng.randint(1, 5)
    regions = []
    atoms = list(range(n))
    for r in range(nreg):
        kind = rng.random()
        if kind < 0.1:
            basis = []
        elif kind < 0.2:
            basis = [rng.choice(atoms)]
        elif kind < 0.45 and regions and regions[-1]["basis"]:
            prev = regions[-1]["basis"]
            basis = sorted(set(rng.sample(prev, rng.randint(1, len(prev))) + rng.sample(atoms, rng.randint(0, min(2, n)))))
        elif kind < 0.6:
            z = rng.choice(numbers)
            basis = [i for i in atoms if numbers[i] == z and rng.random() < 0.8]
        else:
            basis = sorted(rng.sample(atoms, rng.randint(1, n)))
        per = rng.choice([[True, True, True], [True, True, False], [True, False, True], [False, True, True]])
        regions.append({"basis": basis, "pbc": per})
    script = []
    p_none = rng.choice([0.0, 0.2, 0.5, 0.9])
    for s in range(n):
        if rng.random() < p_none:
            reg = None
        else:
            # prefer a region containing the seed, sometimes any
            cands = [k for k, r in enumerate(regions) if s in r["basis"]]
            reg = rng.choice(cands) if cands and rng.random() < 0.7 else rng.randrange(nreg)
        m = {s}
        mk = rng.random()
        if mk < 0.3:
            m |= {i for i in atoms if numbers[i] == numbers[s]}
        elif mk < 0.7:
            m |= set(rng.sample(atoms, rng.randint(0, n)))
        script.append({"region": reg, "mask": sorted(m)})
    params = {
        "bond_threshold": rng.choice([0.4, 0.65, 0.65, 0.8, 1.0]),
        "merge_threshold": rng.choice([0.0, 0.2, 0.25, 0.3, 0.5, 0.5, 0.6, 0.7, 0.9, 1.0, 1.0, 1.0, 1.0 / 3.0, 2.0 / 3.0]),
        "merge_radius": rng.choice([0.5, 1, 1, 2, 5]),
        "seed": rng.randrange(1000),
        "radii": rng.choice(["covalent", "covalent", "vdw"]),
    }
    return {"id": cid, "mode": "script", "matrix": True, "twice": rng.random() < 0.2, "time_limit": 20,
            "structure": {"numbers": numbers, "positions": pos, "cell": cell, "pbc": pbc},
            "regions": regions, "script": script, "params": params}


# ------------------------------------------------------------------------------------------------
# the C01 structure family
# ------------------------------------------------------------------------------------------------
LATTICES = {
    "sc": ([[1, 0, 0], [0, 1, 0], [0, 0, 1]], [[0, 0, 0]]),
    "fcc": ([[1, 0, 0], [0, 1, 0], [0, 0, 1]], [[0, 0, 0], [0.5, 0.5, 0], [0.5, 0, 0.5], [0, 0.5, 0.5]]),
    "bcc": ([[1, 0, 0], [0, 1, 0], [0, 0, 1]], [[0, 0, 0], [0.5, 0.5, 0.5]]),
    "rocksalt": ([[1, 0, 0], [0, 1, 0], [0, 0, 1]],
                 [[0, 0, 0], [0.5, 0.5, 0], [0.5, 0, 0.5], [0, 0.5, 0.5],
                  [0.5, 0, 0], [0, 0.5, 0], [0, 0, 0.5], [0.5, 0.5, 0.5]]),
    "diamond": ([[1, 0, 0], [0, 1, 0], [0, 0, 1]],
                [[0, 0, 0], [0.5, 0.5, 0], [0.5, 0, 0.5], [0, 0.5, 0.5],
                 [0.25, 0.25, 0.25], [0.75, 0.75, 0.25], [0.75, 0.25, 0.75], [0.25, 0.75, 0.75]]),
}
CRYSTALS = [("fcc", 3.6, [29]), ("fcc", 4.05, [13]), ("bcc", 2.87, [26]), ("rocksalt", 5.64, [11, 17]),
            ("diamond", 5.43, [14]), ("diamond", 3.57, [6]), ("sc", 2.8, [79]), ("rocksalt", 4.2, [12, 8])]


def crystal(rng, name, a, species, reps):
    cellm, basis = LATTICES[name]
    pos, num = [], []
    for i in range(reps[0]):
        for j in range(reps[1]):
            for k in range(reps[2]):
                for b_i, b in enumerate(basis):
                    pos.append([(i + b[0]) * a, (j + b[1]) * a, (k + b[2]) * a])
                    if len(species) == 1:
                        num.append(species[0])
                    else:
                        num.append(species[0] if b_i < len(basis) // 2 else species[1])
    cell = [[reps[0] * a, 0, 0], [0, reps[1] * a, 0], [0, 0, reps[2] * a]]
    return pos, num, cell


def pick_reps(rng, nbasis, max_atoms):
    """supercell repetitions: half of the time small, half of the time close to a target size drawn
    uniformly from [max_atoms/3, max_atoms] (so that the upper end of the size range is populated)"""
    if rng.random() < 0.5:
        for _ in range(50):
            reps = [rng.randint(1, 4) for _ in range(3)]
            if nbasis * reps[0] * reps[1] * reps[2] <= max_atoms:
                return reps
        return [1, 1, 1]
    target = rng.randint(max(1, max_atoms // 3), max_atoms)
    best, bn = [1, 1, 1], nbasis
    for _ in range(60):
        reps = [rng.randint(1, 6) for _ in range(3)]
        k = nbasis * reps[0] * reps[1] * reps[2]
        if bn < k <= target:
            best, bn = reps, k
    return best


def rattle(rng, pos, sigma):
    return [[x + rng.gauss(0, sigma) for x in p] for p in pos]


def finish(rng, pos, num, cell, pbc, tag, extra=None):
    # unwrapped variant: translate some atoms by lattice vectors along periodic axes / shift everything
    cellm = np.array(cell, dtype=float)
    pos = [list(map(float, p)) for p in pos]
    wrapped = True
    if rng.random() < 0.35 and any(pbc):
        wrapped = False
        for p in pos:
            if rng.random() < 0.3:
                for ax in range(3):
                    if pbc[ax] and cellm[ax].any():
                        sh = rng.choice([-2, -1, 0, 0, 1, 2])
                        for k in range(3):
                            p[k] += sh * cellm[ax][k]
    if rng.random() < 0.2:
        t = [rng.uniform(-3, 3) for _ in range(3)]
        pos = [[p[k] + t[k] for k in range(3)] for p in pos]
        wrapped = False
    # random permutation of the atom order
    order = list(range(len(pos)))
    if rng.random() < 0.5:
        rng.shuffle(order)
    pos = [pos[i] for i in order]
    num = [int(num[i]) for i in order]
    d = {"numbers": num, "positions": pos, "cell": [list(map(float, r)) for r in cellm], "pbc": [bool(b) for b in pbc]}
    meta = {"kind": tag, "n": len(num), "pbc": "".join("T" if b else "F" for b in pbc), "wrapped": wrapped}
    if extra:
        meta.update(extra)
    return d, meta


def skew(rng, cell):
    """unimodular shear of the cell (same lattice, skewed presentation)"""
    c = np.array(cell, dtype=float)
    i, j = rng.sample([0, 1, 2], 2)
    c[i] = c[i] + rng.choice([-1, 1]) * c[j]
    return c.tolist()


def gen_structure(rng, max_atoms, kinds=None):
    kind = rng.choice(kinds or ["gas", "crystal", "crystal", "crystal", "defective", "defective", "two", "molecules", "degenerate", "tiny"])
    pbc = rng.choice(PBCS)
    if kind == "vacancies":      # the D3 family: periodic supercells with 20-60 % random vacancies
        kind = "defective"
        pbc = rng.choice([[True, True, True], [True, True, True], [True, True, False]])
    if kind == "tiny":
        n = rng.randint(1, 4)
        L = rng.uniform(3, 8)
        pos = [[rng.uniform(0, L) for _ in range(3)] for _ in range(n)]
        num = [rng.choice(ELEMENTS) for _ in range(n)]
        return finish(rng, pos, num, [[L, 0, 0], [0, L, 0], [0, 0, L]], pbc, "tiny")
    if kind == "gas":
        n = rng.randint(2, min(max_atoms, 60))
        L = (n * rng.uniform(8, 40)) ** (1 / 3.0)
        cell = [[L, 0, 0], [rng.uniform(-0.4, 0.4) * L, L * rng.uniform(0.8, 1.2), 0],
                [rng.uniform(-0.4, 0.4) * L, rng.uniform(-0.4, 0.4) * L, L * rng.uniform(0.8, 1.3)]]
        cm = np.array(cell)
        pos = [(np.array([rng.random(), rng.random(), rng.random()]) @ cm).tolist() for _ in range(n)]
        num = [rng.choice(ELEMENTS[:6]) for _ in range(n)]
        return finish(rng, pos, num, cell, pbc, "gas", {"skewed": True})
    if kind in ("crystal", "defective"):
        name, a, species = rng.choice(CRYSTALS)
        reps = pick_reps(rng, len(LATTICES[name][1]), max_atoms)
        pos, num, cell = crystal(rng, name, a, species, reps)
        sigma = rng.choice([0.0, 0.02, 0.05, 0.1, 0.15])
        pos = rattle(rng, pos, sigma)
        extra = {"lattice": name, "reps": reps, "sigma": sigma}
        if kind == "defective":
            frac = rng.choice([0.05, 0.2, 0.3, 0.4, 0.5, 0.6])
            keep = [i for i in range(len(pos)) if rng.random() >= frac] or [0]
            pos = [pos[i] for i in keep]
            num = [num[i] for i in keep]
            sub = rng.choice([0.0, 0.0, 0.1, 0.2])
            other = rng.choice([z for z in ELEMENTS if z not in species])
            num = [other if rng.random() < sub else z for z in num]
            extra.update({"vacancies": frac, "substituted": sub})
        if rng.random() < 0.3:
            cell = skew(rng, cell)
            extra["skewed"] = True
        if rng.random() < 0.3:  # vacuum along a non-periodic axis -> slab / wire / crystallite
            for ax in range(3):
                if not pbc[ax]:
                    cell[ax] = [x * rng.uniform(1.5, 2.5) for x in cell[ax]]
            extra["vacuum"] = True
        return finish(rng, pos, num, cell, pbc, kind, extra)
    if kind == "two":
        (n1, a1, s1), (n2, a2, s2) = rng.sample(CRYSTALS, 2)
        rx, ry = rng.randint(1, 3), rng.randint(1, 3)
        l1, l2 = rng.randint(1, 2), rng.randint(1, 2)
        nb1, nb2 = len(LATTICES[n1][1]), len(LATTICES[n2][1])
        while (nb1 * l1 + nb2 * l2) * rx * ry > max_atoms and (rx > 1 or ry > 1):
            rx, ry = max(1, rx - 1), max(1, ry - 1)
        p1, z1, c1 = crystal(rng, n1, a1, s1, [rx, ry, l1])
        p2, z2, c2 = crystal(rng, n2, a1, s2, [rx, ry, l2])   # second crystal strained to the first one's in-plane cell
        gap = rng.uniform(1.5, 3.0)
        h1 = c1[2][2]
        p2 = [[p[0], p[1], p[2] * (a2 / a1) + h1 + gap] for p in p2]
        h = h1 + gap + c2[2][2] * (a2 / a1) + rng.choice([gap, 8.0])
        cell = [c1[0], c1[1], [0, 0, h]]
        pos = rattle(rng, p1 + p2, rng.choice([0.0, 0.03]))
        pbc2 = rng.choice([[True, True, False], [True, True, True], pbc])
        return finish(rng, pos, z1 + z2, cell, pbc2, "two", {"lattices": [n1, n2]})
    if kind == "molecules":
        mols = {"H2O": ([8, 1, 1], [[0, 0, 0], [0.76, 0.59, 0], [-0.76, 0.59, 0]]),
                "CO2": ([6, 8, 8], [[0, 0, 0], [1.16, 0, 0], [-1.16, 0, 0]]),
                "CH4": ([6, 1, 1, 1, 1], [[0, 0, 0], [0.63, 0.63, 0.63], [-0.63, -0.63, 0.63], [-0.63, 0.63, -0.63], [0.63, -0.63, -0.63]]),
                "N2": ([7, 7], [[0, 0, 0], [1.1, 0, 0]])}
        nm = rng.randint(1, max(1, min(12, max_atoms // 5)))
        L = rng.uniform(6, 12)
        pos, num = [], []
        for _ in range(nm):
            z, p = mols[rng.choice(sorted(mols))]
            # random rotation from a random orthonormal frame
            q = np.linalg.qr(np.array([[rng.gauss(0, 1) for _ in range(3)] for _ in range(3)]))[0]
            c = np.array([rng.uniform(0, L) for _ in range(3)])
            for zi, pi in zip(z, p):
                pos.append((c + q @ np.array(pi)).tolist())
                num.append(zi)
        return finish(rng, pos, num, [[L, 0, 0], [0, L, 0], [0, 0, L]], pbc, "molecules")
    # degenerate: zero cell vectors on non-periodic axes (completion branch) -- never zero + periodic here
    name, a, species = rng.choice(CRYSTALS[:5])
    nz = rng.choice([1, 1, 2, 3])
    zero_axes = sorted(rng.sample([0, 1, 2], nz))
    reps = pick_reps(rng, len(LATTICES[name][1]), min(max_atoms, 64))
    for ax in zero_axes:
        reps[ax] = 1
    pos, num, cell = crystal(rng, name, a, species, reps)
    pbc = [False if ax in zero_axes else rng.random() < 0.7 for ax in range(3)]
    for ax in zero_axes:
        cell[ax] = [0.0, 0.0, 0.0]
    pos = rattle(rng, pos, rng.choice([0.0, 0.05]))
    return finish(rng, pos, num, cell, pbc, "degenerate", {"zero_axes": zero_axes})


def gen_real_case(rng, cid, max_atoms, twice_p=0.25, kinds=None):
    st, meta = gen_structure(rng, max_atoms, kinds)
    radii = rng.choice(["covalent", "covalent", "covalent", "vdw_covalent", "vdw", "array"])
    # (every element used by this family has a van der Waals radius, so 'vdw' is total here)
    if radii == "array":
        radii = {"array": [round(rng.uniform(0.4, 1.5), 3) for _ in st["numbers"]]}
    params = {
        "bond_threshold": rng.choice([0.4, 0.5, 0.65, 0.65, 0.8, 1.0]),
        "merge_threshold": rng.choice([0.3, 0.5, 0.5, 0.7, 0.9]),
        "merge_radius": rng.choice([1, 1, 0.5, 2]),
        "max_cell_size": rng.choice([6, 6, 5, 8]),
        "pos_tol": rng.choice([0.7, 0.7, 0.5, 0.9]),
        "seed": rng.randrange(100),
        "radii": radii,
    }
    return {"id": cid, "mode": "real", "matrix": False, "twice": rng.random() < twice_p,
            "structure": st, "params": params, "meta": meta, "time_limit": 240}


def gen_flat_outside_case(rng, cid):
    """the cell-stretching front end of SBC.get_clusters: every atom has exactly the SAME coordinate along a non-periodic
    direction and lies outside the cell along it (sheet above/below its box, planar flake or molecule without a usable cell);
    no periodic cell vector is zero, so the call must return normally"""
    k = rng.randrange(3)
    others = [i for i in range(3) if i != k]
    a = rng.choice([1.42, 2.46, 2.55, 3.0])
    kind = rng.choice(["square-sheet", "hex-sheet", "flake", "ring"])
    n1, n2 = rng.randint(1, 3), rng.randint(1, 3)
    pts = []
    if kind == "square-sheet" or kind == "flake":
        pts = [(i * a, j * a) for i in range(n1 + 1) for j in range(n2 + 1)]
        L1, L2 = (n1 + 1) * a, (n2 + 1) * a
    elif kind == "hex-sheet":
        import math as _m
        for i in range(n1 + 1):
            for j in range(n2 + 1):
                pts += [(i * a * _m.sqrt(3), j * a * 3 + 0.0), (i * a * _m.sqrt(3) + a * _m.sqrt(3) / 2, j * a * 3 + a * 1.5),
                        (i * a * _m.sqrt(3) + a * _m.sqrt(3) / 2, j * a * 3 + a * 0.5), (i * a * _m.sqrt(3), j * a * 3 + a * 2.0)]
        L1, L2 = (n1 + 1) * a * _m.sqrt(3), (n2 + 1) * a * 3
    else:
        import math as _m
        m = rng.choice([5, 6])
        pts = [(5 + a * _m.cos(2 * _m.pi * t / m), 5 + a * _m.sin(2 * _m.pi * t / m)) for t in range(m)]
        L1 = L2 = 10.0
    h = rng.choice([8.0, 10.0, 12.0])
    level = rng.choice([-2.0, -0.5, h + 1.0, h + 3.0, 5.0 * h])
    pos = []
    for (u, v) in pts:
        p = [0.0, 0.0, 0.0]
        p[others[0]], p[others[1]], p[k] = u, v, level
        pos.append(p)
    cell = [[0.0] * 3 for _ in range(3)]
    cell[others[0]][others[0]], cell[others[1]][others[1]], cell[k][k] = L1, L2, h
    pbc = [False, False, False]
    if kind in ("square-sheet", "hex-sheet"):
        pbc[others[0]] = pbc[others[1]] = True
    elif rng.random() < 0.4:
        cell = [[0.0] * 3 for _ in range(3)]      # no cell at all
    num = [rng.choice([6, 6, 29, 5, 7])] * len(pos) if rng.random() < 0.6 else [rng.choice([6, 5, 7]) for _ in pos]
    return {"id": cid, "mode": "real", "matrix": False, "twice": False, "frontend": True,
            "structure": {"numbers": num, "positions": pos, "cell": cell, "pbc": pbc},
            "params": {"seed": rng.randrange(100)},
            "meta": {"kind": "frontend", "zero": [not any(cell[i]) for i in range(3)], "pbc": pbc, "shape": "flat-outside:" + kind},
            "time_limit": 60}


def gen_frontend_case(rng, cid):
    """cells with zero vectors under every pbc pattern: the ValueError clause"""
    if rng.random() < 0.25:
        return gen_flat_outside_case(rng, cid)
    zero = [rng.random() < 0.45 for _ in range(3)]
    pbc = [rng.random() < 0.5 for _ in range(3)]
    n = rng.randint(1, 6)
    L = rng.uniform(3, 6)
    cell = [[L if i == j else 0.0 for j in range(3)] for i in range(3)]
    for ax in range(3):
        if zero[ax]:
            cell[ax] = [0.0, 0.0, 0.0]
    pos = [[rng.uniform(0, L) for _ in range(3)] for _ in range(n)]
    num = [rng.choice(ELEMENTS) for _ in range(n)]
    # two thirds of the cells are NOT diagonal: the non-zero vectors are sheared into each other and the whole structure is
    # rotated rigidly, so that "cell vector i is zero" (a row) differs from "cartesian component i vanishes" (a column)
    shape = rng.choice(["diagonal", "sheared", "rotated"])
    if shape != "diagonal":
        import numpy as _np
        cm = _np.array(cell, dtype=float)
        nz = [i for i in range(3) if not zero[i]]
        for i in nz:
            for j in nz:
                if i != j and rng.random() < 0.5:
                    cm[i] = cm[i] + rng.choice([-0.4, 0.3, 0.5]) * _np.array(cell[j])
        pm = _np.array(pos, dtype=float)
        if shape == "rotated":
            q = _np.array([rng.gauss(0, 1) for _ in range(4)])
            q /= _np.linalg.norm(q)
            w, x, y, z = q
            R = _np.array([[1 - 2 * (y * y + z * z), 2 * (x * y - z * w), 2 * (x * z + y * w)],
                           [2 * (x * y + z * w), 1 - 2 * (x * x + z * z), 2 * (y * z - x * w)],
                           [2 * (x * z - y * w), 2 * (y * z + x * w), 1 - 2 * (x * x + y * y)]])
            cm = cm @ R.T
            pm = pm @ R.T
        cell = cm.tolist()
        pos = pm.tolist()
    return {"id": cid, "mode": "real", "matrix": False, "twice": False, "frontend": True,
            "structure": {"numbers": num, "positions": pos, "cell": cell, "pbc": pbc},
            "params": {"seed": rng.randrange(100)}, "meta": {"kind": "frontend", "zero": zero, "pbc": pbc, "shape": shape},
            "time_limit": 60}


def reuse_stream(rng, quick):
    """History stream shared by C01 and C13: sequences of get_clusters calls on ONE SBC instance -- the same atoms with
    another periodicity, the same atoms with other radii / thresholds, then the examined call.  Returns (cases, rows);
    a row carries same_as_fresh (answer equals that of a fresh SBC()), dim_mismatch / prior_dim_mismatch (C13 predicate)."""
    from lib import common as C
    n_reuse = 40 if quick else 240
    rcases = []

    def radii_choice(rng, n, numbers):
        from ase.data import covalent_radii
        k = rng.random()
        if k < 0.3:
            return "covalent"
        if k < 0.5:
            return "vdw"
        if k < 0.6:
            return "vdw_covalent"
        f = rng.choice([0.6, 0.8, 1.3, 1.6, 1.9])
        return {"array": [round(float(covalent_radii[z]) * f, 4) for z in numbers]}

    def crystallite_with_satellites(rng):
        """finite fcc/sc/bcc block in a large box plus 1-3 atoms on lattice sites 1-2 shells outside: bonded to the
        block under large radii, not under small ones (cleaning and connectivity depend on the radii of the call)"""
        from ase.build import bulk
        from ase.data import covalent_radii
        import numpy as _np
        sym, lat = rng.choice([("Cu", "fcc"), ("Al", "fcc"), ("Fe", "bcc"), ("Ni", "fcc"), ("W", "bcc")])
        a = {"Cu": 3.6, "Al": 4.05, "Fe": 2.87, "Ni": 3.52, "W": 3.16}[sym]
        blk = bulk(sym, lat, a=a, cubic=True) * (rng.choice([2, 3]), rng.choice([2, 3]), rng.choice([2, 3]))
        pos = blk.get_positions().tolist()
        num = blk.get_atomic_numbers().tolist()
        P = _np.array(pos)
        corner = P[int(_np.argmax(P @ _np.array([rng.choice([-1, 1]), rng.choice([-1, 1]), rng.choice([-1, 1])])))]
        for _ in range(rng.randint(1, 3)):
            v = _np.array([rng.choice([-1, 0, 1, 1]), rng.choice([-1, 0, 1, 1]), rng.choice([0, 0.5, 1])]) * a
            q = corner + _np.sign(corner - P.mean(axis=0) + 1e-9) * _np.abs(v)
            if _np.min(_np.linalg.norm(P - q, axis=1)) > 0.9 * a / 2 ** 0.5:
                pos.append([float(x) for x in q])
                num.append(num[0])
        P = _np.array(pos)
        P = P - P.min(axis=0) + 8.0
        L = P.max(axis=0) + 8.0
        pbc = rng.choice([[False, False, False], [True, True, True], [True, True, False]])
        return {"numbers": [int(z) for z in num], "positions": [[round(float(x), 6) for x in r] for r in P],
                "cell": [[float(L[0]), 0, 0], [0, float(L[1]), 0], [0, 0, float(L[2])]], "pbc": pbc}, {"kind": "crystallite+satellites", "n": len(num)}

    for k in range(n_reuse):
        if k % 2 == 0:
            st, meta = crystallite_with_satellites(rng)
        else:
            st, meta = gen_structure(rng, 60 if quick else 120, kinds=["defective", "crystal", "two", "molecules"])
        if not any(st["pbc"]):
            alt = [True, True, True]
        else:
            alt = [not b for b in st["pbc"]] if not all(st["pbc"]) else [False, False, False]
        nums = st["numbers"]
        kw = {"bond_threshold": rng.choice([0.5, 0.65, 0.9]), "seed": 7, "radii": radii_choice(rng, len(nums), nums)}
        prior = []
        for _ in range(rng.randint(0, 2)):
            pk = {"bond_threshold": rng.choice([0.5, 0.65, 0.9]), "seed": 7, "radii": radii_choice(rng, len(nums), nums)}
            if not isinstance(pk["radii"], str) or pk["radii"] != "covalent":
                pk["overlap_threshold"] = -3.0
            prior.append(pk)
        if not isinstance(kw["radii"], str) or kw["radii"] != "covalent":
            kw["overlap_threshold"] = -3.0
        prior_structures = [h for h in ("translated", "permuted", "other-element") if rng.random() < 0.5]
        rcases.append({"id": k, "structure": st, "alt_pbc": alt, "kwargs": kw, "prior": prior, "prior_structures": prior_structures, "meta": meta})
    chunks = [rcases[i::8] for i in range(8)]
    routs = C.impl_run_parallel("sbc_reuse_impl", [{"cases": ch} for ch in chunks if ch], jobs=8)
    rrows = [r for o in routs for r in o["rows"]]
    return rcases, rrows
