"""C07 -- Wyckoff sets are exactly the symmetry orbits of the conventional cell.
(also the machinery shared with C12: crystal family, runner calls, Coq terms of a dataset)

translate : S.build() (space-group tables, C14 instances); nothing of its own
prove     : Inst/C14Inst.v, Inst/C07Inst.v, Properties/C07.v
correspond: corpus, then the C05 crystal family over all 230 groups (general and special positions,
            1-3 orbits, <= 120 atoms; plain and as permuted supercells / sheared bases / rotated /
            translated).  The implementation runner returns the real spglib dataset and the analyzer's
            outputs; the Gallina model is evaluated inside Coq on the dataset (Primitive.sets_agree_ds)
            and must return exactly the implementation's list of sets.  S3 is evaluated on every
            dataset (anomalies are reported separately).  The property's own predicates are evaluated
            on the implementation's outputs (partition, uniformity, multiplicity, order, orbit closure
            with operations from spglib.get_symmetry on the returned cell, letters against spglib on
            the returned structure and against the family semantics of the tables).
"""
import glob
import hashlib
import json
import os
import sys
import time

from lib import common as C
from lib import symtables as S
from lib import crystals as K

LEVEL = "proof"
STATIC = S.STATIC + ["Reflect/GroupChecksProofs.vo", "Reflect/NormChecksProofs.vo", "Symmetry/WyckoffSetsProofs.vo",
                     "Symmetry/PrimitiveProofs.vo", "Symmetry/WyckoffOrbit.vo"]
TOL = 1e-4
JOBS = min(8, C.NCPU)

PREAMBLE = """From Coq Require Import ZArith List String Bool.
Import ListNotations.
From MV Require Import Symmetry.Table Symmetry.WyckoffSets Symmetry.Primitive.
From MVD Require Import Generated.SGAll.
Close Scope Z_scope.
Open Scope nat_scope.
Open Scope string_scope.
Definition valid_of (sg : nat) : list string :=
  match nth_error tables (sg - 1) with Some t => map w_letter (sg_wyck t) | None => [] end.
"""


# ---------------------------------------------------------------------------------------------------
# inputs
# ---------------------------------------------------------------------------------------------------
def crystal_key(cr):
    body = json.dumps({k: cr[k] for k in ("cell", "scaled_positions", "numbers")}, sort_keys=True)
    return hashlib.sha256(body.encode()).hexdigest()[:16]


def slim(cr):
    return {k: cr[k] for k in ("cell", "scaled_positions", "numbers")}


def load_corpus(pid):
    out = []
    for p in sorted(glob.glob(os.path.join(C.VERIF, "corpus", pid, "*.json"))):
        with open(p) as f:
            d = json.load(f)
        out.append({"crystal": slim(d["crystal"]), "tol": d.get("tol", TOL), "sg": d.get("sg"), "variant": "corpus:" + os.path.basename(p),
                    "base": None})
    return out


def family(ctx, tables, per_group, groups=range(1, 231), max_atoms=120):
    """per_group crystals per space group; the first is given as generated, the others as another
    description of a fresh crystal (supercell / unimodular shear / rotation / translation / permutation)"""
    rng = ctx.rng
    cases, disc = [], 0
    for sg in groups:
        for k in range(per_group):
            cr, d = K.generate(sg, rng, tables, max_atoms=max_atoms)
            disc += d
            if cr is None:
                continue
            variant = "plain"
            base = None
            if k % 2 == 1:
                sup = rng.random() < 0.6
                rep, desc = K.represent(cr, rng, rotate=rng.random() < 0.7, translate=rng.random() < 0.7, permute=True,
                                        shear=rng.random() < 0.6, supercell=sup)
                if len(rep["numbers"]) <= 4 * max_atoms:
                    base = slim(cr)
                    cr = rep
                    variant = "+".join(sorted(desc)) or "plain"
            cases.append({"crystal": slim(cr), "tol": TOL, "sg": sg, "variant": variant, "base": base,
                          "orbits": [o["kind"] for o in cr.get("orbits", [])]})
    return cases, disc


def std_cell_family(ctx, tables, n, max_atoms=120):
    """inputs that ARE the standardized conventional cell (identity transformation, zero origin shift) of a crystal in
    which one species occupies several Wyckoff positions, with the atoms in another order than spglib's: any shortcut
    that carries per-atom data of the input over to the conventional cell by position in the list shows here.
    Centred lattices (conventional cell = several primitive cells) are drawn twice as often."""
    import numpy as np
    import spglib
    rng = ctx.rng
    out, disc = [], 0
    groups = list(range(1, 231))
    centred = [sg for sg in groups if len(tables[1][sg]["translations"]) > 0]
    tries = 0
    while len(out) < n and tries < 6 * n:
        tries += 1
        sg = rng.choice(centred) if rng.random() < 0.66 else rng.choice(groups)
        lets = K.table_letters(tables, sg)
        mult = {l: m for l, m, nf in lets}
        k = rng.choice([2, 2, 3])
        pick, total = [], 0
        for l in rng.sample(list(mult), min(len(mult), 6)):
            if len(pick) < k and total + mult[l] <= max_atoms:
                pick.append(l)
                total += mult[l]
        if len(pick) < 2:
            continue
        z = rng.choice(K.SPECIES)
        zs = [z] * len(pick)
        if rng.random() < 0.3:
            zs[-1] = rng.choice([x for x in K.SPECIES if x != z])
        cr = K.make_crystal(sg, rng, list(zip(pick, zs)), tables)
        if cr is None or K.stable_group(cr) != sg:
            disc += 1
            continue
        ds = K.spg_dataset(cr, TOL)
        L = np.array(K.ds_get(ds, "std_lattice"))
        P = np.array(K.ds_get(ds, "std_positions"))
        Z = [int(x) for x in K.ds_get(ds, "std_types")]
        # another order of the atoms that keeps the species sequence of the standardized cell
        order = list(range(len(Z)))
        for zz in set(Z):
            idx = [i for i in order if Z[i] == zz]
            sh = list(idx)
            rng.shuffle(sh)
            for a, b in zip(idx, sh):
                order[a] = b
        std = {"sg": sg, "cell": L.tolist(), "scaled_positions": P[order].tolist(), "numbers": [Z[i] for i in order]}
        if K.stable_group(std) != sg:
            disc += 1
            continue
        out.append({"crystal": slim(std), "tol": TOL, "sg": sg, "variant": "standardized-cell-reordered-within-species", "base": None,
                    "orbits": pick})
    return out, disc


def targeted_family(ctx, build):
    """crystals aimed at a normalizer whose table clauses no longer check (see _c0506.targeted_cases)"""
    from props import _c0506 as H
    tc, summ = H.targeted_cases(build, ctx.rng)
    ctx.coverage["targeted_search"] = summ
    return [{"crystal": slim(c["crystal"]), "tol": TOL, "sg": c["sg"], "variant": "targeted:" + json.dumps(c["pres"], default=str)[:120],
             "base": None, "orbits": []} for c in tc]


def off_family(ctx, n):
    """structures outside the curated family: random triclinic cells with 1-12 random atoms (usually P1 / P-1, every
    atom its own orbit) and rattled family crystals -- the model must agree on whatever dataset spglib returns"""
    import numpy as np
    rng = ctx.rng
    out = []
    for k in range(n):
        na = rng.randint(1, 12)
        cell = K.cellpar_to_cell(rng.uniform(4, 8), rng.uniform(4, 8), rng.uniform(4, 8), rng.uniform(65, 115), rng.uniform(65, 115), rng.uniform(65, 115))
        pos = [[rng.random() for _ in range(3)] for _ in range(na)]
        nums = [rng.choice(K.SPECIES[:6]) for _ in range(na)]
        cr = {"cell": np.array(cell).tolist(), "scaled_positions": pos, "numbers": nums}
        if rng.random() < 0.4:
            H = K.random_supercell_matrix(rng)
            t = K.transform_basis(dict(cr), H)
            if t is not None:
                cr = slim(t)
        out.append({"crystal": cr, "tol": TOL, "sg": None, "variant": "off-family-random", "base": None, "orbits": []})
    return out


def run_impl(cases, families=True, one_process=False):
    for i, c in enumerate(cases):
        c["id"] = i
    nj = 1 if one_process else JOBS
    payloads = [{"cases": [{"id": c["id"], "crystal": c["crystal"], "tol": c["tol"], "call_order": c.get("call_order")} for c in cases[i::nj]], "families": families}
                for i in range(nj)]
    payloads = [p for p in payloads if p["cases"]]
    outs = C.impl_run_parallel("c07_impl", payloads, jobs=JOBS)
    rows = {r["id"]: r for o in outs for r in o["cases"]}
    return [rows[c["id"]] for c in cases]


# ---------------------------------------------------------------------------------------------------
# Coq terms
# ---------------------------------------------------------------------------------------------------
def slit(s):
    if not isinstance(s, str) or '"' in s or "\\" in s or "\n" in s:
        raise ValueError("string not representable: %r" % (s,))
    return '"%s"' % s


def natl(xs):
    for x in xs:
        if not (isinstance(x, int) and 0 <= x < 100000):
            raise ValueError("not a small natural: %r" % (x,))
    return C.listlit(["%d" % x for x in xs])


def strl(xs):
    return C.listlit([slit(x) for x in xs])


def zl(xs):
    return C.listlit([C.zlit(x) for x in xs])


def ds_term(r):
    d = r["dataset"]
    return "(mkDS %s %s %s %s %s)" % (strl(d["wyckoffs"]), natl(d["orbits"]), natl(d["m2p"]), natl(d["std_m2p"]), zl(d["std_types"]))


def perm_term(r):
    return C.listlit(["(%s, %s)" % (slit(a), slit(b)) for a, b in r["perm"]])


def sets_term(r):
    return C.listlit(["(mkWS %s %s %s %d)" % (slit(s[0]), C.zlit(s[2]), natl(s[4]), s[3]) for s in r["sets"]])


def c07_term(r):
    d = r["dataset"]
    return "sets_agree_ds (valid_of %d) %s %s %s %s" % (d["number"], perm_term(r), slit(d["international"][:1]), ds_term(r), sets_term(r))


def c12_term(r):
    L, E = r["letters"], r["equiv"]
    d = r["dataset"]
    impl = "(mkDescr %s %s %s %s %s %s %s)" % (strl(L["original"]), natl(E["original"]), strl(L["conventional"]), natl(E["conventional"]),
                                                strl(L["primitive"]), natl(E["primitive"]), zl(r["prim"]["numbers"]))
    return "descr_agree %s %s %s %s" % (perm_term(r), slit(d["international"][:1]), ds_term(r), impl)


# ---------------------------------------------------------------------------------------------------
# predicates of the property, read from the runner's report
# ---------------------------------------------------------------------------------------------------
C07_HARD = ["partition", "nonempty", "uniform", "element_symbol", "multiplicity", "sorted"]


def c07_failures(r):
    """names of the clauses of C07 that fail on this output (inconclusive clauses are not failures)"""
    p = r["c07"]
    bad = [k for k in C07_HARD if p.get(k) is not True]
    if p.get("orbit_closure") is False:
        bad.append("orbit_closure")
    if p.get("letters_spglib") == "differ":
        bad.append("letters_spglib")
    if p.get("letters_family") == "differ":
        bad.append("letters_family")
    if p.get("classes_spglib") is False:
        bad.append("classes_spglib")
    if p.get("analyzer_reuse") is False and any(k in ("sets", "letters", "equiv", "conv_numbers", "number") or k.startswith("raised")
                                                 for k in r.get("reuse", {}).get("differs_in", [])):
        bad.append("analyzer_reuse(one analyzer fed successive crystals through set_system answers differently from a fresh one)")
    return bad


def table_perm_ok(tables, r):
    """the chosen permutation is the identity on the occupied letters or one of the tabulated ones"""
    if all(a == b for a, b in r["perm"]):
        return True  # the identity candidate: {x: x for x in occupied letters}
    _, _, norms = tables
    cand = [sorted((str(k), str(v)) for k, v in n["permutations"].items()) for n in norms.get(r["dataset"]["number"], [])]
    return sorted((a, b) for a, b in r["perm"]) in cand


def nonid(r):
    """a normalizer with a non-trivial letter permutation on the occupied letters was chosen"""
    return any(a != b for a, b in r["perm"])


def nontrivial_c07(r):
    d = r["dataset"]
    return len(r["sets"]) >= 2 or nonid(r) or len(set(d["m2p"])) < len(d["m2p"])


def distribution(cases, rows):
    dist = {"crystals": len(cases), "variants": {}, "centrings": {}, "atoms_min_max": None, "non_identity_normalizer": 0,
            "supercell_inputs": 0, "sets_per_crystal": {}, "groups_covered": 0, "special_position_orbits": 0, "general_position_orbits": 0}
    sizes = []
    groups = set()
    for c, r in zip(cases, rows):
        v = c["variant"].split(":")[0]
        dist["variants"][v] = dist["variants"].get(v, 0) + 1
        sizes.append(len(c["crystal"]["numbers"]))
        for o in c.get("orbits") or []:
            dist["general_position_orbits" if o == "general" else "special_position_orbits"] += 1
        if "error" in r:
            continue
        d = r["dataset"]
        groups.add(d["number"])
        ce = d["international"][:1]
        dist["centrings"][ce] = dist["centrings"].get(ce, 0) + 1
        dist["non_identity_normalizer"] += 1 if nonid(r) else 0
        dist["supercell_inputs"] += 1 if len(set(d["m2p"])) < len(d["m2p"]) else 0
        k = str(len(r["sets"]))
        dist["sets_per_crystal"][k] = dist["sets_per_crystal"].get(k, 0) + 1
    dist["atoms_min_max"] = [min(sizes), max(sizes)] if sizes else None
    dist["groups_covered"] = len(groups)
    return dist


def shrink_and_confirm(case, fails_fn):
    """smaller description of the same failing crystal if the base crystal fails too"""
    if case.get("base"):
        c2 = {"crystal": case["base"], "tol": case["tol"], "sg": case.get("sg"), "variant": "plain(shrunk)", "base": None}
        r2 = run_impl([c2], True)[0]
        if "error" in r2 or fails_fn(r2):
            return c2, r2
    return None, None


def report_case(ctx, kind, case, row, extra=None, found_input=True):
    rep = {"kind": kind, "crystal": case["crystal"], "tol": case["tol"], "sg": case.get("sg"), "variant": case["variant"],
           "call": "SymmetryAnalyzer(Atoms(numbers, cell, scaled_positions, pbc=True), symmetry_tol=tol)",
           "implementation": {k: row.get(k) for k in ("error", "sets", "letters", "equiv", "perm", "identity", "c07", "c12", "contract", "reuse", "call_order") if k in row}}
    if extra:
        rep.update(extra)
    ctx.violation(rep, found_input=found_input)


def tables_round_trip(ctx, build):
    """the tables the runner imports are the tables Coq reasons about (same check as C14 (a))"""
    from props import c14
    dump = C.impl_run("c14_impl", {"dump": True})
    ast_sha = c14.canonical_sha_ast(build["tables"])
    ok = ast_sha == dump["dump_sha"]
    ctx.coverage["translator_round_trip"] = {"ast_sha": ast_sha, "imported_sha": dump["dump_sha"], "equal": ok}
    if not ok:
        ctx.violation({"kind": "translator-round-trip-differs", "broken": "tables as read with ast differ from the tables matid imports"}, found_input=False)
    return ok


def correspond(ctx, pid, cases, term_fn, fails_fn, nontrivial_fn, build, broken):
    """shared by C07 and C12.  Returns (rows, n_property_failures)."""
    t0 = time.time()
    rows = run_impl(cases, True)
    ctx.coverage["impl_wall_s"] = round(time.time() - t0, 1)
    coq_cases, skipped = [], []
    anomalies, prop_fail, errors, unrep = [], [], [], []
    for c, r in zip(cases, rows):
        if "error" in r:
            errors.append((c, r))
            continue
        if not r["contract"]["ok"]:
            anomalies.append((c, r))
        try:
            coq_cases.append((c["id"], term_fn(r)))
        except ValueError as e:
            unrep.append((c, r, str(e)))
        f = fails_fn(r)
        if f:
            prop_fail.append((c, r, f))
    failing, cerr = C.coq_case_files(pid.lower() + "corr", PREAMBLE, coq_cases)
    seen = set()
    nontriv = 0
    for c, r in zip(cases, rows):
        if "error" in r:
            continue
        k = crystal_key(c["crystal"])
        if k not in seen and nontrivial_fn(r):
            nontriv += 1
        seen.add(k)
    samples = []
    for c, r in list(zip(cases, rows))[:2]:
        if "error" not in r:
            samples.append({"sg": c.get("sg"), "variant": c["variant"], "atoms": len(c["crystal"]["numbers"]),
                            "sets": [s[:4] for s in r["sets"]], "perm": r["perm"], "international": r["dataset"]["international"]})
    ctx.add_cases(len(coq_cases), nontriv, samples)
    ctx.coverage["input_distribution"] = distribution(cases, rows)
    ctx.coverage["contract_S3"] = {"datasets": len(rows) - len(errors), "conforming": len(rows) - len(errors) - len(anomalies),
                                   "anomalies": [{"sg": c.get("sg"), "variant": c["variant"], "contract": r["contract"], "crystal": c["crystal"]}
                                                 for c, r in anomalies[:5]]}
    anomaly_ids = {c["id"] for c, _ in anomalies}
    if anomalies:
        ctx.notes.append("oracle anomaly: %d dataset(s) violate the spglib contract S3 (listed in coverage.contract_S3); not counted as violations of the property" % len(anomalies))
    nviol = 0
    # 1. the property's own predicates on the implementation
    for c, r, f in prop_fail:
        if c["id"] in anomaly_ids:
            continue  # oracle anomaly, reported separately, not a violation of the property
        c2, r2 = shrink_and_confirm(c, fails_fn)
        report_case(ctx, "property-fails-on-implementation", c2 or c, r2 or r, {"failed_clauses": f, "broken_obligation": broken})
        nviol += 1
        break
    # 2. the analyzer failing on a family crystal
    for c, r in errors[:1]:
        report_case(ctx, "analyzer-raised-on-family-crystal", c, r, {"broken_obligation": broken})
        nviol += 1
    # 3. model and implementation disagree
    by_id = {c["id"]: (c, r) for c, r in zip(cases, rows)}
    dis = [by_id[i] for i in failing] + [(c, r) for c, r, _ in unrep]
    ctx.coverage["model_disagreements"] = len(dis)
    if dis and not nviol:
        c, r = dis[0]
        f = fails_fn(r)
        report_case(ctx, "model-and-implementation-disagree", c, r,
                    {"broken": "correspondence %s (Gallina model evaluated on the dataset vs analyzer output)" % pid,
                     "coq_term": term_fn(r) if (c, r) in [by_id[i] for i in failing] else None, "failed_clauses": f,
                     "disagreeing_cases": len(dis)}, found_input=bool(f))
        nviol += 1
    for e in cerr[:1]:
        ctx.violation({"kind": "case-file-failed", "broken": "correspondence %s" % pid, "detail": e}, found_input=False)
        nviol += 1
    return rows, nviol


def prove(ctx, pid, steps, build):
    broken = None
    if not build["ok"]:
        n = len(C.theorem_names(os.path.join(C.COQ, "Properties/%s.v" % pid)))
        ctx.add_obligations(n, 0, "theorems of Properties/%s.v (not attempted: table instances of C14 failed)" % pid)
        return {"stage": "tables", "detail": build["broken"]}
    # a per-run file must also be newer than the per-run files it imports (another property's run may have
    # recompiled Inst/C14Inst.vo since); inf (missing .vo) forces the rebuild of every step
    newer = max(S.all_vo_mtime(), C.dyn_vo_mtime(["Inst/C14Inst.v"]))
    pres = C.prove_property(pid, steps, newer_than=newer, timeout=3000)
    ctx.record_proof(pres)
    if pres["failed"]:
        broken = {"stage": "prove", "file": pres["failed"]["path"], "error": pres["failed"]["out"][-1500:]}
    return broken


def run(ctx):
    ctx.add_trusted("spglib (oracle): dataset fields enter the model as data; contract S3 evaluated on every dataset",
                    "tables: translator/gen_symdata.py (ast, fail-closed) + C14 instances; round trip against the imported module checked each run",
                    "implementation runner harness/impl/c07_impl.py (observes public getters and `_best_transform`); orbit closure uses spglib.get_symmetry on the returned cell",
                    "element symbol = ase.data.chemical_symbols[atomic number]")
    ctx.assumptions += ["S3: atoms with equal crystallographic_orbits label carry equal Wyckoff letter and element; wyckoffs/orbits constant on mapping_to_primitive fibres",
                        "orbit_closure: spglib's classes on the standardized cell are orbits of the standard-setting group (S3), the group is the one of the table (C14)",
                        "atomic numbers stand for elements (symbol is a function of the number)"]
    build = S.build()
    ctx.coverage["tables_build"] = {"cached": build["cached"], "ok": build["ok"], "wall_s": round(build.get("wall_s", 0), 1)}
    if build["tables"] is None:
        ctx.add_obligations(1, 0, "translation of the tables")
        ctx.violation({"kind": "translation-failed", "broken": build["broken"]}, found_input=False)
        return
    broken = prove(ctx, "C07", [("Inst/C14Inst.v", None), ("Inst/C07Inst.v", None)], build)
    tables_round_trip(ctx, build)
    per_group = 2 if ctx.tier == "quick" else 10
    cases = load_corpus("C07")
    fam, disc = family(ctx, build["tables"], per_group)
    cases += fam
    sfam, d2 = std_cell_family(ctx, build["tables"], 40 if ctx.tier == "quick" else 400)
    disc += d2
    cases += sfam
    if not build["ok"]:
        cases = targeted_family(ctx, build) + cases
    cases += off_family(ctx, 30 if ctx.tier == "quick" else 300)
    rows, nviol = correspond(ctx, "C07", cases, c07_term, c07_failures, nontrivial_c07, build, broken)
    ctx.coverage["input_distribution"]["discarded_unstable_or_higher_symmetry"] = disc
    ok_rows = [r for r in rows if "error" not in r]
    st = {}
    for r in ok_rows:
        for k in ("orbit_closure", "letters_spglib", "letters_family", "classes_spglib"):
            v = str(r["c07"].get(k))
            st.setdefault(k, {})[v] = st.setdefault(k, {}).get(v, 0) + 1
    ctx.coverage["independent_checks"] = st
    badperm = [r for r in ok_rows if not table_perm_ok(build["tables"], r)]
    ctx.coverage["chosen_permutation_is_tabulated"] = {"checked": len(ok_rows), "failed": len(badperm)}
    if badperm and not nviol:
        c = cases[badperm[0]["id"]]
        report_case(ctx, "chosen-permutation-not-in-table", c, badperm[0])
        nviol += 1
    ctx.coverage["rule"] = ("one Coq evaluation of the model per crystal (dataset fed as data, exact comparison of the list of sets); a case is "
                            "non-trivial when it has >= 2 Wyckoff sets, or a non-identity normalizer was chosen, or the input is a supercell; "
                            "distinct by sha256 of the crystal description")
    if broken and not nviol:
        ctx.violation({"kind": "proof-obligation-broken", "broken": broken,
                       "searched": "property predicates evaluated on %d crystals of the family: no failing input" % len(cases)}, found_input=False)


def replay_rows(rep, case):
    """re-runs the case; when the replay records a history (the crystal the shared analyzer saw before), that crystal is
    analysed first in the same process"""
    prev = ((rep.get("implementation") or {}).get("reuse") or {}).get("previous_crystal")
    case = dict(case, call_order=(rep.get("implementation") or {}).get("call_order"))
    if prev:
        c0 = {"crystal": prev, "tol": case["tol"], "sg": None, "variant": "replay-history", "base": None}
        return run_impl([c0, case], True, one_process=True)[1]
    return run_impl([case], True)[0]


def replay(ctx, rep):
    build = S.build()
    if "crystal" in rep:
        case = {"crystal": rep["crystal"], "tol": rep.get("tol", TOL), "sg": rep.get("sg"), "variant": "replay", "base": None}
        r = replay_rows(rep, case)
        bad = "error" in r or bool(c07_failures(r))
        if not bad:
            failing, cerr = C.coq_case_files("c07replay", PREAMBLE, [(0, c07_term(r))])
            bad = bool(failing or cerr)
        if bad:
            ctx.violation(rep, found_input=rep.get("found_failing_input", True))
        else:
            print("replay: property and correspondence hold on this input now")
        return
    broken = prove(ctx, "C07", [("Inst/C14Inst.v", None), ("Inst/C07Inst.v", None)], build)
    if broken:
        ctx.violation(rep, found_input=False)
    else:
        print("replay: the proof obligations check now")
