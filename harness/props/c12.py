"""C12 -- original, primitive and conventional descriptions are mutually consistent.

translate : S.build() (tables, C14 instances); translator/gen_centring.py -> Generated/Centring.v (the five
            matrices of _get_primitive_system, ast, fail-closed) and Generated/HMSymbols.v (reference data)
prove     : Inst/C14Inst.v, Generated/Centring.v, Generated/HMSymbols.v, Inst/C12Inst.v (centring reflection
            over 230 tables x matrices x symbols), Properties/C12.v
correspond: the C05 crystal family over all 230 groups (all centring types P, A, C, I, F, R), plain and as
            permuted supercells / sheared / rotated / translated descriptions; the Gallina model of the
            index maps is evaluated inside Coq on the real dataset (Primitive.descr_agree) and must give
            exactly the analyzer's letters / equivalence arrays / primitive atomic numbers.  S3 evaluated
            on every dataset.  The property's own predicates are evaluated on the analyzer's outputs
            (one entry per atom, shared letter/element, exact count ratios, atom count and volume ratio =
            centring multiplicity, primitive system primitive / same group / same volume per atom with
            spglib on the returned primitive system).
"""
import os
import sys

from lib import common as C
from lib import symtables as S
from props import c07 as W

sys.path.insert(0, os.path.join(C.VERIF, "translator"))
import gen_centring  # noqa: E402
from pyast import TranslationError  # noqa: E402

LEVEL = "proof"
STATIC = S.STATIC + ["Reflect/GroupChecksProofs.vo", "Reflect/NormChecksProofs.vo", "Reflect/CentringChecksProofs.vo",
                     "Symmetry/WyckoffSetsProofs.vo", "Symmetry/PrimitiveProofs.vo"]

C12_HARD = ["one_entry_per_atom", "count_ratio_conv_prim", "count_ratio_orig_prim", "prim_count", "prim_volume", "volume_per_atom",
            "prim_positions_wrapped", "is_primitive", "same_space_group", "conv_atoms_are_images_of_prim"]


def c12_failures(r):
    p = r["c12"]
    bad = [k for k in C12_HARD if p.get(k) is not True]
    bad += ["equivalent_share_" + w for w, v in p.get("equivalent_share", {}).items() if v is not True]
    if p.get("analyzer_reuse") is False:
        bad.append("analyzer_reuse(one analyzer fed successive crystals through set_system answers differently from a fresh one)")
    return bad


def nontrivial_c12(r):
    d = r["dataset"]
    return d["international"][:1] != "P" or len(set(d["m2p"])) < len(d["m2p"])


DIAG = """From Coq Require Import ZArith QArith List String Bool.
Import ListNotations.
From MV Require Import Symmetry.Table Symmetry.Affine Reflect.GroupChecks Reflect.NormChecks Reflect.CentringChecks.
From MVD Require Import Generated.SGAll Generated.Centring Generated.HMSymbols.
Set Printing Width 100000. Set Printing Depth 100000.
Eval vm_compute in (map (fun th => (sg_num (fst th), centring_diag (fst th) (snd th) centring_mats))
                        (filter (fun th => negb (chk_centring (fst th) (snd th) centring_mats)) (combine tables hm_short))).
"""


def centring_offenders():
    """groups whose centring instance fails, with the failing sub-clauses"""
    import re
    rc, out = C.coq_eval("c12diag", DIAG, timeout=1200)
    if rc != 0:
        return None, out[-800:]
    txt = re.sub(r"\s+", " ", out)
    offs = []
    names = ["shape", "inverse", "lattice", "n_centring_vectors", "determinant", "centring_class"]
    for m in re.finditer(r"\((\d+)(?:%Z)?, \[([^\]]*)\]\)", txt):
        bits = [x.strip() == "true" for x in m.group(2).split(";")]
        offs.append({"sg": int(m.group(1)), "failed": [n for n, b in zip(names, bits) if not b]})
    return offs, None


def run(ctx):
    ctx.add_trusted("spglib (oracle): dataset fields enter the model as data; contract S3 evaluated on every dataset",
                    "translator/gen_centring.py + pyast.py (ast, fail-closed): the five matrices and how they are used (transform.T @ conv_cell, 'P' early return, np.unique first occurrences)",
                    "reference data: international short symbols of the first Hall number of each group, from the installed spglib database",
                    "tables: translator/gen_symdata.py + C14 instances (centring translations, centring class)",
                    "implementation runner harness/impl/c07_impl.py; 'is primitive' / 'same space group' use spglib on the returned primitive system (S1 on the output)")
    ctx.assumptions += ["S3: wyckoffs/orbits/species constant on mapping_to_primitive fibres; all fibres of mapping_to_primitive have equal size; "
                        "fibres of std_mapping_to_primitive have the size of the centring multiplicity; std_mapping_to_primitive numbers the primitive atoms 0..np-1; "
                        "std_types agree with the species of the original atoms of the same primitive atom",
                        "S1 on the output: spglib finds the same space group for the returned primitive system and reports it primitive",
                        "dataset.international[0] is the centring letter of the standard setting (compared with the reference symbol on every case)"]
    build = S.build()
    ctx.coverage["tables_build"] = {"cached": build["cached"], "ok": build["ok"], "wall_s": round(build.get("wall_s", 0), 1)}
    if build["tables"] is None:
        ctx.add_obligations(1, 0, "translation of the tables")
        ctx.violation({"kind": "translation-failed", "broken": build["broken"]}, found_input=False)
        return
    broken = None
    syms = None
    try:
        files, meta, (mats, syms) = gen_centring.generate(C.REPO)
        ctx.coverage["translator_info"] = meta
    except TranslationError as e:
        files = None
        broken = {"stage": "translate", "error": str(e)}
        ctx.add_obligations(1, 0, "translation of _get_primitive_system")
    offenders = []
    if files is not None:
        broken = W.prove(ctx, "C12", [("Inst/C14Inst.v", None)] + files + [("Inst/C12Inst.v", None)], build)
        inst_ok = broken is None or broken.get("file") not in ("Inst/C12Inst.v", "Generated/Centring.v", "Generated/HMSymbols.v")
        ctx.add_obligations(230, 230 if (inst_ok and build["ok"]) else 0,
                            "centring reflection instance: 230 groups x {inverse, 24^3 residues both inclusions, multiplicity, determinant, class}")
        if broken and broken.get("file") == "Inst/C12Inst.v":
            offs, err = centring_offenders()
            offenders = offs or []
            ctx.coverage["centring_offenders"] = offenders[:60] if offs is not None else {"diagnostic_failed": err}
    W.tables_round_trip(ctx, build)
    per_group = 2 if ctx.tier == "quick" else 10
    cases = W.load_corpus("C12")
    # crystals of the groups whose centring instance failed come first (counter-witness of the model)
    if offenders:
        fam0, _ = W.family(ctx, build["tables"], 2, groups=[o["sg"] for o in offenders][:12])
        cases += fam0
    fam, disc = W.family(ctx, build["tables"], per_group)
    cases += fam
    cases += W.off_family(ctx, 30 if ctx.tier == "quick" else 300)
    rows, nviol = W.correspond(ctx, "C12", cases, W.c12_term, c12_failures, nontrivial_c12, build, broken)
    ctx.coverage["input_distribution"]["discarded_unstable_or_higher_symmetry"] = disc
    # the centring letter the code dispatches on is the reference one
    bad_sym = [r for r in rows if "error" not in r and syms is not None and 1 <= r["dataset"]["number"] <= 230
               and syms[r["dataset"]["number"] - 1][:1] != r["dataset"]["international"][:1]]
    ctx.coverage["centring_letter_vs_reference"] = {"checked": sum(1 for r in rows if "error" not in r), "differ": len(bad_sym)}
    if bad_sym:
        ctx.coverage["centring_letter_vs_reference"]["examples"] = [[r["dataset"]["number"], r["dataset"]["international"]] for r in bad_sym[:5]]
        ctx.notes.append("oracle anomaly: dataset.international starts with another centring letter than the reference symbol")
    ctx.coverage["rule"] = ("one Coq evaluation of the index-map model per crystal (dataset fed as data, exact comparison of 7 arrays); a case is "
                            "non-trivial when the centring is not P or the input is a supercell (mapping_to_primitive not injective); distinct by "
                            "sha256 of the crystal description")
    ctx.coverage["exhaustive"] = False
    ctx.coverage["exhaustive_part"] = "centring algebra: all 230 groups x 5 matrices (exhaustive); index maps: sampled crystals (not exhaustive)"
    if broken and not nviol:
        ctx.violation({"kind": "proof-obligation-broken", "broken": broken, "centring_offenders": offenders[:20],
                       "searched": "property predicates evaluated on %d crystals (offending groups first): no failing input" % len(cases)},
                      found_input=False)


def replay(ctx, rep):
    build = S.build()
    if "crystal" in rep:
        case = {"crystal": rep["crystal"], "tol": rep.get("tol", W.TOL), "sg": rep.get("sg"), "variant": "replay", "base": None}
        r = W.replay_rows(rep, case)
        bad = "error" in r or bool(c12_failures(r))
        if not bad:
            failing, cerr = C.coq_case_files("c12replay", W.PREAMBLE, [(0, W.c12_term(r))])
            bad = bool(failing or cerr)
        if bad:
            ctx.violation(rep, found_input=rep.get("found_failing_input", True))
        else:
            print("replay: property and correspondence hold on this input now")
        return
    try:
        files, _, _ = gen_centring.generate(C.REPO)
    except TranslationError:
        ctx.violation(rep, found_input=False)
        return
    broken = W.prove(ctx, "C12", [("Inst/C14Inst.v", None)] + files + [("Inst/C12Inst.v", None)], build)
    if broken:
        ctx.violation(rep, found_input=False)
    else:
        print("replay: the proof obligations check now")
