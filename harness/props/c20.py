"""C20 -- cell and frame helpers preserve the physical structure.

prove (Properties/C20.v over Geometry/Frame.v, FrameProofs.v, ComReals.v)
-> correspond: the executable Gallina model (Frame.v, over Q) is evaluated inside Coq on the same
   inputs as matid.geometry.{to_scaled,to_cartesian,get_wrapped_positions,get_minimized_cell,
   get_thickness,swap_basis,complete_cell,get_center_of_mass (non-periodic axes),get_moments_of_inertia}
   and compared by the agreement relations of Frame.v (tolerance 1e-9 for what went through
   np.linalg.solve / norm, exact for discrete facts)
-> the periodic centre of mass has NO executable model: the conclusions of the Reals theorems
   (ComReals.v) are evaluated on the implementation (labelled `com-metamorphic`)
-> every case is also judged by the property's own predicate, evaluated on the implementation's
   outputs in Python (exact rationals + 1e-9); a failing case is shrunk and reported with a replay.
"""
import glob
import hashlib
import json
import math
import os
from fractions import Fraction as Fr

import numpy as np

from lib import common as C

LEVEL = "proof"
STATIC = ["Geometry/Frame.vo", "Geometry/FrameProofs.vo", "Geometry/ComReals.vo", "Geometry/ComInterval.vo", "Base/CaseUtil.vo"]
TOL = Fr(1, 10 ** 9)
TOLF = 1e-9
GRID = 4096
PREAMBLE = ("From Coq Require Import ZArith QArith List Bool.\nImport ListNotations.\n"
            "From MV Require Import Geometry.Frame Geometry.ComInterval.\nOpen Scope Q_scope.\n")
SPECIES = [1, 6, 8, 14, 22, 29, 47, 79]
# primitive Pythagorean quadruples a^2+b^2+c^2 = d^2 (incl. degenerate ones = triples / axis vectors)
QUADS = [(0, 0, 1, 1), (0, 3, 4, 5), (1, 2, 2, 3), (2, 3, 6, 7), (1, 4, 8, 9), (4, 4, 7, 9), (2, 6, 9, 11), (6, 6, 7, 11),
         (3, 4, 12, 13), (0, 5, 12, 13), (2, 5, 14, 15), (2, 10, 11, 15), (0, 8, 15, 17), (1, 12, 12, 17), (8, 9, 12, 17)]


# ---------------------------------------------------------------------------------------------
# exact helpers (Fractions) -- reference semantics used by the property predicates
# ---------------------------------------------------------------------------------------------
def F(x):
    return Fr(x)  # exact value of a float / int


def fvec(v):
    return [F(x) for x in v]


def fmat(m):
    return [fvec(r) for r in m]


def dot(a, b):
    return a[0] * b[0] + a[1] * b[1] + a[2] * b[2]


def cross(a, b):
    return [a[1] * b[2] - a[2] * b[1], a[2] * b[0] - a[0] * b[2], a[0] * b[1] - a[1] * b[0]]


def det(m):
    return dot(m[0], cross(m[1], m[2]))


def to_scaled_x(m, p):
    d = det(m)
    return [dot(p, cross(m[1], m[2])) / d, dot(p, cross(m[2], m[0])) / d, dot(p, cross(m[0], m[1])) / d]


def to_cart_x(m, s):
    return [s[0] * m[0][k] + s[1] * m[1][k] + s[2] * m[2][k] for k in range(3)]


def finite(x):
    if isinstance(x, (list, tuple)):
        return all(finite(y) for y in x)
    return isinstance(x, (int, float)) and math.isfinite(x)


def close(a, b, scale=1.0, tol=TOLF):
    return abs(float(a) - float(b)) <= tol * scale


def vclose(u, v, tol=TOLF):
    sc = 1.0 + max(abs(float(x)) for x in u)
    return len(u) == len(v) and all(close(a, b, sc, tol) for a, b in zip(u, v))


def lclose(us, vs, tol=TOLF):
    return len(us) == len(vs) and all(vclose(u, v, tol) for u, v in zip(us, vs))


# ---------------------------------------------------------------------------------------------
# Coq literals
# ---------------------------------------------------------------------------------------------
def q(x):
    return C.qlit(F(x))


def qv(v):
    return "(mkV %s %s %s)" % (q(v[0]), q(v[1]), q(v[2]))


def qm(m):
    return "(mkM %s %s %s)" % (qv(m[0]), qv(m[1]), qv(m[2]))


def ql(vs):
    return C.listlit([qv(v) for v in vs])


def qb3(p):
    return "(mkB %s %s %s)" % tuple(C.boollit(bool(x)) for x in p)


def qpbc(p):
    if isinstance(p, bool):
        return "(PbcAll %s)" % C.boollit(p)
    return "(PbcTriple %s)" % qb3(p)


def qax(i):
    return "A%d" % i


def qzl(zs):
    return C.listlit([C.zlit(z) for z in zs])


def expand(p):
    return [p, p, p] if isinstance(p, bool) else [bool(x) for x in p]


# ---------------------------------------------------------------------------------------------
# generators
# ---------------------------------------------------------------------------------------------
def dy(rng, lo, hi, grid=GRID):
    return rng.randint(int(math.ceil(lo * grid)), int(math.floor(hi * grid))) / grid


def rot_rational(rng):
    while True:
        w, x, y, z = [rng.randint(-3, 3) for _ in range(4)]
        n = w * w + x * x + y * y + z * z
        if n and (x or y or z):
            break
    R = [[w * w + x * x - y * y - z * z, 2 * (x * y - w * z), 2 * (x * z + w * y)],
         [2 * (x * y + w * z), w * w - x * x + y * y - z * z, 2 * (y * z - w * x)],
         [2 * (x * z - w * y), 2 * (y * z + w * x), w * w - x * x - y * y + z * z]]
    return [[Fr(v, n) for v in r] for r in R]


def rotate_rows(R, cell):
    return [[float(sum(R[i][k] * F(row[k]) for k in range(3))) for i in range(3)] for row in cell]


def pyth_vector(rng, lo=1.5, hi=14.0):
    """a vector on the dyadic grid with rational length: (vector, length)"""
    a, b, c, d = rng.choice(QUADS)
    v = [a, b, c]
    rng.shuffle(v)
    v = [x * rng.choice([-1, 1]) for x in v]
    length = dy(rng, lo, hi, 64)
    s = Fr(length) / d
    # keep the entries on a dyadic grid: scale = k / 2^j with the length close to the wanted one
    s = Fr(max(1, round(s * 256)), 256)
    return [float(s * x) for x in v], s * d


def gen_cell(rng, kind, axis=None):
    """returns (cell as floats, {axis: exact rational length or None})"""
    lengths = {}
    if kind == "orthogonal":
        d = [dy(rng, 1.0, 12.0) for _ in range(3)]
        cell = [[d[0], 0.0, 0.0], [0.0, d[1], 0.0], [0.0, 0.0, d[2]]]
        lengths = {i: F(d[i]) for i in range(3)}
    elif kind == "triclinic":
        cell = [[dy(rng, -8, 8) for _ in range(3)] for _ in range(3)]
        if axis is not None:
            v, L = pyth_vector(rng)
            cell[axis] = v
            lengths[axis] = L
    elif kind == "sheared":
        a = dy(rng, 1.5, 10)
        _, p, qq, r = rng.choice([t for t in QUADS if t[0] == 0 and t[1] != 0])  # a triple
        s1 = Fr(rng.randint(32, 512), 256)
        v2, L2 = pyth_vector(rng)
        if v2[2] == 0.0:
            v2[2], v2[0] = v2[0], v2[2]
        if v2[2] == 0.0:
            v2[2], v2[1] = v2[1], v2[2]
        cell = [[a, 0.0, 0.0], [float(s1 * p) * rng.choice([-1, 1]), float(s1 * qq), 0.0], v2]
        lengths = {0: F(a), 1: s1 * r, 2: L2}
    else:
        raise ValueError(kind)
    if rng.random() < 0.25:  # left-handed variant
        cell[0] = [-x for x in cell[0]]
    return cell, lengths


def gen_any_cell(rng, axis=None, max_cond=1e4, want=None):
    """cell of one of the classes orthogonal/triclinic/sheared, optionally rotated by a rational
    rotation (entries then no longer dyadic: the model receives the exact value of the floats)"""
    for _ in range(1000):
        kind = want or rng.choice(["orthogonal", "triclinic", "triclinic", "sheared"])
        rotated = rng.random() < 0.3
        cell, lengths = gen_cell(rng, kind, axis)
        if rotated:
            cell = rotate_rows(rot_rational(rng), cell)
        a = np.array(cell)
        if abs(np.linalg.det(a)) < 1e-3 or np.linalg.cond(a) > max_cond or np.abs(a).max() >= 60:
            continue
        return cell, lengths, kind + ("+rotated" if rotated else "")
    raise RuntimeError("no admissible cell")


def gen_positions(rng, cell, n):
    """inside or outside the cell; half of the time built from coarse scaled coordinates (so that
    coordinates coincide, lie on cell faces, differ by lattice vectors), else on the cartesian grid"""
    fc = fmat(cell)
    if rng.random() < 0.5:
        out = []
        for _ in range(n):
            s = [Fr(rng.randint(-12, 20), 8) for _ in range(3)]
            out.append([float(x) for x in to_cart_x(fc, s)])
        return out
    r = min(60.0, 1.5 * max(abs(x) for row in cell for x in row) + 2)
    return [[dy(rng, -r, r) for _ in range(3)] for _ in range(n)]


def gen_frame(rng, k):
    cell, _, kind = gen_any_cell(rng)
    n = rng.randint(1, 10)
    pos = gen_positions(rng, cell, n)
    sc = [[dy(rng, -2, 3) for _ in range(3)] for _ in range(n)]
    return {"fn": "frame", "cell": cell, "positions": pos, "scaled": sc, "class": kind}


def gen_wrap(rng, k):
    cell, _, kind = gen_any_cell(rng)
    n = rng.randint(1, 10)
    pos = gen_positions(rng, cell, n)
    sc = [[dy(rng, -3, 4) for _ in range(3)] for _ in range(n)]
    if k % 4 == 3:
        # fractional coordinates a few 1e-6 away from a cell face (inside or outside): wrapping must still move them by an
        # integer, not snap them onto the face
        fc = fmat(cell)
        for i in range(n):
            j = rng.randrange(3)
            sc[i][j] = rng.randint(-2, 3) + rng.choice([-1, 1]) * rng.choice([1, 4, 9, 20, 60]) * 2.0 ** -20
        pos = [[float(x) for x in to_cart_x(fc, [F(v) for v in row])] for row in sc]
    if k % 10 == 8:
        pbc = True
    elif k % 10 == 9:
        pbc = False
    else:
        pbc = [bool(k & 1), bool(k & 2), bool(k & 4)]
    return {"fn": "wrap", "cell": cell, "positions": pos, "scaled": sc, "pbc": pbc, "class": kind}


def gen_snap(rng, k):
    n = rng.randint(1, 10)
    sc = []
    for _ in range(n):
        row = []
        for _ in range(3):
            r = rng.random()
            if r < 0.3:      # within / just outside the snapping window around an integer
                row.append(rng.randint(-3, 3) + rng.choice([-1, 1]) * rng.randint(0, 3 * 2 ** 20) / 2.0 ** 36)
            else:
                row.append(dy(rng, -3, 4))
        sc.append(row)
    c = {"fn": "snap", "scaled": sc}
    if k % 3:
        c["precision"] = rng.choice([1e-5, 2.0 ** -16, 2.0 ** -20, 1e-3])
    return c


def exact_extent(cell, pos, axis, L):
    fc = fmat(cell)
    comps = [to_scaled_x(fc, fvec(p))[axis] for p in pos]
    return (max(comps) - min(comps)) * L


def gen_mincell(rng, k):
    axis = k % 3
    mode = ["pyth", "pyth", "pyth", "generic"][(k // 3) % 4]
    for _ in range(200):
        if mode == "generic":
            cell, _, kind = gen_any_cell(rng, None, 1e3, want="triclinic")
            c = fvec(cell[axis])
            L = F(math.sqrt(float(dot(c, c))))
            kind += "+approx-length"
        else:
            cell, lengths, kind = gen_any_cell(rng, axis, 1e3)
            L = lengths[axis]
        n = rng.randint(1, 10)
        pos = gen_positions(rng, cell, n)
        r0 = rng.random()
        if r0 < 0.5 and n > 1:
            # thin (r0 < 0.35) or flat (else) along the axis: re-place the atoms in lattice planes k/2^j apart so that
            # the extent is comparable with min_size (both branches of the padding decision become common)
            fc = fmat(cell)
            target = rng.choice([0.05, 0.2, 0.5, 1.0, 2.0, 4.0])
            j = max(0, int(round(math.log2(float(L) * 64 / target))))
            s0 = Fr(rng.randint(-16, 24), 8)
            newpos = []
            for p in pos:
                s = to_scaled_x(fc, fvec(p))
                s[axis] = s0 + (Fr(rng.randint(0, 64), 2 ** j) if r0 < 0.35 else 0)
                newpos.append([float(x) for x in to_cart_x(fc, s)])
            pos = newpos
        ext = exact_extent(cell, pos, axis, L)
        min_size = rng.choice([0.125, 0.25, 0.5, 1.0, 1.5, 2.0, 3.0, 0.1, 0.3, 2.7, 0.75])
        r = rng.random()
        if r < 0.15 and Fr(1, 10) <= ext <= 3 and F(float(ext)) == ext:
            min_size = float(ext)                                   # exact tie c_size == min_size
        # condition number of the new basis (the implementation solves with it)
        e = ext / L
        fac = (F(min_size) / L) if ext < F(min_size) else e
        nb = [list(map(float, r_)) for r_ in fmat(cell)]
        nb[axis] = [float(fac * x) for x in fmat(cell)[axis]]
        if abs(np.linalg.det(np.array(nb))) < 1e-4 or np.linalg.cond(np.array(nb)) > 1e4:
            continue
        if max(abs(x) for p in pos for x in p) >= 64:
            continue
        pbc = [bool((k // 12) & 1), bool((k // 12) & 2), bool((k // 12) & 4)]
        nums = [rng.choice(SPECIES) for _ in range(n)]
        return {"fn": "mincell", "cell": cell, "positions": pos, "numbers": nums, "pbc": pbc, "axis": axis,
                "min_size": min_size, "L": [str(L.numerator), str(L.denominator)], "class": kind}
    raise RuntimeError("no admissible mincell case")


def gen_swap(rng, k):
    cell, _, kind = gen_any_cell(rng)
    n = rng.randint(1, 10)
    return {"fn": "swap", "cell": cell, "positions": gen_positions(rng, cell, n), "numbers": [rng.choice(SPECIES) for _ in range(n)],
            "pbc": [bool((k // 9) & 1), bool((k // 9) & 2), bool((k // 9) & 4)], "a": k % 3, "b": (k // 3) % 3, "class": kind}


def gen_complete(rng, k):
    for _ in range(1000):
        mode = k % 3
        if mode == 0:      # exact: a, b in a coordinate plane (possibly permuted): |a x b| is rational
            a2 = [dy(rng, -8, 8), dy(rng, -8, 8), 0.0]
            b2 = [dy(rng, -8, 8), dy(rng, -8, 8), 0.0]
            perm = rng.choice([(0, 1, 2), (1, 2, 0), (2, 0, 1), (0, 2, 1)])
            a = [a2[i] for i in perm]
            b = [b2[i] for i in perm]
            c = cross(fvec(a), fvec(b))
            N = abs(c[0]) + abs(c[1]) + abs(c[2])
            kind = "planar-exact"
        elif mode == 1:    # the same rotated by a rational rotation (floats rounded)
            a2 = [[dy(rng, -8, 8), dy(rng, -8, 8), 0.0], [dy(rng, -8, 8), dy(rng, -8, 8), 0.0], [0.0, 0.0, 1.0]]
            rr = rotate_rows(rot_rational(rng), a2)
            a, b = rr[0], rr[1]
            c = cross(fvec(a), fvec(b))
            N = F(math.sqrt(float(dot(c, c))))
            kind = "rotated"
        else:
            a = [dy(rng, -8, 8) for _ in range(3)]
            b = [dy(rng, -8, 8) for _ in range(3)]
            c = cross(fvec(a), fvec(b))
            N = F(math.sqrt(float(dot(c, c))))
            kind = "generic+approx-length"
        if float(dot(c, c)) < 1e-2:
            continue
        length = rng.choice([0.1, 0.5, 1.0, 2.0, 3.0, 7.5, 12.0, dy(rng, 0.1, 20)])
        return {"fn": "complete", "a": a, "b": b, "length": length, "N": [str(N.numerator), str(N.denominator)], "class": kind}
    raise RuntimeError("no admissible complete_cell case")


def gen_moments(rng, k):
    cell, _, kind = gen_any_cell(rng)
    n = rng.randint(1, 10)
    pbc = [bool(k & 1), bool(k & 2), bool(k & 4)]
    c = {"fn": "moments", "cell": cell, "positions": gen_positions(rng, cell, n), "numbers": [rng.choice(SPECIES) for _ in range(n)],
         "pbc": pbc, "class": kind}
    if k % 3 == 1:
        c["weight"] = False
    elif k % 3 == 2:
        c["weight"] = True
    if not any(pbc):
        c["translate"] = [dy(rng, -5, 5) for _ in range(3)]
    return c


def gen_com(rng, k):
    cell, _, kind = gen_any_cell(rng)
    n = rng.randint(1, 10)
    pbc = [bool(k & 1), bool(k & 2), bool(k & 4)]
    pos = gen_positions(rng, cell, n)
    if k % 5 == 4 and any(pbc):
        # nearly balanced: equal atoms in pairs half a period (plus a small offset) apart along the cell vectors, so that the
        # mean resultant of the circular mean is small but not zero (1e-4 .. 1e-2 of the total mass)
        fc = fmat(cell)
        z = rng.choice(SPECIES)
        pos, nums = [], []
        for _ in range(rng.randint(1, 4)):
            s0 = [Fr(rng.randint(0, 64), 64) for _ in range(3)]
            dlt = [Fr(1, 2) + Fr(rng.choice([1, 2, 5, 10, 20, 40]), 10000) for _ in range(3)]
            pos.append([float(x) for x in to_cart_x(fc, s0)])
            pos.append([float(x) for x in to_cart_x(fc, [a + b for a, b in zip(s0, dlt)])])
            nums += [z, z]
        shifts = [[(rng.randint(-3, 3) if pbc[i] else 0) for i in range(3)] for _ in range(len(pos))]
        return {"fn": "com", "cell": cell, "positions": pos, "numbers": nums, "pbc": pbc, "shifts": shifts,
                "translate": [dy(rng, -6, 6) for _ in range(3)], "class": kind + "+nearly-balanced"}
    shifts = [[(rng.randint(-3, 3) if pbc[i] else 0) for i in range(3)] for _ in range(n)]
    return {"fn": "com", "cell": cell, "positions": pos, "numbers": [rng.choice(SPECIES) for _ in range(n)], "pbc": pbc,
            "shifts": shifts, "translate": [dy(rng, -6, 6) for _ in range(3)], "class": kind}


GENS = {"frame": gen_frame, "wrap": gen_wrap, "snap": gen_snap, "mincell": gen_mincell, "swap": gen_swap,
        "complete": gen_complete, "moments": gen_moments, "com": gen_com}
COUNTS = {"quick": {"frame": 160, "wrap": 240, "snap": 80, "mincell": 480, "swap": 144, "complete": 150, "moments": 192, "com": 320},
          "thorough": {"frame": 1200, "wrap": 2000, "snap": 500, "mincell": 4800, "swap": 720, "complete": 1200, "moments": 1600, "com": 3200}}


# ---------------------------------------------------------------------------------------------
# the property's own predicate, evaluated on the implementation's outputs
# ---------------------------------------------------------------------------------------------
def Lof(c, key="L"):
    return Fr(int(c[key][0]), int(c[key][1]))


def inertia_x(ws, ps, c):
    I = [[Fr(0)] * 3 for _ in range(3)]
    for w, p in zip(ws, ps):
        d = [p[i] - c[i] for i in range(3)]
        r2 = dot(d, d)
        for i in range(3):
            for j in range(3):
                I[i][j] += w * ((r2 if i == j else 0) - d[i] * d[j])
    return I


def predicate(c, r):
    """list of violated clauses of C20 on this case (empty = the property holds here)"""
    bad = []
    if "error" in r:
        return ["raises " + r["error"]]
    fn = c["fn"]
    if r.get("history_same") is False:
        bad.append("the helper answered differently when called a second time with the same arguments in the same process "
                   "(after a call with other scalar arguments on the same structure): not a function of its input")
    if fn == "frame":
        if not finite([r["rt_cart"], r["rt_scaled"]]):
            return ["non-finite output"]
        if r.get("inplace_edit_ok") is False:
            bad.append("to_scaled/to_cartesian answer for the OLD values after the caller edited the same cell / position arrays in place")
        if not lclose(c["positions"], r["rt_cart"]):
            bad.append("to_cartesian(to_scaled(p)) != p")
        if not lclose(c["scaled"], r["rt_scaled"]):
            bad.append("to_scaled(to_cartesian(s)) != s")
        if not r["inputs_unchanged"]:
            bad.append("to_scaled/to_cartesian (wrap=False) modified an input array")
    elif fn == "wrap":
        if not finite([r["unwrapped"], r["wrapped"]]):
            return ["non-finite output"]
        pbc = expand(c["pbc"])
        fc = fmat(c["cell"])
        for u, w, p, cw in zip(r["unwrapped"], r["wrapped"], c["positions"], r["cart_of_wrapped"]):
            sc = 1.0 + max(abs(x) for x in u)
            for i in range(3):
                if not pbc[i]:
                    if u[i] != w[i]:
                        bad.append("wrapping changed a non-periodic component")
                else:
                    d = u[i] - w[i]
                    if abs(d - round(d)) > TOLF * sc:
                        bad.append("wrapping changed a periodic component by a non-integer")
                    near = abs(u[i] - round(u[i])) <= TOLF * sc
                    if not (0.0 <= w[i] <= 1.0 and (w[i] < 1.0 or near)):
                        bad.append("wrapped periodic component outside [0,1)")
            # the wrapped atom is the same atom up to a lattice vector of the periodic directions
            ds = to_scaled_x(fc, [F(a) - F(b) for a, b in zip(p, cw)])
            for i in range(3):
                lim = TOLF * sc * 10
                if (pbc[i] and abs(ds[i] - round(ds[i])) > lim) or (not pbc[i] and abs(ds[i]) > lim):
                    bad.append("wrapped position differs from the original by a non-lattice vector")
        if not r["nowrap_same"]:
            bad.append("pbc changed the result although wrap=False")
        if not r["inputs_unchanged"]:
            bad.append("to_scaled(wrap=True) modified an input array")
    elif fn == "snap":
        if not finite(r["out"]):
            return ["non-finite output"]
        prec = c.get("precision", 1e-5)
        for s, o in zip(c["scaled"], r["out"]):
            for a, b in zip(s, o):
                d = a - b
                if not (0.0 <= b < 1.0):
                    bad.append("get_wrapped_positions result outside [0,1)")
                if abs(d - round(d)) >= prec:
                    bad.append("get_wrapped_positions moved a coordinate by more than precision from an integer shift")
    elif fn == "mincell":
        if not finite([r["cell"], r["positions"], r["scaled"]]):
            return ["non-finite output"]
        ax = c["axis"]
        L = Lof(c)
        fc = fmat(c["cell"])
        pos = [fvec(p) for p in c["positions"]]
        n = len(pos)
        if r["numbers"] != c["numbers"] or len(r["positions"]) != n:
            bad.append("atoms / species differ")
        if r["pbc"] != [bool(x) for x in c["pbc"]]:
            bad.append("pbc differs")
        if not (r["input_unchanged"] and r["new_object"]):
            bad.append("input system was modified / not a new Atoms")
        scale = 1.0 + max(abs(float(x)) for p in pos for x in p)
        if len(r["positions"]) == n:
            for i in range(1, n):
                for k in range(3):
                    if not close((r["positions"][i][k] - r["positions"][0][k]), float(pos[i][k] - pos[0][k]), scale):
                        bad.append("mutual displacements changed")
                        break
        for i in range(3):
            if i != ax and r["cell"][i] != c["cell"][i]:
                bad.append("a cell vector other than the chosen axis changed")
        cn = fvec(r["cell"][ax])
        co = fc[ax]
        cr = cross(cn, co)
        cl = float(dot(co, co))
        if max(abs(float(x)) for x in cr) > TOLF * (1 + cl) or dot(cn, co) <= 0:
            bad.append("new axis vector not parallel to the old one")
        ext = exact_extent(c["cell"], c["positions"], ax, L)
        ms = F(c["min_size"])
        want2 = max(ext * ext, ms * ms)
        if not close(dot(cn, cn), want2, 1.0 + float(want2)):
            bad.append("axis length is not max(extent, min_size)")
        comps = [s[ax] for s in r["scaled"]]
        sc2 = 1.0 + max(abs(x) for x in comps)
        if min(comps) < -TOLF * sc2 * 10 or max(comps) > 1 + TOLF * sc2 * 10:
            bad.append("an atom lies outside the minimized cell along the axis")
        if float(ext) < float(ms) * (1 - 1e-12) and not close(min(comps) + max(comps), 1.0, sc2 * 10):
            bad.append("padded cell: atoms not centred")
        thick = r.get("thickness")
        if thick is not None:
            # get_thickness reads wrapped coordinates along a periodic axis
            cs = [to_scaled_x(fc, p)[ax] for p in pos]
            if c["pbc"][ax]:
                boundary = any(abs(float(x - round(x))) <= 1e-9 for x in cs)
                cs = [x - math.floor(x) for x in cs]
            else:
                boundary = False
            want = (max(cs) - min(cs)) * L
            if not boundary and not close(thick, want, 1.0 + float(want)):
                bad.append("get_thickness is not the atomic extent")
    elif fn == "swap":
        a, b = c["a"], c["b"]
        cell = [list(x) for x in c["cell"]]
        cell[a], cell[b] = cell[b], cell[a]
        pbc = [bool(x) for x in c["pbc"]]
        pbc[a], pbc[b] = pbc[b], pbc[a]
        if r["cell"] != cell:
            bad.append("cell vectors not exchanged")
        if r["pbc"] != pbc:
            bad.append("pbc flags not exchanged")
        if r["positions"] != c["positions"] or r["numbers"] != c["numbers"]:
            bad.append("atoms moved")
    elif fn == "complete":
        if not finite(r["out"]):
            return ["non-finite output"]
        o = fvec(r["out"])
        a = fvec(c["a"]); b = fvec(c["b"])
        ln = F(c["length"])
        na = math.sqrt(float(dot(a, a))); nb = math.sqrt(float(dot(b, b)))
        if abs(float(dot(o, a))) > TOLF * (1 + na * float(ln)) * 10 or abs(float(dot(o, b))) > TOLF * (1 + nb * float(ln)) * 10:
            bad.append("complete_cell result not orthogonal to both inputs")
        if not close(dot(o, o), ln * ln, 1 + float(ln * ln)):
            bad.append("complete_cell result does not have the requested length")
        if not r["inputs_unchanged"]:
            bad.append("complete_cell modified an input")
    elif fn == "moments":
        if not finite([r["evals"], r["evecs"], r["com"]]):
            return ["non-finite output"]
        weight = c.get("weight", True)
        ws = fvec(r["masses"]) if weight else [Fr(1)] * len(c["positions"])
        I = inertia_x(ws, [fvec(p) for p in c["positions"]], fvec(r["com"]))
        nI = 1.0 + max(abs(float(x)) for row in I for x in row)
        ev = np.array(r["evecs"], dtype=float)
        If = np.array([[float(x) for x in row] for row in I])
        for k in range(3):
            v = ev[:, k]
            if np.abs(If @ v - r["evals"][k] * v).max() > TOLF * nI:
                bad.append("returned pair is not an eigenpair of the inertia tensor about the centre of mass")
                break
        if np.abs(ev.T @ ev - np.eye(3)).max() > TOLF:
            bad.append("eigenvectors not orthonormal")
        if "evals_translated" in r and not lclose([r["evals"]], [r["evals_translated"]], 1e-8):
            bad.append("moments about the centre changed under a rigid translation (no periodic axis)")
    elif fn == "com":
        bad += com_predicate(c, r)
    return sorted(set(bad))


def com_predicate(c, r):
    """com-metamorphic: conclusions of ComReals.com_lattice_shift_invariant / com_translation_equivariant
    (and of the non-periodic mean) evaluated on the implementation.  Axes whose mean resultant is
    (nearly) zero are outside the theorems' hypothesis and skipped."""
    bad = []
    if not finite([r["com"], r.get("com_shifted", []), r.get("com_translated", [])]):
        return ["non-finite output"]
    fc = fmat(c["cell"])
    pbc = [bool(x) for x in c["pbc"]]
    # the circular mean is equivariant whenever the resultant is non-zero; numerically its error grows like eps / resultant:
    # axes are skipped only below 1e-6, and the tolerance is widened in proportion below 1e-2
    ok_axis = [(not pbc[i]) or r["resultant_rel"][i] >= 1e-6 for i in range(3)]
    widen = [1.0 if not pbc[i] else max(1.0, 1e-2 / max(r["resultant_rel"][i], 1e-6)) for i in range(3)]
    lim = 1e-9
    if "com_shifted" in r:
        ds = to_scaled_x(fc, [F(a) - F(b) for a, b in zip(r["com_shifted"], r["com"])])
        for i in range(3):
            if ok_axis[i] and abs(float(ds[i] - round(ds[i]))) > lim * 10 * widen[i]:
                bad.append("centre of mass changed when atoms were shifted by lattice vectors")
            if ok_axis[i] and not pbc[i] and abs(float(ds[i])) > lim * 10:
                bad.append("centre of mass changed when atoms were shifted by lattice vectors")
    if "com_translated" in r:
        t = fvec(c["translate"])
        ds = to_scaled_x(fc, [F(a) - F(b) - tt for a, b, tt in zip(r["com_translated"], r["com"], t)])
        for i in range(3):
            scale = 1.0 + abs(float(to_scaled_x(fc, t)[i]))
            if not ok_axis[i]:
                continue
            if pbc[i] and abs(float(ds[i] - round(ds[i]))) > lim * 10 * scale * widen[i]:
                bad.append("centre of mass does not follow a rigid translation modulo the lattice")
            if not pbc[i] and abs(float(ds[i])) > lim * 10 * scale:
                bad.append("centre of mass does not follow a rigid translation (non-periodic axis)")
    return bad


# ---------------------------------------------------------------------------------------------
# correspondence terms (evaluated inside Coq)
# ---------------------------------------------------------------------------------------------
def coq_term(c, r):
    """closed Coq term of type bool, or None when the case has no model-side comparison
    (implementation raised / non-finite output -> judged by the predicate only)"""
    if "error" in r:
        return None
    fn = c["fn"]
    t = q(TOL)
    try:
        if fn == "frame":
            return "andb (agree_to_scaled %s %s %s %s) (agree_to_cartesian %s %s %s %s)" % (
                t, qm(c["cell"]), ql(c["positions"]), ql(r["to_scaled"]), t, qm(c["cell"]), ql(c["scaled"]), ql(r["to_cartesian"]))
        if fn == "wrap":
            return "andb (agree_to_scaled_wrap %s %s %s %s %s %s) (agree_to_cartesian_wrap %s %s %s %s %s)" % (
                t, qm(c["cell"]), qpbc(c["pbc"]), ql(c["positions"]), ql(r["unwrapped"]), ql(r["wrapped"]),
                t, qm(c["cell"]), qpbc(c["pbc"]), ql(c["scaled"]), ql(r["cart_wrap"]))
        if fn == "snap":
            return "agree_wrapped_snap %s %s %s" % (q(c.get("precision", 1e-5)), ql(c["scaled"]), ql(r["out"]))
        if fn == "mincell":
            L = C.qlit(Lof(c))
            return "andb (agree_min_cell %s %s %s %s %s %s %s %s %s %s %s %s) (agree_thickness %s %s %s %s %s %s %s)" % (
                t, qm(c["cell"]), qb3(c["pbc"]), qzl(c["numbers"]), ql(c["positions"]), qax(c["axis"]), q(c["min_size"]), L,
                qm(r["cell"]), qb3(r["pbc"]), qzl(r["numbers"]), ql(r["positions"]),
                t, qm(c["cell"]), qb3(c["pbc"]), ql(c["positions"]), qax(c["axis"]), L, q(r["thickness"]))
        if fn == "swap":
            return "agree_swap_basis (mkSys %s %s %s) %s %s %s %s %s" % (
                qm(c["cell"]), qb3(c["pbc"]), ql(c["positions"]), qax(c["a"]), qax(c["b"]), qm(r["cell"]), qb3(r["pbc"]), ql(r["positions"]))
        if fn == "complete":
            return "agree_complete_cell %s %s %s %s %s %s" % (t, qv(c["a"]), qv(c["b"]), q(c["length"]), C.qlit(Lof(c, "N")), qv(r["out"]))
        if fn == "moments":
            weight = c.get("weight", True)
            ws = r["masses"] if weight else [1.0] * len(c["positions"])
            return "andb (agree_moments %s %s %s %s %s %s) (agree_com_nonperiodic %s %s %s %s %s %s)" % (
                t, C.listlit([q(w) for w in ws]), ql(c["positions"]), qv(r["com"]), qv(r["evals"]), qm(r["evecs"]),
                t, qm(c["cell"]), qb3(c["pbc"]), C.listlit([q(w) for w in r["masses"]]), ql(c["positions"]), qv(r["com"]))
        if fn == "com":
            # periodic axes: the certified interval checker (ComInterval.com_check) on the returned centre, backward error
            # 1e-9 x total mass; axes with a mean resultant below 1e-6 are outside the theorems' hypothesis and skipped
            skip = [bool(c["pbc"][i]) and r["resultant_rel"][i] < 1e-6 for i in range(3)]
            eps = q(1e-9 * sum(abs(w) for w in r["masses"]))
            ws = C.listlit([q(w) for w in r["masses"]])
            return "andb (agree_com_nonperiodic %s %s %s %s %s %s) (agree_com_periodic %s %s %s %s %s %s %s)" % (
                t, qm(c["cell"]), qb3(c["pbc"]), ws, ql(c["positions"]), qv(r["com"]),
                qm(c["cell"]), qb3(c["pbc"]), qb3(skip), ws, ql(c["positions"]), qv(r["com"]), eps)
    except (ValueError, OverflowError, TypeError):
        return None
    return None


# ---------------------------------------------------------------------------------------------
# running, shrinking
# ---------------------------------------------------------------------------------------------
def strip(c):
    return {k: v for k, v in c.items() if k not in ("id", "class", "origin")}


def case_hash(c):
    return hashlib.sha256(json.dumps(strip(c), sort_keys=True).encode()).hexdigest()


def run_impl(cases):
    """run the implementation on the cases (parallel chunks); returns {id: result}"""
    if not cases:
        return {}, set()
    nchunk = max(1, min(C.NCPU, len(cases) // 20 or 1))
    chunks = [cases[i::nchunk] for i in range(nchunk)]
    outs = C.impl_run_parallel("c20_impl", [{"cases": ch} for ch in chunks])
    res = {}
    modes = set()
    for o in outs:
        modes.add(o["mode"])
        for r in o["results"]:
            res[r["id"]] = r
    return res, modes


def run_one(c):
    c = dict(c, id=0)
    res, _ = run_impl([c])
    return res[0]


def coq_fails(case, r, name="C20_one"):
    term = coq_term(case, r)
    if term is None:
        return None
    failing, errors = C.coq_case_files(name, PREAMBLE, [(0, term)])
    if errors:
        return "coq-error: " + errors[0]["out"][-400:]
    return bool(failing)


def shrink(c, still_fails):
    """greedy: drop atoms, then simplify pbc, while the failure persists"""
    cur = dict(c)
    if "positions" in cur and cur["fn"] in ("frame", "wrap", "mincell", "swap", "moments", "com"):
        i = 0
        while len(cur["positions"]) > 1 and i < len(cur["positions"]):
            cand = dict(cur)
            for key in ("positions", "numbers", "scaled", "shifts"):
                if key in cand and isinstance(cand[key], list) and len(cand[key]) == len(cur["positions"]):
                    cand[key] = cand[key][:i] + cand[key][i + 1:]
            if still_fails(cand):
                cur = cand
            else:
                i += 1
    if isinstance(cur.get("pbc"), list) and cur["fn"] not in ("swap",):
        for i in range(3):
            if cur["pbc"][i]:
                cand = dict(cur, pbc=[False if j == i else cur["pbc"][j] for j in range(3)])
                if cand.get("shifts"):
                    cand["shifts"] = [[0 if j == i else s[j] for j in range(3)] for s in cand["shifts"]]
                if still_fails(cand):
                    cur = cand
    return cur


def nontrivial(c, r):
    """did this case exercise something beyond the default branch?"""
    fn = c["fn"]
    if "error" in r:
        return False
    if fn == "frame":
        return any(x != 0 for i, row in enumerate(c["cell"]) for j, x in enumerate(row) if i != j) or len(c["positions"]) > 1
    if fn == "wrap":
        return any(u[i] != w[i] for u, w in zip(r["unwrapped"], r["wrapped"]) for i in range(3))
    if fn == "snap":
        return any(a != b for s, o in zip(c["scaled"], r["out"]) for a, b in zip(s, o))
    if fn == "swap":
        return c["a"] != c["b"]
    return True


def load_corpus():
    out = []
    for p in sorted(glob.glob(os.path.join(C.VERIF, "corpus", "C20", "*.json"))):
        with open(p) as f:
            d = json.load(f)
        for c in (d if isinstance(d, list) else [d]):
            c = dict(c)
            c["origin"] = "corpus/" + os.path.basename(p)
            out.append(c)
    return out


def run(ctx):
    ctx.add_trusted(
        "coq/Geometry/Frame.v: hand-written exact-arithmetic (Q) model of to_scaled (Cramer's rule for np.linalg.solve), to_cartesian, "
        "wrapping, get_wrapped_positions, get_thickness, get_minimized_cell, swap_basis, complete_cell, the non-periodic centre of mass "
        "and the inertia tensor; norms enter as an argument L with the hypothesis L*L == c.c (no square roots)",
        "agreement relations agree_* of Frame.v (Coq functions over Q, tolerance 1e-9 passed explicitly; discrete facts exact)",
        "coq/Geometry/ComReals.v depends on the axioms of Coq's standard-library real numbers (listed by Print Assumptions below); "
        "arctan2 is characterised by its defining relation (cos t * R = xi, sin t * R = zeta, R > 0), not defined",
        "periodic centre of mass: no executable model -- tie to the code is the evaluation of the theorems' conclusions on the "
        "implementation (com-metamorphic cases)",
        "np.linalg.eigh is not modelled: eigenpairs are certificate-checked a posteriori against the exact tensor (eig_cert_ok)",
        "ASE Atoms (get_scaled_positions, set_cell, constructor with scaled_positions) is part of the observed implementation, not modelled separately",
    )
    ctx.assumptions += [
        "det(cell) != 0 (condition number <= 1e4 in the runs, <= 1e3 for get_minimized_cell inputs), 1..10 atoms in runs (theorems: any number)",
        "min_size > 0; the system passed to get_minimized_cell is non-empty",
        "float rounding is outside the model: comparisons through np.linalg.solve / norm use a relative tolerance of 1e-9",
        "periodic centre of mass: mean resultant non-zero on the axis considered (runs skip axes with |resultant| < 1e-6 of the total mass and widen the tolerance in proportion to 1e-2 / resultant below 1e-2; one case in five is nearly balanced on purpose)",
    ]
    broken = None
    pres = C.prove_property("C20", [])
    ctx.record_proof(pres)
    if pres["failed"]:
        broken = {"stage": "prove", "file": pres["failed"]["path"], "error": pres["failed"]["out"][-1500:]}

    # ---- cases: corpus first, then the structured stream ---------------------------------------
    cases = load_corpus()
    counts = dict(COUNTS[ctx.tier])
    scale = float(os.environ.get("VERIF_C20_SCALE", "1"))
    for fn, n in counts.items():
        for k in range(int(n * scale)):
            c = GENS[fn](ctx.rng, k)
            c["origin"] = "generated"
            cases.append(c)
    for i, c in enumerate(cases):
        c["id"] = i
    res, modes = run_impl(cases)
    ctx.coverage["ext_mode"] = sorted(modes)

    terms = []
    for c in cases:
        t = coq_term(c, res[c["id"]])
        if t is not None:
            terms.append((c["id"], t))
    failing, errors = C.coq_case_files("C20", PREAMBLE, terms, per_file=60 if ctx.tier == "quick" else 150)
    failing = set(failing)

    # ---- verdicts -----------------------------------------------------------------------------------
    by_fn = {}
    seen = set()
    nontriv = 0
    pred_fail = []
    tags = {}
    for c in cases:
        r = res[c["id"]]
        d = by_fn.setdefault(c["fn"], {"cases": 0, "coq_compared": 0, "coq_disagree": 0, "predicate_fail": 0, "impl_raised": 0})
        d["cases"] += 1
        if "error" in r:
            d["impl_raised"] += 1
        h = case_hash(c)
        if h not in seen:
            seen.add(h)
            if nontrivial(c, r):
                nontriv += 1
        bad = predicate(c, r)
        if bad:
            d["predicate_fail"] += 1
            pred_fail.append((c, r, bad))
        if c["id"] in failing:
            d["coq_disagree"] += 1
        cls = c.get("class") or ("corpus" if c.get("origin") != "generated" else "(no cell: %s)" % c["fn"])
        tags[cls] = tags.get(cls, 0) + 1
    for cid, _ in terms:
        by_fn[cases[cid]["fn"]]["coq_compared"] += 1

    samples = []
    for fn in GENS:
        for c in cases:
            if c["fn"] == fn and c["origin"] == "generated":
                samples.append({"fn": fn, "class": c.get("class"), "n_atoms": len(c.get("positions", c.get("scaled", []))),
                                "pbc": c.get("pbc"), "axis": c.get("axis"), "min_size": c.get("min_size")})
                break
    ctx.add_cases(len(cases), nontriv, samples)
    ctx.coverage["rule"] = (
        "every case runs the implementation and (i) is compared inside Coq with the Q model by the agree_* relation of its function "
        "(com cases: only the non-periodic components have a model) and (ii) is judged by the property's own predicate on the "
        "implementation's outputs. distinct_nontrivial counts distinct canonical inputs (sha256 of the argument JSON) that left the "
        "default branch: frame: non-diagonal cell or more than one atom; wrap: at least one coordinate actually wrapped; snap: at least "
        "one coordinate changed; swap: a != b; mincell/complete/moments/com: every case that returned")
    mc = [c for c in cases if c["fn"] == "mincell"]
    ctx.coverage["input_distribution"] = {
        "per_function": by_fn,
        "cell_classes": tags,
        "atoms_per_case": {str(n): sum(1 for c in cases if len(c.get("positions", [])) == n) for n in range(1, 11)},
        "pbc_patterns": {str(p): sum(1 for c in cases if c.get("pbc") == p) for p in
                         [[a, b, cc] for a in (False, True) for b in (False, True) for cc in (False, True)] + [True, False]},
        "mincell_axes": {str(a): sum(1 for c in mc if c["axis"] == a) for a in range(3)},
        "mincell_padded": sum(1 for c in mc if exact_extent(c["cell"], c["positions"], c["axis"], Lof(c)) < F(c["min_size"])),
        "mincell_exact_ties": sum(1 for c in mc if exact_extent(c["cell"], c["positions"], c["axis"], Lof(c)) == F(c["min_size"])),
        "mincell_min_sizes": sorted(set(c["min_size"] for c in mc))[:20],
        "coordinates": "dyadic grid k*2^-12 (|x|<64) for cells/positions/scaled inputs; rotated classes apply a rational rotation "
                       "(integer quaternion, |q_i|<=3) and round to binary64, the model receives the exact value of each float",
        "com_metamorphic_cases": by_fn.get("com", {}).get("cases", 0),
    }
    ctx.coverage["exhaustive"] = False

    known = C.load_known("C20")

    def report(c, r, bad, kind):
        key = "%s:%s" % (c["fn"], bad[0] if bad else kind)
        k = C.known_match(known, key)
        if k:
            ctx.known_finding(k)
            return False
        def still(cand):
            rr = run_one(cand)
            return bool(predicate(cand, rr))
        small = shrink(c, still) if bad else c
        rr = run_one(small)
        ctx.violation({"kind": kind, "case": strip(small), "violated": predicate(small, rr) or bad, "implementation_output": rr,
                       "origin": c.get("origin"), "key": key, "broken_obligation": broken,
                       "call": "matid.geometry." + {"frame": "to_scaled/to_cartesian", "wrap": "to_scaled(wrap=True)", "snap": "get_wrapped_positions",
                                                    "mincell": "get_minimized_cell", "swap": "swap_basis", "complete": "complete_cell",
                                                    "moments": "get_moments_of_inertia", "com": "get_center_of_mass"}[c["fn"]]},
                      found_input=True)
        return True

    reported = set()
    for c, r, bad in pred_fail:
        if c["fn"] in reported:
            continue
        if report(c, r, bad, "property-fails-on-implementation"):
            reported.add(c["fn"])
    ctx.coverage["predicate_failures"] = [{"fn": c["fn"], "violated": bad, "origin": c.get("origin")} for c, r, bad in pred_fail[:20]]

    # model/implementation disagreements that the predicate did not already explain
    unexplained = [cid for cid in sorted(failing) if cases[cid]["fn"] not in reported]
    for cid in unexplained[:1]:
        c = cases[cid]
        def still(cand):
            rr = run_one(cand)
            return coq_fails(cand, rr) is True
        small = shrink(c, still)
        rr = run_one(small)
        bad = predicate(small, rr)
        ctx.violation({"kind": "model-implementation-disagreement", "broken": "agreement relation agree_* of Frame.v for " + c["fn"],
                       "case": strip(small), "implementation_output": rr, "violated": bad, "broken_obligation": broken,
                       "note": "the Coq model and the implementation differ on this input" +
                               ("" if bad else "; the property's predicate itself holds on it")},
                      found_input=bool(bad))
    ctx.coverage["coq_disagreements"] = len(failing)
    if errors:
        ctx.violation({"kind": "correspondence-not-evaluable", "broken": "case files did not compile", "errors": errors[:2]},
                      found_input=False)
    if broken and not ctx.violations:
        ctx.violation({"kind": "proof-obligation-broken", "broken": broken,
                       "searched": "%d implementation runs judged by the property's predicate: no failing input" % len(cases)},
                      found_input=False)


def replay(ctx, rep):
    c = rep.get("case")
    if not c:
        print("replay: no input recorded (%s)" % rep.get("broken"))
        pres = C.prove_property("C20", [])
        if pres["failed"]:
            ctx.violation(rep, found_input=False)
        return
    r = run_one(c)
    bad = predicate(c, r)
    cf = coq_fails(c, r, "C20_replay")
    if bad or cf:
        rep = dict(rep, violated=bad, implementation_output=r, coq_disagrees=cf)
        ctx.violation(rep, found_input=bool(bad) or rep.get("found_failing_input", False))
    else:
        print("replay: property holds on this input now")
