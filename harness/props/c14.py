"""C14 -- built-in space-group tables agree with the International Tables, all 230 groups.

translate (symmetry_data.py -> Generated/SG*.v, spglib reference, untrusted certificates)
-> prove (per-group reflection instances by vm_compute, ChkAll, Inst/C14Inst.v, Properties/C14.v)
-> correspond (round trip of the translator against the imported module; the property's predicates
   evaluated by an independent Python implementation on the imported tables; analyzer lookups on one
   crystal per group; spglib letters on probe crystals for the normalizer permutations).
"""
import os
import sys

from lib import common as C
from lib import symtables as S
from lib import crystals as K

LEVEL = "proof"
STATIC = S.STATIC + ["Reflect/GroupChecksProofs.vo", "Reflect/NormChecksProofs.vo", "Reflect/InfoAgree.vo", "Reflect/CertProofs.vo"]

CLAUSE_NAMES = ["letters", "exprs", "group", "orbits", "info", "proper_perms"]
NORM_CLAUSES = ["shape", "normalises", "metric", "handedness", "perm_wellformed", "letters"]


def canonical_sha_ast(tables):
    import hashlib, json
    from fractions import Fraction

    def canon(x):
        if isinstance(x, dict):
            return {str(k): canon(v) for k, v in sorted(x.items(), key=lambda kv: str(kv[0]))}
        if isinstance(x, (set, frozenset)):
            return sorted(canon(v) for v in x)
        if isinstance(x, (list, tuple)):
            return [canon(v) for v in x]
        if isinstance(x, Fraction):
            return "%d/%d" % (x.numerator, x.denominator)
        return x
    h = hashlib.sha256()
    for obj in tables:
        h.update(json.dumps(canon(obj), sort_keys=True).encode())
    return h.hexdigest()


def offenders_from_build(build):
    """table coordinates failing a clause, from the Coq diagnostics of the failing groups"""
    groups = sorted({int(f["path"][-5:-2]) for f in build["failed"] if f["path"].startswith("Generated/Chk") and f["path"][-5:-2].isdigit()})
    if not groups:
        return [], {}
    diag = S.diagnose(groups)
    offs = []
    for sg, d in diag.items():
        if "error" in d or "clauses" not in d:
            offs.append({"sg": sg, "clause": "diagnostic-failed", "detail": d.get("error", d.get("parse_error", ""))[:300]})
            continue
        for (l, idx) in d.get("exprs", []):
            offs.append({"sg": sg, "clause": "exprs", "letter": l, "index": idx})
        for l in d.get("orbits", []):
            offs.append({"sg": sg, "clause": "orbits", "letter": l})
        for k, row in enumerate(d.get("norms", [])):
            for name, okb in zip(NORM_CLAUSES, row):
                if not okb:
                    offs.append({"sg": sg, "clause": "norm-" + name, "k": k})
        for name, okb in zip(CLAUSE_NAMES, d["clauses"]):
            if not okb and name in ("letters", "group", "info", "proper_perms"):
                offs.append({"sg": sg, "clause": name})
    return offs, diag


def key_of(o):
    parts = ["table", o["clause"], str(o["sg"])]
    if "letter" in o:
        parts.append(o["letter"])
    if "index" in o:
        parts.append(str(o["index"]))
    if "k" in o:
        parts.append("n%d" % o["k"])
    return ":".join(parts)


def impl_predicates(offs):
    p = {"exprs": [], "orbits": [], "norms": []}
    for o in offs:
        if o["clause"] == "exprs":
            p["exprs"].append([o["sg"], o["letter"], o["index"]])
        elif o["clause"] == "orbits":
            p["orbits"].append([o["sg"], o["letter"]])
        elif o["clause"].startswith("norm-"):
            if [o["sg"], o["k"]] not in p["norms"]:
                p["norms"].append([o["sg"], o["k"]])
    return C.impl_run("c14_impl", {"predicates": p})["predicates"]


def run(ctx):
    ctx.add_trusted("translator/gen_symdata.py + pyast.py (ast, fail-closed); round trip against the imported module checked each run",
                    "reference data: spglib Hall database (first Hall number per group), snapshot sha in translator/ref_spglib_snapshot.json",
                    "32-row point-group census (trace, det) and number ranges of the crystal systems, transcribed from ITA (Reflect/NormChecks.v)",
                    "certificate generator translator/gen_certs.py is NOT trusted (Coq re-checks every certificate)")
    ctx.assumptions += ["the standard setting of a space group is spglib's first Hall number for it",
                        "'generic lattice of the system' = every metric in the span of Reflect/NormChecks.metric_basis"]
    build = S.build()
    ctx.coverage["tables"] = build["meta"]
    ctx.coverage["tables_build"] = {"cached": build["cached"], "wall_s": round(build.get("wall_s", 0), 1)}
    known = C.load_known("C14")
    n_inst = 230 * 10
    broken = build["broken"]
    offs, diag = ([], {})
    if build["tables"] is None:
        ctx.add_obligations(n_inst, 0, "per-group reflection instances (translation failed)")
    else:
        offs, diag = offenders_from_build(build) if not build["ok"] else ([], {})
        failed_groups = {o["sg"] for o in offs}
        ctx.add_obligations(n_inst, n_inst if build["ok"] else max(0, n_inst - 10 * max(1, len(failed_groups))),
                            "per-group reflection instances: 230 groups x {letters, exprs, group, orbits, info, isometries, norms, proper_perms, perm_inverses, letter_codes} by vm_compute")
    pres = None
    if build["ok"]:
        pres = C.prove_property("C14", [("Inst/C14Inst.v", None)], newer_than=S.all_vo_mtime(), timeout=3000)
        ctx.record_proof(pres)
        if pres["failed"]:
            broken = {"stage": "prove", "file": pres["failed"]["path"], "error": pres["failed"]["out"][-1500:]}
    else:
        ctx.add_obligations(len(C.theorem_names(os.path.join(C.COQ, "Properties/C14.v"))), 0, "theorems of Properties/C14.v (not attempted: instances failed)")

    # ---------------- the property's own predicates on the implementation, for the offenders ----------
    reported = set()
    if offs:
        pr = impl_predicates(offs)
        bad_keys = {}
        for sg, l, idx, r in pr["exprs"]:
            if not r["ok"]:
                bad_keys["table:exprs:%d:%s:%d" % (sg, l, idx)] = r
        for sg, l, r in pr["orbits"]:
            if not r["ok"]:
                bad_keys["table:orbits:%d:%s" % (sg, l)] = r
        normres = {(sg, k): r for sg, k, r in pr["norms"]}
        for o in offs:
            key = key_of(o)
            conf = None
            if o["clause"] in ("exprs", "orbits"):
                conf = bad_keys.get(key)
            elif o["clause"].startswith("norm-"):
                r = normres.get((o["sg"], o["k"]))
                cl = o["clause"][5:]
                if r is not None and cl in r and not r[cl]:
                    conf = r
                elif r is not None and cl == "letters" and not r["normalises"]:
                    conf = r
            o["confirmed_on_implementation"] = conf is not None
            o["key"] = key
            k = C.known_match(known, key)
            if k:
                ctx.known_finding(k)
                continue
            cls = o["clause"]
            if cls in reported:
                continue
            reported.add(cls)
            ctx.violation({"kind": "table-entry-violates-property", "coordinate": o, "key": key,
                           "predicate_on_imported_table": conf, "broken_obligation": broken,
                           "all_offenders_of_this_clause": [key_of(x) for x in offs if x["clause"] == cls][:200]},
                          found_input=conf is not None, tag=key.replace(":", "-"))
        ctx.coverage["offenders"] = [dict(o) for o in offs][:300]
    elif broken:
        ctx.violation({"kind": "proof-obligation-broken", "broken": broken,
                       "searched": "no failing table coordinate could be computed"}, found_input=False)

    # ---------------- correspondence --------------------------------------------------------------------
    if build["tables"] is None:
        return
    info, wyck, norms = build["tables"]
    # (a) translator round trip
    dump = C.impl_run("c14_impl", {"dump": True})
    ast_sha = canonical_sha_ast(build["tables"])
    ctx.coverage["translator_round_trip"] = {"ast_sha": ast_sha, "imported_sha": dump["dump_sha"], "equal": ast_sha == dump["dump_sha"]}
    ctx.add_cases(1, 1)
    round_trip_differs = ast_sha != dump["dump_sha"]
    # (b) independent evaluation of the predicates on the imported tables
    allex = [[sg, l, i] for sg in range(1, 231) for l in wyck[sg] if l != "translations" for i in range(len(wyck[sg][l]["expressions"]))]
    allorb = [[sg, l] for sg in range(1, 231) for l in wyck[sg] if l != "translations"]
    allnorm = [[sg, k] for sg in sorted(norms) for k in range(len(norms[sg]))]
    if ctx.tier == "quick":
        small = [x for x in allorb if len(wyck[x[0]][x[1]]["expressions"]) * (len(wyck[x[0]]["translations"]) + 1) <= 24]
        big = [x for x in allorb if x not in small]
        orb = small + ctx.rng.sample(big, min(40, len(big)))
    else:
        orb = allorb
    chunks = [{"predicates": {"exprs": allex[i::C.NCPU], "orbits": orb[i::C.NCPU], "norms": allnorm[i::C.NCPU]}} for i in range(C.NCPU)]
    res = C.impl_run_parallel("c14_impl", chunks)
    coq_bad = {key_of(o) for o in offs}
    disagree = []
    n_eval = 0
    for r in res:
        r = r["predicates"]
        for sg, l, idx, v in r["exprs"]:
            n_eval += 1
            if v["ok"] == (("table:exprs:%d:%s:%d" % (sg, l, idx)) in coq_bad):
                disagree.append(["exprs", sg, l, idx, v])
        for sg, l, v in r["orbits"]:
            n_eval += 1
            if v["ok"] == (("table:orbits:%d:%s" % (sg, l)) in coq_bad):
                disagree.append(["orbits", sg, l, v])
        for sg, k, v in r["norms"]:
            n_eval += 1
            coq_fail = any(kk.startswith("table:norm-") and kk.endswith(":%d:n%d" % (sg, k)) and kk.split(":")[1] in
                           ("norm-shape", "norm-normalises", "norm-metric", "norm-handedness") for kk in coq_bad)
            if v["ok"] == coq_fail:
                disagree.append(["norms", sg, k, v])
    ctx.add_cases(n_eval, n_eval, [{"predicate": "expr", "coordinate": allex[0]}, {"predicate": "norm", "coordinate": allnorm[-1]}])
    ctx.coverage["predicate_agreement"] = {"evaluated": n_eval, "disagreements": disagree[:20]}
    # an entry on which the property's predicate FAILS on the tables matid actually imports although the source text passes
    # the Coq checkers (tables rewritten at import time): a failing table coordinate of the running library
    imported_bad = [d for d in disagree if isinstance(d[-1], dict) and d[-1].get("ok") is False]
    if imported_bad:
        d = imported_bad[0]
        coord = {"table": d[0], "sg": d[1]}
        coord.update({"letter": d[2], "expression": d[3]} if d[0] == "exprs" else ({"letter": d[2]} if d[0] == "orbits" else {"normalizer": d[2]}))
        ctx.violation({"kind": "imported-table-entry-violates-property", "coordinate": coord, "detail": d[-1],
                       "how": "import matid.data.symmetry_data and evaluate the C14 predicate (expression string = matrix/constant; closed orbit; normalizer "
                              "clauses) on the entry as held by the running library: it fails, although the literal in the source file satisfies it",
                       "others": [x[:4] for x in imported_bad[1:12]], "ast_sha": ast_sha, "imported_sha": dump["dump_sha"]}, found_input=True)
    elif round_trip_differs:
        ctx.violation({"kind": "translator-round-trip-differs", "broken": "tables as read with ast differ from the tables matid imports",
                       "ast_sha": ast_sha, "imported_sha": dump["dump_sha"],
                       "searched": "the C14 predicates hold on every entry of the tables as imported"}, found_input=False)
    elif disagree:
        ctx.violation({"kind": "coq-checker-vs-python-predicate-disagree", "broken": "correspondence: Reflect checkers vs independent predicates on the imported tables",
                       "cases": disagree[:20]}, found_input=False)
    # (c) analyzer lookups on one crystal per group, compared inside Coq with the proved values
    crystals = []
    disc = 0
    for sg in range(1, 231):
        cr, d = K.generate(sg, ctx.rng, build["tables"], max_atoms=100, tries=30)
        disc += d
        if cr is not None:
            crystals.append({"id": sg, "crystal": cr})
    outs = C.impl_run_parallel("c14_impl", [{"info": crystals[i::C.NCPU], "use_then_dump": True} for i in range(C.NCPU)])
    rows = [r for o in outs for r in o["info"]]
    # one analyzer object reused through set_system: same labels as a fresh analyzer
    stale = [r for r in rows if "reused" in r and "error" not in r and any(r["reused"].get(k) != r.get(k) for k in ("number", "system", "bravais", "pointgroup"))]
    ctx.coverage["analyzer_reuse_labels"] = {"checked": sum(1 for r in rows if "reused" in r), "differences": stale[:5]}
    if stale:
        r0 = stale[0]
        prev = None
        for o in outs:
            ids = [x["id"] for x in o["info"]]
            if r0["id"] in ids and ids.index(r0["id"]) > 0:
                prev = ids[ids.index(r0["id"]) - 1]
        byid = {c["id"]: c for c in crystals}
        ctx.violation({"kind": "labels-depend-on-analyzer-history", "history": "a = SymmetryAnalyzer(previous_crystal); a.get_crystal_system() ...; a.set_system(crystal): "
                       "crystal system / Bravais lattice / point group / number differ from a fresh analyzer's", "crystal": byid[r0["id"]]["crystal"], "sg": r0["id"],
                       "previous_crystal": byid[prev]["crystal"] if prev in byid else None, "fresh": {k: r0.get(k) for k in ("number", "system", "bravais", "pointgroup")},
                       "reused": r0["reused"]}, found_input=True)
    # the tables as imported must still be the translated tables after the library was used on these crystals
    changed = sorted({k for o in outs for k in o.get("tables_changed_by_use", [])})
    ctx.coverage["tables_unchanged_by_use"] = {"processes": len(outs), "entries_changed": changed[:20]}
    if changed or any(o.get("dump_sha_after_use") != ast_sha for o in outs):
        by_proc = [o for o in outs if o.get("tables_changed_by_use")]
        ctx.violation({"kind": "tables-modified-at-run-time", "entries_changed": changed[:40],
                       "history": "import matid; run SymmetryAnalyzer (conventional/primitive system, material id, get_wyckoff_sets_conventional(return_parameters=True), ...) on "
                                  "the crystals `crystals`; the module-level tables WYCKOFF_SETS / normalizers / SPACE_GROUP_INFO then differ from the source text "
                                  "(expression strings no longer equal to their matrices and constants for the listed entries)",
                       "crystals": [c for c in crystals if ("wyck:%d:" % c["crystal"].get("sg", -1)) in " ".join(changed)][:3] or crystals[:1],
                       "ast_sha": ast_sha, "sha_after_use": sorted({o.get("dump_sha_after_use") for o in outs})[:3]}, found_input=True)
    cases = []
    info_fail = []
    for r in rows:
        if "error" in r:
            info_fail.append(r)
            continue
        sg = r["id"]
        if r["number"] != sg:
            info_fail.append(dict(r, why="analyzer reports another group than the crystal was built in"))
            continue
        term = ('info_agrees %d%%Z "%s" "%s" "%s"' % (sg, r["system"], r["bravais"], r["pointgroup"]))
        cases.append((sg, term))
    pre = ("From Coq Require Import ZArith List String Bool.\nImport ListNotations.\nFrom MV Require Import Symmetry.Table Symmetry.Affine Reflect.GroupChecks Reflect.NormChecks Reflect.InfoAgree.\n"
           "From MVD Require Import Generated.SGAll.\nOpen Scope string_scope.\n"
           "Definition info_agrees (sg : Z) (sys br pg : string) : bool := info_agree (nth (Z.to_nat (sg - 1)) tables (mkSG 0 (mkRI \"\" \"\" \"\") [] [] [])) sys br pg.\n")
    failing, errors = C.coq_case_files("c14info", pre, cases)
    ctx.add_cases(len(cases), len(cases), [{"crystal_of_group": crystals[0]["id"], "atoms": len(crystals[0]["crystal"]["numbers"]), "impl": rows[0]}])
    ctx.coverage["input_distribution"] = {"crystals": len(crystals), "discarded_unstable_or_higher_symmetry": disc,
                                          "atoms_min_max": [min(len(c["crystal"]["numbers"]) for c in crystals), max(len(c["crystal"]["numbers"]) for c in crystals)]}
    for e in errors:
        ctx.violation({"kind": "case-file-failed", "broken": "correspondence c14info", "detail": e}, found_input=False)
    for sg in failing[:1]:
        cr = [c for c in crystals if c["id"] == sg][0]
        row = [r for r in rows if r["id"] == sg][0]
        ctx.violation({"kind": "analyzer-labels-differ-from-proved-values", "crystal": cr["crystal"], "sg": sg, "implementation": row,
                       "call": "SymmetryAnalyzer(crystal).get_crystal_system()/get_bravais_lattice()/get_point_group()"}, found_input=True)
    for r in info_fail[:1]:
        cr = [c for c in crystals if c["id"] == r["id"]][0]
        ctx.violation({"kind": "analyzer-failed-on-family-crystal", "crystal": cr["crystal"], "sg": r["id"], "implementation": r}, found_input=True)
    # (d) spglib letters on probe crystals for the normalizer permutations
    probes = []
    per_group = 1 if ctx.tier == "quick" else 99
    pid = 0
    for sg in sorted(norms):
        ks = list(range(len(norms[sg])))
        ctx.rng.shuffle(ks)
        for k in ks[:per_group]:
            cr, _ = K.generate(sg, ctx.rng, build["tables"], max_atoms=80, n_orbits=3)
            if cr is None:
                continue
            probes.append({"id": pid, "crystal": cr, "sg": sg, "k": k})
            pid += 1
    outs = C.impl_run_parallel("c14_impl", [{"probes": probes[i::C.NCPU]} for i in range(C.NCPU)])
    prow = [r for o in outs for r in o["probes"]]
    stat = {}
    for r in prow:
        stat[r["status"]] = stat.get(r["status"], 0) + 1
    ctx.coverage["probe_crystals"] = stat
    ctx.add_cases(len(prow), stat.get("ok", 0) + stat.get("mismatch", 0))
    for r in prow:
        if r["status"] == "mismatch":
            key = "table:norm-letters:%d:n%d" % (r["sg"], r["k"])
            if C.known_match(known, key) or key in coq_bad:
                continue
            pb = [p for p in probes if p["id"] == r["id"]][0]
            ctx.violation({"kind": "spglib-letters-on-probe-crystal-differ-from-tabulated-permutation", "key": key,
                           "crystal": pb["crystal"], "sg": r["sg"], "normalizer_index": r["k"], "mismatches": r["bad"]}, found_input=True)
            break
    ctx.coverage["rule"] = ("exhaustive over the tables: 230 groups / 1731 Wyckoff positions / 8833 expressions / 982 normalizers checked by vm_compute; "
                            "correspondence: every expression and normalizer (and %s Wyckoff orbits) re-evaluated by an independent Python predicate on the "
                            "imported tables, one generated crystal per group through SymmetryAnalyzer, %d probe crystals through spglib; a case is "
                            "non-trivial when the predicate was actually evaluated (conclusive probe)" % ("all" if ctx.tier != "quick" else "a sample of the large", len(probes)))
    ctx.coverage["exhaustive"] = True


def replay(ctx, rep):
    if rep.get("kind") == "table-entry-violates-property":
        o = rep["coordinate"]
        pr = impl_predicates([o])
        bad = False
        for sg, l, idx, r in pr["exprs"]:
            bad |= not r["ok"]
        for sg, l, r in pr["orbits"]:
            bad |= not r["ok"]
        for sg, k, r in pr["norms"]:
            cl = o["clause"][5:]
            bad |= (cl in r and not r[cl]) or (cl == "letters" and not r["normalises"])
        if bad:
            ctx.violation(rep, found_input=True)
        else:
            print("replay: the table coordinate satisfies the predicate now")
    elif rep.get("kind") == "imported-table-entry-violates-property":
        co = rep["coordinate"]
        req = {"exprs": [], "orbits": [], "norms": []}
        if co["table"] == "exprs":
            req["exprs"].append([co["sg"], co["letter"], co["expression"]])
        elif co["table"] == "orbits":
            req["orbits"].append([co["sg"], co["letter"]])
        else:
            req["norms"].append([co["sg"], co["normalizer"]])
        pr = C.impl_run("c14_impl", {"predicates": req})["predicates"]
        bad = any(not x[-1]["ok"] for x in pr["exprs"] + pr["orbits"] + pr["norms"])
        if bad:
            ctx.violation(rep, found_input=True)
        else:
            print("replay: the imported table entry satisfies the predicate now")
    elif rep.get("kind") == "labels-depend-on-analyzer-history":
        cs = ([{"id": -1, "crystal": rep["previous_crystal"]}] if rep.get("previous_crystal") else []) + [{"id": rep["sg"], "crystal": rep["crystal"]}]
        o = C.impl_run("c14_impl", {"info": cs})["info"][-1]
        if "reused" in o and any(o["reused"].get(k) != o.get(k) for k in ("number", "system", "bravais", "pointgroup")):
            ctx.violation(rep, found_input=True)
        else:
            print("replay: the reused analyzer answers like a fresh one now")
    elif rep.get("kind") == "tables-modified-at-run-time":
        o = C.impl_run("c14_impl", {"info": rep["crystals"], "use_then_dump": True})
        if o.get("tables_changed_by_use"):
            ctx.violation(rep, found_input=True)
        else:
            print("replay: the tables are unchanged after use now")
    elif "crystal" in rep and "implementation" in rep:
        o = C.impl_run("c14_impl", {"info": [{"id": rep["sg"], "crystal": rep["crystal"]}]})["info"][0]
        if o != rep["implementation"]:
            print("replay: implementation output changed:", o)
        else:
            ctx.violation(rep, found_input=True)
    else:
        print("replay: nothing to re-run for kind", rep.get("kind"))
