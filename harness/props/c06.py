"""C06 -- symmetry results are a normal form: independent of how the crystal is presented.

prove (Properties/C06.v: the chosen representation's count map is invariant under the letter-permutation
group of the space group and under atom order; the search is the plain lexicographic selection)
-> correspond (model vs implementation on every presentation) -> the property's own predicate on pairs of
presentations of one crystal (material id, number, labels, Wyckoff multiset, has-free flag, and the
conventional cell itself for parameter-free cubic structures)."""
import os

from lib import common as C
from lib import symtables as S
from props import _c0506 as H
from props.c05 import prove

LEVEL = "proof"
STATIC = H.STATIC


def run(ctx):
    ctx.add_trusted("table translation and reflection instances shared with C14 (see evidence/C14.json)",
                    "spglib as oracle: that two presentations of one crystal get the same number and letter lists related by an element of the "
                    "letter-permutation group (origin-equivalent standardisations) is assumed by the theorem and validated pairwise here",
                    "hashlib.sha512/base64 (material id) run, not modelled")
    ctx.assumptions += ["crystals whose detected group is not stable over a 100x tolerance window are discarded and counted"]
    build = S.build()
    broken = prove(ctx, "C06", build)
    if build["tables"] is None:
        ctx.violation({"kind": "proof-obligation-broken", "broken": broken}, found_input=False)
        return
    per_group, n_pres = (1, 2) if ctx.tier == "quick" else (3, 5)
    cases, disc = H.family(ctx, build["tables"], per_group, n_pres)
    rep_cases, d2 = H.repeated_family(ctx, build["tables"], 40 if ctx.tier == "quick" else 400)
    disc += d2
    cases = cases + rep_cases
    if not build["ok"]:
        # a broken table clause about a normalizer: aim the pairs at crystals on which that entry matters
        targeted, summ = H.targeted_cases(build, ctx.rng)
        ctx.coverage["targeted_search"] = summ
        cases = targeted + cases
    rows = H.run_impl(cases)
    by_id = {c["id"]: c for c in cases}
    failing, errors, n_terms = H.coq_ground_cases("c06gs", cases, rows)
    for e in errors[:1]:
        ctx.violation({"kind": "case-file-failed", "broken": "correspondence c06gs", "detail": e}, found_input=False)
    # pairs
    groups = {}
    for c in cases:
        groups.setdefault(c["base"], []).append(c)
    viol, errs, npairs, oracle_anomaly = [], [], 0, 0
    for base, cs in groups.items():
        rs = [(c, rows.get(c["id"])) for c in cs]
        for c, r in rs:
            if r is None or "error" in r:
                errs.append((c, r))
        good = [(c, r) for c, r in rs if r is not None and "error" not in r]
        for (c1, r1), (c2, r2) in zip(good[:1] * max(0, len(good) - 1), good[1:]):
            npairs += 1
            if r1["number"] != r2["number"]:
                oracle_anomaly += 1  # spglib itself disagrees between presentations: reported, S1 contract
            bad = H.c06_pair_predicate(r1, r2, c1["sg"], build["tables"])
            if bad:
                viol.append((c1, c2, bad))
    ctx.add_cases(n_terms + npairs, npairs, [{"sg": cases[0]["sg"], "presentations": [c["pres"] for c in groups[cases[0]["base"]]]}])
    ctx.coverage["input_distribution"] = {"crystals": len(groups), "presentations": len(cases), "pairs": npairs, "discarded": disc,
                                          "groups_covered": len({c["sg"] for c in cases}), "analyzer_errors": len(errs),
                                          "repeated_species_crystals(one species on two orbits of a free position + one orbit of a swappable position)": len({c["base"] for c in rep_cases}),
                                          "pairs_where_spglib_number_differs": oracle_anomaly}
    ctx.coverage["rule"] = ("every crystal of the C05 family in its standard description and in re-presentations (rotation, translation in [-5,5], "
                            "permutation, unimodular shear, supercell |det|<=4, wrapped/unwrapped); a pair is non-trivial when both analyses succeeded")
    known = C.load_known("C06")
    for (c1, c2, bad) in viol[:1]:
        ctx.violation({"kind": "property-fails-on-implementation", "crystal_a": c1["crystal"], "crystal_b": c2["crystal"], "sg": c1["sg"],
                       "tol_a": c1.get("tol", 1e-3), "tol_b": c2.get("tol", 1e-3),
                       "getters_called_first_a": rows[c1["id"]].get("getters_called_first"), "getters_called_first_b": rows[c2["id"]].get("getters_called_first"),
                       "getters_meaning": "public get_* methods of the SymmetryAnalyzer called (in this order) before the examined calls; null = none",
                       "presentation_b": c2["pres"], "failed_clauses": bad, "broken_obligation": broken}, found_input=True)
    for (c, r) in errs[:1]:
        ctx.violation({"kind": "analyzer-raised", "crystal": c["crystal"], "sg": c["sg"], "error": r, "broken_obligation": broken,
                       "getters_called_first": (r or {}).get("getters_called_first")}, found_input=True)
    ctx.coverage["predicate_failures"] = [{"sg": c1["sg"], "clauses": bad} for c1, c2, bad in viol[:20]]
    if failing and not viol and not errs:
        cid = failing[0]
        ctx.violation({"kind": "model-vs-implementation-disagree", "broken": "correspondence: GroundState.ground_state vs SymmetryAnalyzer._find_wyckoff_ground_state",
                       "crystal": by_id[cid]["crystal"], "sg": by_id[cid]["sg"],
                       "implementation": {k: rows[cid][k] for k in ("chosen_index", "spglib_letters_conv", "conv_letters", "std_types")}}, found_input=False)
    elif broken and not viol and not errs:
        ctx.violation({"kind": "proof-obligation-broken", "broken": broken, "searched": "%d pairs: the property's predicate holds on all" % npairs}, found_input=False)


def replay(ctx, rep):
    if "crystal_a" in rep:
        rows = H.run_impl([{"id": 0, "crystal": rep["crystal_a"], "tol": rep.get("tol_a", 1e-3), "getters": rep.get("getters_called_first_a") or []},
                           {"id": 1, "crystal": rep["crystal_b"], "tol": rep.get("tol_b", 1e-3), "getters": rep.get("getters_called_first_b") or []}], jobs=1)
        if any("error" in rows[i] for i in (0, 1)) or H.c06_pair_predicate(rows[0], rows[1], rep["sg"], None):
            ctx.violation(rep, found_input=True)
        else:
            print("replay: property holds on this pair now")
    elif "crystal" in rep:
        rows = H.run_impl([{"id": 0, "crystal": rep["crystal"], "getters": rep.get("getters_called_first") or []}], jobs=1)
        if "error" in rows[0]:
            ctx.violation(rep, found_input=True)
        else:
            print("replay: analyzer succeeds on this input now")
