"""C08 -- reported free Wyckoff parameters regenerate the atoms of their set.

translate (symmetry_data.py -> Generated/SG*.v via lib.symtables; the assignment statement of the solver ->
           Generated/SolverRule.v via translator/gen_solver.py)
-> prove  (Inst/C08Inst.v: first_rep_solvable by vm_compute over the 230 regenerated tables FOR THE RULE AS
           WRITTEN IN THE SOURCE; Properties/C08.v)
-> correspond (crystals for (group, letter) pairs through get_wyckoff_sets_conventional(return_parameters=True)
           and, where the normalizer search moved the target letter, through the anchored _get_wyckoff_sets on
           spglib's own conventional system; the implementation's own positions / letters / equivalence classes
           are fed to the Coq solver model; agreement relation + the property's own predicate evaluated in Coq).
"""
import glob
import json
import os
import random
import re
import sys
import time
from concurrent.futures import ProcessPoolExecutor
from fractions import Fraction as Fr

import numpy as np

from lib import common as C
from lib import symtables as S
from lib import crystals as K

sys.path.insert(0, os.path.join(C.VERIF, "translator"))
import gen_solver  # noqa: E402
from pyast import TranslationError  # noqa: E402

LEVEL = "proof"
# the generated tables depend on exactly these static files (same list as C14/C15, so that the compiled tables
# are shared between the checks instead of being rebuilt when another one ran last)
TABLE_STATIC = S.STATIC + ["Reflect/GroupChecksProofs.vo", "Reflect/NormChecksProofs.vo", "Reflect/InfoAgree.vo"]
STATIC = TABLE_STATIC + ["Symmetry/ParamSolve.vo", "Reflect/SolveChecks.vo", "Symmetry/ParamSolveProofs.vo"]

JOBS = min(8, C.NCPU)
U = (1 << 60) * 5 ** 8 * 3          # grid units per lattice period: doubles >= 2^-8 and 8-digit decimals and k/24 are exact
CELL_SCALE = 1 << 20                # cell entries in units of 2^-20 Angstrom (enter only the threshold comparisons)
TOL = 1e-3                          # symmetry_tol handed to the analyzer
CORPUS = os.path.join(C.VERIF, "corpus", "C08")


# ------------------------------------------------------------------------------------------------------
# generation
# ------------------------------------------------------------------------------------------------------
def letters_of(wyck, sg):
    return [l for l in wyck[sg] if l != "translations"]


def special_pairs(wyck):
    """entries whose first representative has a coefficient other than 0/1 or reads a free variable from a
    component other than its own index (same rule as Reflect/SolveChecks.first_rep_special)"""
    out = []
    for sg in range(1, 231):
        for l in letters_of(wyck, sg):
            e = wyck[sg][l]
            M = e["matrices"][0]
            odd = any(v not in (0, 1) for row in M for v in row)
            moved = False
            for idx, name in enumerate("xyz"):
                if name in e["variables"]:
                    ic = next((c for c in range(3) if M[idx][c] == 1), None)
                    if ic != idx:
                        moved = True
            if odd or moved:
                out.append((sg, l))
    return out


def gen_pair(args):
    """a crystal of group sg in which `letter` is occupied (plus 1-3 further orbits that pin the group);
    deterministic in `seed`"""
    sg, letter, seed, wyck_sg, max_atoms, forced = args
    rng = random.Random(seed)
    tables = (None, {sg: wyck_sg}, None)
    letters = K.table_letters(tables, sg)
    mult = {l: m for l, m, _ in letters}
    gen_mult = max(mult.values())
    disc = 0
    for k in range(16):
        n_extra = 1 if k < 5 else (2 if k < 11 else 3)
        zs = rng.sample(K.SPECIES, n_extra + 1)
        orbs = [(letter, zs[0])]
        total = mult[letter]
        if forced and k < 8:
            extra = list(forced)
        else:
            extra = []
            for j in range(n_extra):
                cands = [l for l, m, nf in letters if total + m <= max_atoms]
                if total + gen_mult <= max_atoms and rng.random() < 0.5:
                    extra.append("general")
                    total += gen_mult
                elif cands:
                    l = rng.choice(cands)
                    extra.append(l)
                    total += mult[l]
        orbs += [(l, zs[(j + 1) % len(zs)]) for j, l in enumerate(extra)]
        if len(orbs) < 2 and gen_mult + mult[letter] > max_atoms:
            orbs.append(("general", zs[-1]))
        cr = K.make_crystal(sg, rng, orbs, tables)
        if cr is None or K.stable_group(cr) != sg:
            disc += 1
            continue
        cr["target"] = [sg, letter]
        return cr, disc
    return None, disc


def make_2d(cr, rng):
    """one cell of the crystal as a two-dimensionally periodic input: pbc = T,T,F and vacuum along c"""
    cell = np.array(cr["cell"])
    if abs(cell[2, 0]) > 1e-9 or abs(cell[2, 1]) > 1e-9 or abs(cell[0, 2]) > 1e-9 or abs(cell[1, 2]) > 1e-9:
        return None
    P = np.array(cr["scaled_positions"])
    vac = rng.uniform(8.0, 14.0)
    c = cell[2, 2]
    new = cell.copy()
    new[2, 2] = c + vac
    P2 = P.copy()
    P2[:, 2] = (P[:, 2] * c + 0.5 * vac) / (c + vac)
    out = {"sg": cr["sg"], "cell": new.tolist(), "scaled_positions": P2.tolist(), "numbers": list(cr["numbers"]),
           "pbc": [True, True, False], "orbits": cr.get("orbits"), "target": cr.get("target"), "two_d": True}
    return out


# ------------------------------------------------------------------------------------------------------
# the property's own predicate, in Python, on what the implementation returned (used for shrinking and
# replay; the run itself evaluates it inside Coq)
# ------------------------------------------------------------------------------------------------------
def fh(h):
    return None if h is None else float.fromhex(h)


def parse_expr(s):
    """'-x+1/2' -> (cx, cy, cz, k)"""
    co = {"x": 0, "y": 0, "z": 0}
    k = Fr(0)
    for sign, num, den, var in re.findall(r"([+-]?)(\d*)(?:/(\d+))?([xyz]?)", s.replace(" ", "")):
        if not (num or var):
            continue
        sg = -1 if sign == "-" else 1
        if var:
            if den:
                raise ValueError("fraction before a variable in %r" % s)
            co[var] += sg * (int(num) if num else 1)
        else:
            k += sg * Fr(int(num), int(den) if den else 1)
    return co["x"], co["y"], co["z"], k


def py_property(row, wyck, key="api"):
    """list of failures (dicts) of the property's predicate for one implementation row"""
    d = row if key == "api" else row.get("direct")
    fails = []
    if d is None:
        return fails
    st = d.get("status")
    if st != "ok":
        m = re.search(r"Wyckoff letter '(\w+)' in space group (\d+)", d.get("message", ""))
        fails.append({"clause": "call-raised", "status": st, "message": d.get("message", ""),
                      "letter": m.group(1) if m else None, "sg": int(m.group(2)) if m else row.get("number")})
        if key == "api" and "flag" in row and row.get("number") in wyck:
            sg = row["number"]
            carries = any(len(wyck[sg][l]["variables"]) > 0 for l in set(row.get("letters", [])) if l in wyck[sg])
            if bool(row["flag"]) != carries:
                fails.append({"clause": "has-free-parameters-flag", "flag": row["flag"], "some_set_carries_a_parameter": carries, "sg": sg})
        return fails
    sg = row["number"]
    cell = np.array([[fh(v) for v in r] for r in d["cell"]])
    pos = np.array([[fh(v) for v in r] for r in d["positions"]])
    tol = fh(row["tol"])
    shifts = np.array([[i, j, k] for i in (-1, 0, 1) for j in (-1, 0, 1) for k in (-1, 0, 1)])
    for s in d["sets"]:
        ent = wyck[sg].get(s["letter"])
        if ent is None:
            fails.append({"clause": "letter-not-in-table", "letter": s["letter"], "sg": sg})
            continue
        vals = {}
        for name in "xyz":
            free = name in ent["variables"]
            v = fh(s[name])
            if (v is not None) != free:
                fails.append({"clause": "reported-variables-differ-from-free-variables", "letter": s["letter"], "sg": sg, "variable": name})
            if v is not None and not (0 <= v < 1):
                fails.append({"clause": "value-outside-[0,1)", "letter": s["letter"], "sg": sg, "variable": name, "value": v})
            vals[name] = v if v is not None else 0.0
        p = []
        for e in s["representative"]:
            cx, cy, cz, k = parse_expr(e)
            p.append(cx * vals["x"] + cy * vals["y"] + cz * vals["z"] + float(k))
        dd = pos[s["indices"]] - np.array(p)
        dd -= np.round(dd)
        dist = min(np.linalg.norm((dd + sh) @ cell, axis=1).min() for sh in shifts)
        if not dist <= tol:
            f = {"clause": "substituted-representative-is-not-an-atom-of-the-set", "letter": s["letter"], "sg": sg,
                 "distance": float(dist), "tol": tol}
            pbc = d.get("pbc", [True, True, True])
            if not all(pbc):
                # is the offset purely along the non-periodic axis of the returned cell?  (in-plane components match)
                dp = dd.copy()
                dp[:, [i for i in range(3) if not pbc[i]]] = 0.0
                inplane = min(np.linalg.norm((dp + sh * np.array(pbc, dtype=float)) @ cell, axis=1).min() for sh in shifts)
                f["in_plane_distance"] = float(inplane)
                f["offset_only_along_nonperiodic_axis"] = bool(inplane <= tol)
            fails.append(f)
    if key == "api" and row.get("flag_unstable"):
        fails.append({"clause": "has-free-parameters-flag", "flag": "changed between two calls on one analyzer", "sg": sg})
    if key == "api":
        carries = any(len(wyck[sg][s["letter"]]["variables"]) > 0 for s in d["sets"] if s["letter"] in wyck[sg])
        if bool(row.get("flag")) != carries:
            fails.append({"clause": "has-free-parameters-flag", "flag": row.get("flag"), "some_set_carries_a_parameter": carries, "sg": sg})
    return fails


# ------------------------------------------------------------------------------------------------------
# Coq case files
# ------------------------------------------------------------------------------------------------------
def z3(v):
    return "(%s, %s, %s)" % tuple(C.zlit(x) for x in v)


def m3lit(m):
    return "(%s, %s, %s)" % tuple(z3(r) for r in m)


def units(h):
    f = Fr(float.fromhex(h)) * U
    return int(f) if f.denominator == 1 else int(round(f))


def optz(h):
    return "None" if h is None else "(Some %s)" % C.zlit(units(h))


def strlist(xs):
    for x in xs:
        if '"' in x or "\\" in x:
            raise ValueError("unexpected character in %r" % x)
    return C.listlit(['"%s"' % x for x in xs])


def cfg_term(d, tol_hex, tolself):
    cell = [[Fr(float.fromhex(v)) for v in r] for r in d["cell"]]
    ci = [[int(round(v * CELL_SCALE)) for v in r] for r in cell]
    # the code: displacement . cell^T  ->  G = cell^T cell ;  Cartesian: displacement . cell -> Gt = cell cell^T
    G = [[sum(ci[k][i] * ci[k][j] for k in range(3)) for j in range(3)] for i in range(3)]
    Gt = [[sum(ci[i][k] * ci[j][k] for k in range(3)) for j in range(3)] for i in range(3)]
    tol = Fr(float.fromhex(tol_hex))

    def thr(t):
        return int((t * t * CELL_SCALE * CELL_SCALE * U * U).__floor__())
    return "(mkCfg UU SNAP EPS %s %s %s %s %s)" % (m3lit(G), C.zlit(thr(tolself)), C.zlit(thr(tol)), m3lit(Gt), C.zlit(thr(tol)))


def set_groups(d):
    """the sets exactly as _get_wyckoff_sets forms them: keyed by the value in equivalent_atoms, in ascending
    order of that value; letter = letter of the first atom of the class; atoms in index order"""
    eq = d["equivalent_atoms"]
    groups = {}
    for i, e in enumerate(eq):
        groups.setdefault(e, []).append(i)
    return [(e, d["letters"][groups[e][0]], groups[e]) for e in sorted(groups)]


def crystal_cases(row, key, rule_info, next_id, meta):
    """Coq cases for one implementation row (key = 'api' | 'direct')"""
    d = row if key == "api" else row[key]
    sg = row["number"]
    cfg = cfg_term(d, row["tol"], rule_info["self_test_tol"])
    pos = [[units(v) for v in r] for r in d["positions"]]
    groups = set_groups(d)
    by_first = {s["indices"][0]: s for s in d["sets"]}
    cases = []
    fail_first = None
    if d["status"] == "ValueError":
        m = re.search(r"at indices '\[([0-9, ]*)\]'", d.get("message", ""))
        if m and m.group(1).strip():
            fail_first = int(m.group(1).split(",")[0])
    seen_fail = False
    for e, letter, idxs in groups:
        atoms = C.listlit([z3(pos[i]) for i in idxs])
        head = '%s (tbl %s) "%s" %s' % (cfg, C.zlit(sg), letter, atoms)
        if d["status"] == "ok":
            s = by_first.get(idxs[0])
            if s is None or s["indices"] != idxs or s["letter"] != letter:
                meta[next_id] = {"kind": "sets-differ", "row": row["id"], "key": key, "letter": letter, "indices": idxs[:6]}
                cases.append((next_id, "false"))
                next_id += 1
                continue
            r = "(%s, %s, %s)" % (optz(s["x"]), optz(s["y"]), optz(s["z"]))
            meta[next_id] = {"kind": "agree", "row": row["id"], "key": key, "letter": letter, "sg": sg, "n": len(idxs)}
            cases.append((next_id, "agree_set rule %s (Some %s)" % (head, r)))
            next_id += 1
            if key != "doctored":     # a split class is not an orbit: only model/implementation agreement is checked on it
                meta[next_id] = {"kind": "prop", "row": row["id"], "key": key, "letter": letter, "sg": sg, "n": len(idxs)}
                cases.append((next_id, "prop_set %s %s %s" % (head, strlist(s["representative"]), r)))
                next_id += 1
        elif d["status"] == "ValueError" and fail_first is not None:
            if seen_fail:
                continue
            if idxs[0] == fail_first:
                seen_fail = True
                meta[next_id] = {"kind": "agree-fail", "row": row["id"], "key": key, "letter": letter, "sg": sg, "n": len(idxs)}
                cases.append((next_id, "agree_set rule %s None" % head))
            else:
                meta[next_id] = {"kind": "agree-before", "row": row["id"], "key": key, "letter": letter, "sg": sg, "n": len(idxs)}
                cases.append((next_id, "agree_before rule %s" % head))
            next_id += 1
    if key == "api" and d["status"] == "ok":
        meta[next_id] = {"kind": "flag", "row": row["id"], "key": key, "sg": sg}
        cases.append((next_id, "flag_case (tbl %s) %s %s %s" % (C.zlit(sg), strlist(row["letters_original"]),
                                                              strlist([s["letter"] for s in d["sets"]]), C.boollit(row["flag"]))))
        next_id += 1
    return cases, next_id


def preamble(rule_info):
    snap = rule_info["wrap_precision"] * U
    if snap.denominator != 1 or U % 10 ** 6:
        raise ValueError("wrap precision is not a whole number of grid units")
    return ("From Coq Require Import ZArith List String Bool.\nImport ListNotations.\n"
            "From MV Require Import Symmetry.Table Symmetry.Affine Symmetry.ParamSolve.\n"
            "From MVD Require Import Generated.SGAll Generated.SolverRule.\nOpen Scope string_scope.\n"
            "Definition UU : Z := %s.\nDefinition SNAP : Z := %s.\nDefinition EPS : Z := %s.\n"
            "Definition rule : bool := read_index_is_component.\n"
            "Definition tbl (sg : Z) : sgtable := nth (Z.to_nat (sg - 1)) tables (mkSG 0 (mkRI \"\" \"\" \"\") [] [] []).\n"
            % (C.zlit(U), C.zlit(int(snap)), C.zlit(U // 10 ** 6)))


# ------------------------------------------------------------------------------------------------------
def run_impl(crystals, direct="auto"):
    payloads = []
    n = max(1, min(JOBS * 3, len(crystals)))
    for k in range(n):
        chunk = crystals[k::n]
        if chunk:
            payloads.append({"cases": [{"id": c["id"], "crystal": c["crystal"], "tol": c.get("tol", TOL), "direct": direct,
                                        "target": (c["crystal"].get("target") or [None, None])[1], "doctor": c.get("doctor"),
                                        "history": c.get("history"), "prior": c.get("prior")} for c in chunk]})
    outs = C.impl_run_parallel("c08_impl", payloads, jobs=JOBS)
    rows = {}
    for o in outs:
        for r in o["cases"]:
            rows[r["id"]] = r
    return rows


def shrink(crystal, wyck, still_fails):
    """drop whole orbits while the failure persists"""
    meta = crystal.get("orbits")
    if not meta or len(meta) < 2:
        return crystal
    cur = crystal
    changed = True
    while changed and len(cur["orbits"]) > 1:
        changed = False
        for k in range(len(cur["orbits"])):
            start = sum(o["size"] for o in cur["orbits"][:k])
            size = cur["orbits"][k]["size"]
            keep = [i for i in range(len(cur["numbers"])) if not (start <= i < start + size)]
            cand = dict(cur)
            cand["scaled_positions"] = [cur["scaled_positions"][i] for i in keep]
            cand["numbers"] = [cur["numbers"][i] for i in keep]
            cand["orbits"] = cur["orbits"][:k] + cur["orbits"][k + 1:]
            if still_fails(cand):
                cur = cand
                changed = True
                break
    return cur


def evaluate_on_impl(crystal, wyck, tol=TOL, history=None, prior=None):
    rows = run_impl([{"id": 0, "crystal": crystal, "tol": tol, "history": history, "prior": prior}], direct="always")
    return rows[0], row_failures(rows[0], wyck)


def build_tables():
    old = C.STATIC_TARGETS
    C.STATIC_TARGETS = TABLE_STATIC
    try:
        return S.build()
    finally:
        C.STATIC_TARGETS = old


def load_known():
    known = C.load_known("C08")
    extra = os.environ.get("VERIF_C08_EXTRA_KNOWN")     # development aid only: a second known-findings file
    if extra and os.path.exists(extra):
        with open(extra) as f:
            known += [e for e in json.load(f).get("findings", []) if e.get("property") == "C08" and e.get("status") == "known"]
    return known


def failure_key(f, row, crystal=None):
    sg = f.get("sg") or row.get("number")
    if crystal is not None and not all(crystal.get("pbc", [True, True, True])):
        # two-dimensional inputs: the conventional cell is centred / axis-swapped / minimised (one defect class)
        if f["clause"] == "call-raised" and f.get("status") == "ValueError" and "Could not resolve the free Wyckoff parameters" in f.get("message", ""):
            return "wyckoff-parameters:2d-conventional-cell"
        if f["clause"] == "substituted-representative-is-not-an-atom-of-the-set" and not f.get("offset_only_along_nonperiodic_axis"):
            return "wyckoff-parameters:2d:substituted-representative-off-in-plane"
        return "wyckoff-parameters:2d:%s" % f["clause"]
    if f["clause"] == "has-free-parameters-flag":
        return "wyckoff-parameters:has-free-parameters-flag"
    if f["clause"] == "analyzer-reuse":
        return "wyckoff-parameters:analyzer-reuse"
    if f.get("letter"):
        return "wyckoff-parameters:%s:%s" % (sg, f["letter"])
    return "wyckoff-parameters:%s:%s" % (sg, f["clause"])


def reuse_failures(row):
    """history stream: the analyzer that was handed other crystals before (set_system) must answer like a fresh one"""
    ru = row.get("reuse")
    if ru and not ru.get("same"):
        return [{"clause": "analyzer-reuse", "differs_in": ru.get("differs_in"), "reused": ru.get("reused"), "fresh": ru.get("fresh"),
                 "previous_crystal": ru.get("previous_crystal"), "sg": row.get("number")}]
    return []


def row_failures(row, wyck):
    if "number" not in row or str(row.get("status", "")).startswith("error"):
        return [{"clause": "call-raised", "status": row.get("status"), "message": row.get("message", "")}]
    return py_property(row, wyck, "api") + reuse_failures(row) + [dict(f, through="_get_wyckoff_sets on spglib's conventional system")
                                            for f in py_property(row, wyck, "direct")]


def report_crystal(ctx, crystal, wyck, known, reported, why, tol=TOL, extra=None, row=None):
    """evaluate the property's own predicate on the implementation for this crystal; failures that match a
    known finding print KNOWN-FINDING (once per key); the first other failure is shrunk and reported.
    Returns 'violation' | 'known' | None (the predicate holds)."""
    if row is None:
        row, fails = evaluate_on_impl(crystal, wyck, tol, (extra or {}).get("analyzer_history"), (extra or {}).get("previous_crystal"))
    else:
        fails = row_failures(row, wyck)
    if not fails:
        return None
    hist = row.get("history")
    result = "known"
    for f in fails:
        key = failure_key(f, row, crystal)
        k = C.known_match(known, key)
        if k:
            if key not in reported:
                reported.add(key)
                ctx.known_finding(k)
            continue
        if key in reported:
            result = "violation"
            continue
        clause = f["clause"]

        def still(c):
            try:
                r2, f2 = evaluate_on_impl(c, wyck, tol, hist)
            except Exception:
                return False
            return any(g["clause"] == clause and failure_key(g, r2, c) == key for g in f2)
        small = shrink(crystal, wyck, still)
        row2, fails2 = evaluate_on_impl(small, wyck, tol, hist) if small is not crystal else (row, fails)
        reported.add(key)
        rep = {"kind": "property-fails-on-implementation", "key": key, "why": why, "crystal": small, "tol": tol,
               "call": "SymmetryAnalyzer(Atoms(numbers, cell, scaled_positions, pbc), symmetry_tol=tol).get_wyckoff_sets_conventional(return_parameters=True)",
               "analyzer_history": hist,
               "previous_crystal": f.get("previous_crystal"),
               "previous_crystal_meaning": "when set: one SymmetryAnalyzer first analysed previous_crystal (parameters and flag asked), then set_system(crystal); "
                                           "its answers differ from those of a fresh analyzer on crystal",
               "history_meaning": "calls made on the analyzer before the examined ones: 0 none; 1 get_material_id() and get_wyckoff_sets_conventional(False); "
                                  "2 get_has_free_wyckoff_parameters(), get_wyckoff_sets_conventional(True), get_wyckoff_sets_conventional(False); "
                                  "a list: these public getters of the analyzer, in this order",
               "failures": fails2[:6], "implementation": {k2: row2.get(k2) for k2 in ("number", "status", "message", "flag", "flag_unstable", "letters_original")}}
        if extra:
            rep.update(extra)
        ctx.violation(rep, found_input=True, tag=key.replace(":", "-"))
        result = "violation"
    return result


def load_corpus():
    out = []
    for p in sorted(glob.glob(os.path.join(CORPUS, "*.json"))):
        with open(p) as f:
            c = json.load(f)
        c["file"] = os.path.basename(p)
        out.append(c)
    return out


def offenders(rule_text):
    txt = ("From Coq Require Import ZArith List String Bool.\nImport ListNotations.\n"
           "From MV Require Import Symmetry.Table Symmetry.ParamSolve Reflect.SolveChecks.\n"
           "From MVD Require Import Generated.SGAll Generated.SolverRule.\nSet Printing Width 100000. Set Printing Depth 100000.\n"
           "Eval vm_compute in (all_solvable_offenders read_index_is_component tables).\n")
    rc, out = C.coq_eval("c08_offenders", txt, timeout=900)
    if rc != 0:
        return None, out[-1500:]
    return [(int(a), b) for a, b in re.findall(r'\((\d+)(?:%Z)?, "([^"]+)"(?:%string)?\)', out.replace("\n", " "))], None


def run(ctx):
    t_start = time.time()
    v0 = ctx.violations
    ctx.add_trusted("translator/gen_symdata.py + pyast.py (tables) and translator/gen_solver.py (the solver's assignment statement, self-test accuracy, wrap precision); ast, fail-closed",
                    "hand-written model of _get_wyckoff_sets/_search_periodic_positions/get_wrapped_positions/get_has_free_wyckoff_parameters (coq/Symmetry/ParamSolve.v), tied by the correspondence",
                    "agreement relation and property predicate: agree_set / prop_set / flag_case in coq/Symmetry/ParamSolve.v; expression strings parsed by coq/Symmetry/Expr.v",
                    "crystal generator harness/lib/crystals.py (spglib Hall database operations), harness/impl/c08_impl.py")
    ctx.assumptions += [
        "exact-arithmetic semantics: positions/parameters on a grid of 1/U lattice periods (theorems: every U = 24 s; runs: U = 2^60*5^8*3, the implementation's doubles rounded to it, error < 2^-61)",
        "solver_complete: the set contains the positions of the letter at v exactly (modulo the lattice) for the table constants k/24; the implementation's 8-digit decimals (C14: within 1e-7) and float rounding are absorbed by its tolerances -- observed in the correspondence, not proved",
        "spglib contract S1/S3 (letters and equivalence classes handed to the solver denote table entries / orbits): validated on every generated crystal by the property predicate itself",
        "cell entries rounded to 2^-20 Angstrom in the threshold comparisons of the model (distances are either < 1e-6 or > 0.1 Angstrom in every run; ties would show as disagreement)",
    ]
    known = load_known()
    reported = set()
    build = build_tables()
    ctx.coverage["tables"] = build["meta"]
    ctx.coverage["tables_build"] = {"cached": build["cached"], "wall_s": round(build.get("wall_s", 0), 1), "ok": build["ok"]}
    broken = None
    rule_info = None
    rule_text = None
    try:
        rule_text, rule_info = gen_solver.generate(C.REPO)
        ctx.coverage["solver_rule"] = {"statement": rule_info["statement"], "line": rule_info["line"], "read_index_is_component": rule_info["rule"],
                                       "self_test_tol": str(rule_info["self_test_tol"]), "wrap_precision": str(rule_info["wrap_precision"])}
    except TranslationError as e:
        broken = {"stage": "translate-solver-rule", "error": str(e)}
    n_thm = len(C.theorem_names(os.path.join(C.COQ, "Properties/C08.v")))
    if build["tables"] is None or not build["ok"]:
        broken = broken or build["broken"]
        ctx.add_obligations(230 + n_thm, 0, "first_rep_solvable instance + theorems of Properties/C08.v (not attempted: table translation / C14 instances failed; see C14)")
        if build["tables"] is None:
            ctx.violation({"kind": "proof-obligation-broken", "broken": broken}, found_input=False)
            return
    info, wyck, norms = build["tables"]
    inst_ok = False
    offs = None
    if rule_text is not None and build["ok"]:
        pres = C.prove_property("C08", [("Generated/SolverRule.v", rule_text), ("Inst/C14Inst.v", None), ("Inst/C08Inst.v", None)],
                                newer_than=S.all_vo_mtime())
        inst_ok = any(r["path"] == "Inst/C08Inst.v" and r["rc"] == 0 for r in pres["results"])
        ctx.add_obligations(230, 230 if inst_ok else 0,
                            "reflection instance Inst/C08Inst.all_solvable: first_rep_solvable for the 230 regenerated tables (1731 entries), rule as written in the source, by vm_compute")
        ctx.record_proof(pres)
        if pres["failed"]:
            broken = {"stage": "prove", "file": pres["failed"]["path"], "error": pres["failed"]["out"][-1200:]}
    elif rule_text is None:
        ctx.add_obligations(230 + n_thm, 0, "first_rep_solvable instance + theorems (solver rule could not be translated)")
    if rule_text is not None and not inst_ok:
        # make sure SolverRule.vo exists for the case files even when the instance failed
        C.build_dynamic([("Generated/SolverRule.v", rule_text)])
        if build["tables"] is not None and os.path.exists(os.path.join(C.dyn_dir(), "Generated", "SGAll.vo")):
            offs, err = offenders(rule_text)
            ctx.coverage["first_rep_solvable_offenders"] = offs if offs is not None else err

    # ---------------- a broken first_rep_solvable instance: replay crystals for the offenders -------------
    if offs:
        for sg, letter in offs[:6]:
            key = "wyckoff-parameters:%d:%s" % (sg, letter)
            k = C.known_match(known, key)
            if k:
                ctx.known_finding(k)
                reported.add(key)
                continue
            found = False
            others = [l for l in letters_of(wyck, sg) if l != letter]
            for attempt in range(12):
                forced = [others[(attempt + j) % len(others)] for j in range(1 + attempt % 2)] if others else []
                cr, _ = gen_pair((sg, letter, ctx.rng.getrandbits(48), wyck[sg], 160, forced))
                if cr is None:
                    continue
                row, fails = evaluate_on_impl(cr, wyck)
                hit = [f for f in fails if f.get("letter") == letter]
                if hit:
                    found = report_crystal(ctx, cr, wyck, known, reported,
                                           "first_rep_solvable fails for this table entry with the rule as written in the source (%s)" % rule_info["statement"],
                                           extra={"broken_obligation": broken, "offenders": offs[:20]}, row=row) is not None
                    if found:
                        break
            if not found:
                ctx.violation({"kind": "proof-obligation-broken", "broken": "first_rep_solvable (Inst/C08Inst.all_solvable)", "offender": [sg, letter],
                               "searched": "12 crystals of group %d occupying %s: the implementation did not fail on them" % (sg, letter)}, found_input=False,
                              tag="first-rep-solvable-%d-%s" % (sg, letter))

    coq_cases_possible = rule_info is not None and os.path.exists(os.path.join(C.dyn_dir(), "Generated", "SGAll.vo"))

    # ---------------- correspondence ----------------------------------------------------------------------
    all_pairs = [(sg, l) for sg in range(1, 231) for l in letters_of(wyck, sg)]
    special = special_pairs(wyck)
    corpus = load_corpus()
    if ctx.tier == "quick":
        n_target = int(os.environ.get("VERIF_C08_PAIRS", "250"))
        rest = [p for p in all_pairs if p not in set(special)]
        pairs = special + ctx.rng.sample(rest, max(0, min(len(rest), n_target - len(special))))
    else:
        pairs = list(all_pairs)
    if not build["ok"]:
        # C14's instances failed for some groups: aim at every letter of those groups
        bad_groups = sorted({int(m.group(1)) for f in build["failed"] for m in [re.search(r"(\d{3})\.v$", f["path"])] if m})
        pairs += [(sg, l) for sg in bad_groups for l in letters_of(wyck, sg) if (sg, l) not in set(pairs)]
        ctx.coverage["groups_with_failing_C14_instances"] = bad_groups
    max_atoms = 130 if ctx.tier == "quick" else 230
    jobs = [(sg, l, ctx.rng.getrandbits(48), wyck[sg], max_atoms, None) for sg, l in pairs]
    t0 = time.time()
    with ProcessPoolExecutor(max_workers=JOBS) as ex:
        gen = list(ex.map(gen_pair, jobs, chunksize=4))
    t_gen = time.time() - t0
    crystals = []
    cid = 0
    for c in corpus:
        crystals.append({"id": cid, "crystal": c["crystal"], "tol": c.get("tol", TOL), "origin": "corpus:" + c["file"]})
        cid += 1
    disc = 0
    ungenerated = []
    for (sg, l), (cr, d) in zip(pairs, gen):
        disc += d
        if cr is None:
            ungenerated.append([sg, l])
            continue
        crystals.append({"id": cid, "crystal": cr, "tol": TOL, "origin": "pair"})
        cid += 1
    # flag stream: crystals occupying a parameter-carrying position together with a parameter-FREE position whose letter
    # sorts after it (so that neither the first nor the last occupied letter decides the has-free-parameters flag), and
    # the mirror case (only parameter-free positions occupied although the group has later free ones)
    flag_groups = []
    for sg in range(1, 231):
        ls = letters_of(wyck, sg)
        free = [l for l in ls if wyck[sg][l]["variables"]]
        fixed = [l for l in ls if not wyck[sg][l]["variables"]]
        prs = [(a, b) for a in free for b in fixed if b > a]
        if prs:
            flag_groups.append((sg, prs))
    ctx.rng.shuffle(flag_groups)
    n_flag = 36 if ctx.tier == "quick" else len(flag_groups)
    fjobs = []
    for sg, prs in flag_groups[:n_flag]:
        a, b = prs[ctx.rng.randrange(len(prs))]
        fjobs.append((sg, a, ctx.rng.getrandbits(48), wyck[sg], max_atoms, [b]))
    with ProcessPoolExecutor(max_workers=JOBS) as ex:
        fgen = list(ex.map(gen_pair, fjobs, chunksize=2))
    n_flag_made = 0
    for cr, d in fgen:
        disc += d
        if cr is not None:
            crystals.append({"id": cid, "crystal": cr, "tol": TOL, "origin": "flag"})
            cid += 1
            n_flag_made += 1
    # random family: 1-3 orbits, <= 120 atoms
    n_family = 40 if ctx.tier == "quick" else 460
    fam_groups = [ctx.rng.randint(1, 230) for _ in range(n_family)] if ctx.tier == "quick" else [1 + (k % 230) for k in range(n_family)]
    for sg in fam_groups:
        cr, d = K.generate(sg, ctx.rng, build["tables"], max_atoms=120, tries=6)
        disc += d
        if cr is not None:
            crystals.append({"id": cid, "crystal": cr, "tol": TOL, "origin": "family"})
            cid += 1
    # two-dimensional inputs
    n_2d = 30 if ctx.tier == "quick" else 200
    cands = [c for c in crystals if c["origin"] in ("pair", "family") and len(c["crystal"]["numbers"]) <= 40]
    ctx.rng.shuffle(cands)
    n2 = 0
    for c in cands:
        if n2 >= n_2d:
            break
        c2 = make_2d(c["crystal"], ctx.rng)
        if c2 is not None:
            crystals.append({"id": cid, "crystal": c2, "tol": TOL, "origin": "2d"})
            cid += 1
            n2 += 1
    # malformed stream: one equivalence class split in two, through the anchored method
    n_doc = 24 if ctx.tier == "quick" else 160
    cands = [c for c in crystals if c["origin"] == "pair" and len(c["crystal"]["numbers"]) <= 64]
    ctx.rng.shuffle(cands)
    cands.sort(key=lambda c: 0 if len(wyck[c["crystal"]["sg"]]["translations"]) > 0 else 1)    # centred groups first (two thirds)
    cands = cands[:(2 * n_doc) // 3] + [c for c in cands[(2 * n_doc) // 3:] if len(wyck[c["crystal"]["sg"]]["translations"]) == 0]
    for c in cands[:n_doc]:
        centred = len(wyck[c["crystal"]["sg"]]["translations"]) > 0
        c["doctor"] = {"mode": "centring" if centred else ctx.rng.choice(["odd", "half"]), "target": c["crystal"]["target"][1]}
    t0 = time.time()
    rows = run_impl(crystals)
    t_impl = time.time() - t0
    by_id = {c["id"]: c for c in crystals}

    meta = {}
    cases = []
    next_id = 0
    observed = set()
    with_vars = set()
    stat = {"ok": 0, "ValueError": 0, "error": 0, "direct_used": 0, "wrong_group": 0}
    impl_errors = []
    for c in crystals:
        row = rows[c["id"]]
        if "number" not in row or str(row.get("status", "")).startswith("error"):
            stat["error"] += 1
            impl_errors.append(c["id"])
            continue
        stat[row["status"]] = stat.get(row["status"], 0) + 1
        if c["origin"] in ("pair",) and row["number"] != c["crystal"]["sg"]:
            stat["wrong_group"] += 1
        for key in ("api", "direct", "doctored"):
            d = row if key == "api" else row.get(key)
            if d is None:
                continue
            if key != "api":
                stat[key + "_used"] = stat.get(key + "_used", 0) + 1
                if key == "doctored":
                    stat["doctored_" + d["status"]] = stat.get("doctored_" + d["status"], 0) + 1
            if coq_cases_possible:
                cs, next_id = crystal_cases(row, key, rule_info, next_id, meta)
                cases += cs
            if key == "doctored":
                continue
            for e, letter, idxs in set_groups(d):
                observed.add((row["number"], letter))
                if wyck[row["number"]].get(letter, {}).get("variables"):
                    with_vars.add((row["number"], letter))
    t0 = time.time()
    failing, errors = ([], [])
    if coq_cases_possible:
        failing, errors = C.coq_case_files("c08", preamble(rule_info), cases, per_file=int(os.environ.get("VERIF_C08_SHARD", "90")), timeout=2400)
    else:
        ctx.notes.append("no Coq case files in this run (solver rule not translatable or tables not compiled); the property's predicate was evaluated on the implementation in Python only")
    t_coq = time.time() - t0
    targets = set(tuple(c["crystal"]["target"]) for c in crystals if c["crystal"].get("target"))
    sizes = [len(c["crystal"]["numbers"]) for c in crystals]
    ctx.add_cases(len(cases), len(with_vars),
                  [{"crystal_of": crystals[0]["crystal"].get("target") or crystals[0]["crystal"].get("sg"), "atoms": sizes[0], "origin": crystals[0]["origin"],
                    "implementation": {"number": rows[0].get("number"), "status": rows[0].get("status"),
                                       "sets": [[s["letter"], s["element"], fh(s["x"]), fh(s["y"]), fh(s["z"])] for s in rows[0].get("sets", [])][:4]}}])
    ctx.coverage["rule"] = ("one Coq evaluation per Wyckoff set (agreement of the model's solver on the implementation's own positions/letters/classes with the "
                            "reported x,y,z; the property's predicate on the reported values) and one per crystal for the flag; distinct_nontrivial = distinct "
                            "(space group, letter) pairs WITH free variables whose solver branch was executed by the implementation and the model")
    ctx.coverage["exhaustive"] = False
    ctx.coverage["input_distribution"] = {
        "tier": ctx.tier, "symmetry_tol": TOL, "pairs_requested": len(pairs), "pairs_always_included(first representative with coefficient != 0/1 or moved component)": len(special),
        "pairs_without_crystal": ungenerated[:40], "n_pairs_without_crystal": len(ungenerated), "corpus": [c["file"] for c in corpus],
        "crystals": len(crystals), "by_origin": {o: sum(1 for c in crystals if c["origin"].startswith(o)) for o in ("corpus", "pair", "flag", "family", "2d")},
        "flag_stream(free position + later parameter-free position occupied)": {"groups_with_such_a_pair": len(flag_groups), "crystals": n_flag_made},
        "analyzer_call_history": "crystal id % 4: 3 = a pseudo-random selection of the analyzer's other public getters, shuffled, first; 0 = parameters asked first; 1 = get_material_id() and get_wyckoff_sets_conventional(False) before; 2 = flag, parameters, no parameters, parameters again (last answer used)",
        "analyzer_reuse": "every crystal is also handed through set_system() to ONE analyzer per runner process and tolerance that answered flag/sets/parameters "
                          "for the previous crystals; its status, sets, parameters and flag must equal the fresh analyzer's (replay records the previous crystal)",
        "malformed(one class split in two, anchored call)": sum(1 for c in crystals if c.get("doctor")),
        "atoms_min_median_max": [min(sizes), sorted(sizes)[len(sizes) // 2], max(sizes)], "discarded_unstable_or_higher_symmetry": disc,
        "implementation_status": stat, "distinct_pairs_observed": len(observed), "distinct_pairs_with_variables_observed": len(with_vars),
        "target_pairs_observed": len(targets & observed), "target_pairs": len(targets),
        "target_pairs_not_observed": sorted(targets - observed)[:40],
        "wall_s": {"generate": round(t_gen, 1), "implementation": round(t_impl, 1), "coq_cases": round(t_coq, 1)}}

    # ---------------- verdict --------------------------------------------------------------------------------
    for e in errors[:2]:
        ctx.violation({"kind": "case-file-failed", "broken": "correspondence c08 (case file did not compile)", "detail": e}, found_input=False)
    bad_rows = {}
    for cid_ in failing:
        m = meta[cid_]
        bad_rows.setdefault(m["row"], []).append(m)
    ctx.coverage["failing_cases"] = [meta[i] for i in failing[:40]]
    # the property's predicate failed in Coq, or the implementation raised: evaluate the predicate on the implementation
    suspects = []
    for c in crystals:
        if c["id"] in bad_rows or row_failures(rows[c["id"]], wyck):
            suspects.append(c)
    n_rep = 0
    unexplained = []
    for c in suspects:
        if n_rep >= 4:
            break
        why = ("the property's predicate, evaluated in Python on the implementation's output, fails" if c["id"] not in bad_rows
               else "Coq cases failed: %s" % json.dumps(bad_rows[c["id"]][:3]))
        res = report_crystal(ctx, c["crystal"], wyck, known, reported, why, tol=c.get("tol", TOL),
                             extra={"broken_obligation": broken, "origin": c["origin"]}, row=rows[c["id"]])
        if res == "violation":
            n_rep += 1
        elif res is None and c["id"] in bad_rows:
            unexplained.append(c)
        elif res == "known" and c["id"] in bad_rows:
            # a known finding does not excuse a model/implementation disagreement: every failing Coq case must be a
            # predicate case (prop / flag) that the Python evaluation of the predicate reproduces for the same set
            pf = row_failures(rows[c["id"]], wyck)
            for m in bad_rows[c["id"]]:
                same = [f for f in pf if ("through" in f) == (m["key"] == "direct")
                        and ((m["kind"] == "prop" and f.get("letter") == m.get("letter") and f["clause"] != "call-raised")
                             or (m["kind"] == "flag" and f["clause"] == "has-free-parameters-flag"))]
                if not same:
                    unexplained.append(c)
                    break
    for c in unexplained[:2]:
        ctx.violation({"kind": "model-and-implementation-disagree", "broken": "correspondence c08: agree_set / prop_set / flag_case (coq/Symmetry/ParamSolve.v)",
                       "cases": bad_rows[c["id"]][:6], "crystal": c["crystal"], "tol": c.get("tol", TOL),
                       "searched": "the property's own predicate holds on the implementation for this crystal"}, found_input=False)
    if broken and ctx.violations == v0:
        ctx.violation({"kind": "proof-obligation-broken", "broken": broken,
                       "searched": "%d crystals through the implementation: the property's predicate held on all of them" % len(crystals)}, found_input=False)
    ctx.coverage["wall_total_s"] = round(time.time() - t_start, 1)


def replay(ctx, rep):
    build = build_tables()
    if build["tables"] is None:
        ctx.violation(rep, found_input=False)
        return
    wyck = build["tables"][1]
    if "crystal" not in rep:
        print("replay: no crystal in this replay file (broken obligation: %s)" % (rep.get("broken"),))
        return
    row, fails = evaluate_on_impl(rep["crystal"], wyck, rep.get("tol", TOL), rep.get("analyzer_history"), rep.get("previous_crystal"))
    if fails:
        rep = dict(rep)
        rep["failures_now"] = fails[:6]
        ctx.violation(rep, found_input=True)
    else:
        print("replay: the property holds on this input now")
