"""The crystal families of C02 (single crystal: bulk supercell or slab) and C03 (two-metal stacks), and the
properties' *independent* preconditions.

Nothing in this module imports matid: structures are built with ASE only, the bonding / overlap /
dimension precondition is evaluated with ASE's neighbour list, a union-find and an integer rank
computation written here.  Every family member is a pure function of its key string (the PRNG of a
member is seeded from the SHA-256 of the key), so a key alone reproduces the structure.

Interpretation of the precondition of C02 (statement text in properties.jsonl), with the defaults
max_cell_size = 6, bond_threshold = 0.65, overlap_threshold = -0.6, radii = covalent (ase.data):
  P1  the primitive cell has at most six atoms (checked with spglib on the ideal bulk);
  P2  the three vectors of the Minkowski-reduced primitive cell are shorter than max_cell_size
      (literal reading: no margin on this clause);
  P3  "neighbouring atoms bonded ... with a safety margin": in the ideal (noise-free) structure the graph
      of pairs with  d - r_i - r_j <= bond_threshold - MARGIN  is connected and its periodic rank (number
      of independent lattice translations that map the bonded network onto itself) is 3 for bulk and 2
      for slabs; moreover every atom's nearest neighbour is such a pair;
  P4  "not overlapping ... with a safety margin": every pair has  d - r_i - r_j >= overlap_threshold + MARGIN;
  P5  every periodic cell height of the structure handed to SBC exceeds 2 * max_cell_size (bulk: all
      three; slabs: the two in-plane heights, and the stacking height too when the slab is in a periodic
      box) -- supercells are built accordingly;
  P6  slabs have 3 or 4 layers (repeats of the surface unit cell of ase.build.surface).
MARGIN = 0.15 A = 2 x 0.05 A (largest rattling per atom, so 0.1 A per pair) + 0.05 A.
"""
import hashlib
import itertools
import math
import random

import numpy as np
from ase import Atoms
from ase.build import bulk as ase_bulk, surface as ase_surface
from ase.build import fcc100, fcc111, bcc100, bcc110
from ase.data import atomic_numbers as Z_OF, chemical_symbols, covalent_radii, reference_states
from ase.geometry import minkowski_reduce
from ase.neighborlist import neighbor_list
from ase.spacegroup import crystal as sg_crystal

MAX_CELL_SIZE = 6.0
BOND_THRESHOLD = 0.65
OVERLAP_THRESHOLD = -0.6
MARGIN = 0.15
NOISES_C02 = (0.0, 0.02, 0.05)
NOISES_C03 = (0.0, 0.03)


# ------------------------------------------------------------------------------------------------
# deterministic per-member randomness
# ------------------------------------------------------------------------------------------------
def key_rng(key):
    return random.Random(int(hashlib.sha256(key.encode()).hexdigest()[:16], 16))


def random_rotation(rng):
    """uniform SO(3) rotation matrix from a unit quaternion"""
    while True:
        q = [rng.gauss(0, 1) for _ in range(4)]
        nq = math.sqrt(sum(x * x for x in q))
        if nq > 1e-6:
            break
    w, x, y, z = [c / nq for c in q]
    return np.array([[1 - 2 * (y * y + z * z), 2 * (x * y - z * w), 2 * (x * z + y * w)],
                     [2 * (x * y + z * w), 1 - 2 * (x * x + z * z), 2 * (y * z - x * w)],
                     [2 * (x * z - y * w), 2 * (y * z + x * w), 1 - 2 * (x * x + y * y)]])


def present(atoms, rng, noise, rotate=True, translate=True, permute=True):
    """rattle (per-atom displacement of length in [noise/2, noise], uniform direction), rigid rotation of
    atoms and cell, rigid translation (positions are left unwrapped), permutation of the atom order.
    Returns (Atoms, order) with order[k] = index in the input of the k-th atom of the output."""
    at = atoms.copy()
    pos = at.get_positions()
    if noise > 0:
        for i in range(len(pos)):
            v = np.array([rng.gauss(0, 1) for _ in range(3)])
            v /= (np.linalg.norm(v) or 1.0)
            pos[i] += v * noise * rng.uniform(0.5, 1.0)
    cell = np.array(at.get_cell())
    if rotate:
        R = random_rotation(rng)
        pos = pos @ R.T
        cell = cell @ R.T
    if translate:
        pos = pos + np.array([rng.uniform(-5, 5) for _ in range(3)])
    order = list(range(len(at)))
    if permute:
        rng.shuffle(order)
    out = Atoms(numbers=at.get_atomic_numbers()[order], positions=pos[order], cell=cell, pbc=at.get_pbc())
    return out, order


def to_dict(at):
    return {"numbers": [int(z) for z in at.get_atomic_numbers()],
            "positions": [[float(x) for x in p] for p in at.get_positions()],
            "cell": [[float(x) for x in r] for r in np.array(at.get_cell())],
            "pbc": [bool(b) for b in at.get_pbc()]}


# ------------------------------------------------------------------------------------------------
# the independent precondition
# ------------------------------------------------------------------------------------------------
def cell_heights(cell):
    c = np.array(cell, dtype=float)
    vol = abs(np.linalg.det(c))
    hs = []
    for k in range(3):
        i, j = [(1, 2), (2, 0), (0, 1)][k]
        hs.append(vol / np.linalg.norm(np.cross(c[i], c[j])))
    return hs


def int_rank(vectors):
    """rank over Q of a list of integer 3-vectors (fraction-free elimination, exact)"""
    rows = [[int(x) for x in v] for v in vectors if any(int(x) for x in v)]
    rank = 0
    for col in range(3):
        piv = None
        for r in range(rank, len(rows)):
            if rows[r][col] != 0:
                piv = r
                break
        if piv is None:
            continue
        rows[rank], rows[piv] = rows[piv], rows[rank]
        for r in range(len(rows)):
            if r != rank and rows[r][col] != 0:
                a, b = rows[rank][col], rows[r][col]
                rows[r] = [a * y - b * x for x, y in zip(rows[rank], rows[r])]
        rank += 1
    return rank


def bond_network(at, radii, thr):
    """(number of components, periodic rank of the component of atom 0, list of per-atom degrees) of the
    graph of pairs with d - r_i - r_j <= thr (minimum-image free: all periodic images are pairs)."""
    n = len(at)
    cut = [float(r) + thr / 2.0 for r in radii]
    I, J, S = neighbor_list("ijS", at, cut)
    adj = [[] for _ in range(n)]
    for i, j, s in zip(I, J, S):
        adj[int(i)].append((int(j), tuple(int(x) for x in s)))
    comp = [-1] * n
    pot = [None] * n
    ncomp = 0
    cycles0 = []
    for root in range(n):
        if comp[root] >= 0:
            continue
        comp[root] = ncomp
        pot[root] = (0, 0, 0)
        todo = [root]
        while todo:
            a = todo.pop()
            for b, s in adj[a]:
                pb = tuple(pot[a][k] + s[k] for k in range(3))
                if comp[b] < 0:
                    comp[b] = ncomp
                    pot[b] = pb
                    todo.append(b)
                elif ncomp == 0:
                    d = tuple(pb[k] - pot[b][k] for k in range(3))
                    if any(d):
                        cycles0.append(d)
        ncomp += 1
    rank = int_rank(list(set(cycles0)))
    return ncomp, rank, [len(a) for a in adj]


def min_gap(at, radii, reach=None):
    """min over all pairs (all images) of d - r_i - r_j, and per atom the gap to its nearest neighbour"""
    rmax = float(max(radii))
    cutoff = 2 * rmax + BOND_THRESHOLD + 1.5 if reach is None else reach
    I, J, D = neighbor_list("ijd", at, cutoff)
    n = len(at)
    nn_gap = [None] * n
    nn_d = [None] * n
    gmin = None
    for i, j, d in zip(I, J, D):
        g = float(d) - float(radii[i]) - float(radii[j])
        if gmin is None or g < gmin:
            gmin = g
        if nn_d[i] is None or d < nn_d[i]:
            nn_d[i] = float(d)
            nn_gap[i] = g
    return gmin, nn_gap


def primitive_info(bulk_prim):
    """(number of atoms of the primitive cell according to spglib, lengths of the reduced primitive vectors)"""
    import spglib
    cellt = (np.array(bulk_prim.get_cell()), bulk_prim.get_scaled_positions(), bulk_prim.get_atomic_numbers())
    prim = spglib.find_primitive(cellt, symprec=1e-4)
    nprim = len(prim[2]) if prim is not None else len(bulk_prim)
    lat = np.array(prim[0]) if prim is not None else np.array(bulk_prim.get_cell())
    red, _ = minkowski_reduce(lat)
    return nprim, sorted(float(np.linalg.norm(v)) for v in red)


def precondition(ideal, dim, prim_info=None, layers=None, radii=None, margin=MARGIN,
                 max_cell_size=MAX_CELL_SIZE, need_heights=True):
    """Evaluate P1-P6 on the ideal structure.  Returns (ok, report)."""
    radii = covalent_radii[ideal.get_atomic_numbers()] if radii is None else radii
    rep = {}
    ok = True
    if prim_info is not None:
        nprim, lens = prim_info
        rep["n_primitive"] = nprim
        rep["primitive_lengths"] = [round(x, 4) for x in lens]
        if nprim > 6:
            ok = False
            rep["fail_P1"] = True
        if not all(x < max_cell_size for x in lens):
            ok = False
            rep["fail_P2"] = True
    ncomp, rank, deg = bond_network(ideal, radii, BOND_THRESHOLD - margin)
    rep["components"], rep["rank"] = ncomp, rank
    if ncomp != 1 or rank != dim:
        ok = False
        rep["fail_P3"] = "components=%d rank=%d wanted rank %d" % (ncomp, rank, dim)
    gmin, nn_gap = min_gap(ideal, radii)
    rep["min_gap"] = None if gmin is None else round(gmin, 4)
    rep["max_nn_gap"] = None if not nn_gap or any(g is None for g in nn_gap) else round(max(nn_gap), 4)
    if any(g is None or g > BOND_THRESHOLD - margin for g in nn_gap):
        ok = False
        rep["fail_P3_nn"] = True
    if gmin is None or gmin < OVERLAP_THRESHOLD + margin:
        ok = False
        rep["fail_P4"] = True
    if need_heights:
        hs = cell_heights(ideal.get_cell())
        per = [h for h, p in zip(hs, ideal.get_pbc()) if p]
        rep["periodic_heights"] = [round(h, 3) for h in per]
        if not all(h > 2 * max_cell_size for h in per):
            ok = False
            rep["fail_P5"] = True
    if layers is not None and layers not in (3, 4):
        ok = False
        rep["fail_P6"] = True
    return ok, rep


# ------------------------------------------------------------------------------------------------
# C02: prototypes
# ------------------------------------------------------------------------------------------------
def elemental_specs():
    out = []
    for z in range(1, 104):
        r = reference_states[z]
        if r and r.get("symmetry") in ("fcc", "bcc", "hcp", "diamond", "sc"):
            out.append({"proto": r["symmetry"], "name": chemical_symbols[z], "elements": [chemical_symbols[z]],
                        "a": float(r["a"]), "covera": r.get("c/a")})
    return out


# nominal lattice constants (Angstrom); the family is "the prototype decorated with these elements at
# this lattice constant", admitted only if the independent precondition holds
COMPOUNDS = {
    "rocksalt": [("NaCl", 5.64), ("MgO", 4.21), ("LiF", 4.03), ("KCl", 6.29), ("CaO", 4.81), ("TiC", 4.33), ("TiN", 4.24),
                 ("AgCl", 5.55), ("PbS", 5.94), ("KBr", 6.60), ("NaF", 4.63), ("LiCl", 5.13), ("SrO", 5.16), ("BaO", 5.52),
                 ("NiO", 4.18), ("MnO", 4.44), ("VN", 4.13), ("ZrN", 4.58), ("ZrC", 4.70), ("HfC", 4.64), ("NaBr", 5.97),
                 ("KF", 5.35), ("RbCl", 6.58), ("LiBr", 5.50), ("CaS", 5.69), ("MgS", 5.20), ("PbTe", 6.46), ("SnTe", 6.31)],
    "zincblende": [("ZnS", 5.41), ("GaAs", 5.65), ("SiC", 4.36), ("InP", 5.87), ("CdTe", 6.48), ("AlP", 5.46), ("GaP", 5.45),
                   ("InSb", 6.48), ("ZnSe", 5.67), ("CuCl", 5.41), ("BN", 3.615), ("AlAs", 5.66), ("InAs", 6.06),
                   ("GaSb", 6.10), ("ZnTe", 6.10), ("HgTe", 6.46), ("BP", 4.54), ("AlSb", 6.14), ("CuBr", 5.69), ("CdS", 5.82)],
    "cesiumchloride": [("CsCl", 4.12), ("CsBr", 4.29), ("CsI", 4.57), ("TlCl", 3.83), ("TlBr", 3.97), ("NiAl", 2.89),
                       ("CuZn", 2.95), ("FeAl", 2.91), ("CoAl", 2.86), ("AgMg", 3.31), ("FeTi", 2.98), ("NiTi", 3.01),
                       ("CuPd", 2.99), ("AuZn", 3.19), ("AgZn", 3.16), ("RuAl", 2.99)],
    "fluorite": [("CaF2", 5.46), ("SrF2", 5.80), ("BaF2", 6.20), ("CeO2", 5.41), ("ZrO2", 5.07), ("UO2", 5.47), ("ThO2", 5.60),
                 ("PbF2", 5.94), ("CdF2", 5.39),
                 # antifluorite (the cation sublattice is the 8c site): written X2Y with Y on the fcc site
                 ("OLi2", 4.62), ("ONa2", 5.55), ("OK2", 6.44), ("SiMg2", 6.35), ("SLi2", 5.71), ("SNa2", 6.53),
                 ("GeMg2", 6.39), ("SnMg2", 6.76), ("CBe2", 4.34), ("SK2", 7.41)],
}
WURTZITE = [("ZnO", 3.25, 5.21, 0.382), ("GaN", 3.19, 5.19, 0.377), ("AlN", 3.11, 4.98, 0.382), ("BeO", 2.70, 4.38, 0.378),
            ("SiC", 3.08, 5.05, 0.375), ("InN", 3.54, 5.70, 0.377), ("CdS", 4.14, 6.72, 0.377), ("ZnS", 3.82, 6.26, 0.375),
            ("CdSe", 4.30, 7.01, 0.376), ("MgTe", 4.53, 7.35, 0.375)]
PEROVSKITE = [("SrTiO3", 3.905), ("BaTiO3", 4.00), ("CaTiO3", 3.84), ("KTaO3", 3.99), ("KNbO3", 4.02), ("LaAlO3", 3.79),
              ("BaZrO3", 4.19), ("SrZrO3", 4.10), ("PbTiO3", 3.97), ("NaTaO3", 3.93), ("KMgF3", 3.99), ("CsPbBr3", 5.87),
              ("CsPbCl3", 5.60), ("CsPbI3", 6.29), ("KZnF3", 4.05), ("KNiF3", 4.01), ("BaSnO3", 4.12), ("SrSnO3", 4.03)]
RUTILE = [("TiO2", 4.594, 2.959, 0.305), ("SnO2", 4.737, 3.186, 0.307), ("MnO2", 4.40, 2.87, 0.302), ("RuO2", 4.49, 3.11, 0.306),
          ("MgF2", 4.62, 3.05, 0.303), ("GeO2", 4.40, 2.86, 0.306), ("PbO2", 4.95, 3.38, 0.31), ("CrO2", 4.42, 2.92, 0.30),
          ("VO2", 4.55, 2.85, 0.300), ("IrO2", 4.50, 3.15, 0.308), ("ZnF2", 4.70, 3.13, 0.303), ("MnF2", 4.87, 3.31, 0.305),
          ("FeF2", 4.70, 3.31, 0.300), ("CoF2", 4.70, 3.18, 0.306), ("NiF2", 4.65, 3.08, 0.302)]


def split_formula(f):
    import re
    return re.findall(r"([A-Z][a-z]?)(\d*)", f)


def compound_specs():
    out = []
    for proto, lst in COMPOUNDS.items():
        for name, a in lst:
            out.append({"proto": proto, "name": name, "a": a})
    for name, a, c, u in WURTZITE:
        out.append({"proto": "wurtzite", "name": name, "a": a, "c": c, "u": u})
    for name, a in PEROVSKITE:
        out.append({"proto": "perovskite", "name": name, "a": a})
    for name, a, c, u in RUTILE:
        out.append({"proto": "rutile", "name": name, "a": a, "c": c, "u": u})
    return out


def all_specs():
    return elemental_specs() + compound_specs()


def spec_by_name(proto, name):
    for s in all_specs():
        if s["proto"] == proto and s["name"] == name:
            return s
    raise KeyError((proto, name))


def build_cells(spec):
    """(conventional cell, primitive cell, crystal system) of the ideal bulk"""
    p = spec["proto"]
    if p in ("fcc", "bcc", "diamond", "sc"):
        el = spec["elements"][0]
        return (ase_bulk(el, p, a=spec["a"], cubic=True), ase_bulk(el, p, a=spec["a"]), "cubic")
    if p == "hcp":
        el = spec["elements"][0]
        b = ase_bulk(el, "hcp", a=spec["a"], covera=spec["covera"])
        return b, b.copy(), "hexagonal"
    if p in ("rocksalt", "zincblende", "cesiumchloride", "fluorite"):
        return (ase_bulk(spec["name"], p, a=spec["a"], cubic=True), ase_bulk(spec["name"], p, a=spec["a"]), "cubic")
    if p == "wurtzite":
        b = ase_bulk(spec["name"], "wurtzite", a=spec["a"], c=spec["c"], u=spec["u"])
        return b, b.copy(), "hexagonal"
    if p == "perovskite":
        parts = split_formula(spec["name"])
        A, B, X = parts[0][0], parts[1][0], parts[2][0]
        b = sg_crystal([A, B, X], [(0, 0, 0), (0.5, 0.5, 0.5), (0.5, 0.5, 0)], spacegroup=221,
                       cellpar=[spec["a"]] * 3 + [90, 90, 90])
        b = Atoms(numbers=b.get_atomic_numbers(), positions=b.get_positions(), cell=b.get_cell(), pbc=True)
        return b, b.copy(), "cubic"
    if p == "rutile":
        parts = split_formula(spec["name"])
        M, X = parts[0][0], parts[1][0]
        u = spec["u"]
        b = sg_crystal([M, X], [(0, 0, 0), (u, u, 0)], spacegroup=136, cellpar=[spec["a"], spec["a"], spec["c"], 90, 90, 90])
        b = Atoms(numbers=b.get_atomic_numbers(), positions=b.get_positions(), cell=b.get_cell(), pbc=True)
        return b, b.copy(), "tetragonal"
    raise ValueError(p)


def millers_for(system):
    if system == "cubic":
        return ["100", "110", "111"]          # (001) is (100) for a cubic crystal
    return ["001", "100", "110", "111"]


def reps_for(cell, which=(0, 1, 2), target=2 * MAX_CELL_SIZE):
    hs = cell_heights(cell)
    reps = [1, 1, 1]
    for k in which:
        reps[k] = int(math.floor(target / hs[k] + 1e-9)) + 1
    return reps


def build_bulk(spec, use="auto"):
    conv, prim, system = build_cells(spec)
    cands = []
    for tag, c in (("conventional", conv), ("primitive", prim)):
        r = reps_for(c.get_cell())
        cands.append((len(c) * r[0] * r[1] * r[2], tag, c, r))
    if use == "auto":
        cands.sort(key=lambda t: (t[0], t[1]))
        n, tag, c, r = cands[0]
    else:
        n, tag, c, r = [t for t in cands if t[1] == use][0]
    at = c.repeat(r)
    at.set_pbc(True)
    return at, {"cell_used": tag, "reps": r}


def build_slab(spec, miller, layers, pbc):
    conv, prim, system = build_cells(spec)
    hkl = tuple(int(ch) for ch in miller)
    s = ase_surface(conv, hkl, layers, vacuum=None, periodic=True)
    r = reps_for(s.get_cell(), which=(0, 1))
    s = s.repeat((r[0], r[1], 1))
    z = s.get_positions()[:, 2]
    thick = float(z.max() - z.min())
    cell = np.array(s.get_cell())
    # ase.build.surface puts the third vector along +z (possibly tilted); use a vertical vector with vacuum
    if pbc == "TTT":
        height = max(thick + 10.0, 2 * MAX_CELL_SIZE + 0.5)
    else:
        height = thick + 8.0
    cell[2] = [0.0, 0.0, height]
    s.set_cell(cell, scale_atoms=False)
    pos = s.get_positions()
    pos[:, 2] += (height - thick) / 2.0 - z.min()
    s.set_positions(pos)
    s.set_pbc([True, True, pbc == "TTT"])
    return s, {"reps": r, "thickness": round(thick, 3)}


def c02_key(proto, name, kind, layers, pbc, noise, seed):
    return "c02:%s:%s:%s:%s:%s:%s:%d" % (proto, name, kind, layers, pbc, ("%g" % noise), seed)


def c02_member(key, max_atoms=None):
    """Build one member from its key.  Returns dict(key, admitted, why, ideal, structure, dim, meta) --
    `admitted` False when the independent precondition fails (the member is then outside the family)."""
    _, proto, name, kind, layers, pbc, noise, seed = key.split(":")
    noise = float(noise)
    seed = int(seed)
    spec = spec_by_name(proto, name)
    conv, prim, system = build_cells(spec)
    pinfo = primitive_info(prim)
    if kind == "bulk":
        ideal, meta = build_bulk(spec)
        dim = 3
        lay = None
    else:
        lay = int(layers)
        ideal, meta = build_slab(spec, kind, lay, pbc)
        dim = 2
    meta.update({"proto": proto, "name": name, "kind": kind, "pbc": pbc, "noise": noise, "seed": seed, "n": len(ideal)})
    if max_atoms is not None and len(ideal) > max_atoms:
        return {"key": key, "admitted": False, "why": {"too_large_for_tier": len(ideal)}, "meta": meta, "dim": dim, "skipped": True}
    ok, rep = precondition(ideal, dim, pinfo, layers=lay)
    out = {"key": key, "admitted": ok, "why": rep, "meta": meta, "dim": dim}
    if not ok:
        return out
    rng = key_rng(key)
    at, order = present(ideal, rng, noise)
    out["structure"] = to_dict(at)
    out["sbc_seed"] = rng.randrange(10 ** 6)
    return out


def c02_keys_all(noises=NOISES_C02, seeds=(0,)):
    """the full enumeration of the stated family (before the precondition)"""
    keys = []
    for spec in all_specs():
        conv, prim, system = build_cells(spec)
        for noise in noises:
            for seed in seeds:
                keys.append(c02_key(spec["proto"], spec["name"], "bulk", "-", "TTT", noise, seed))
        for m in millers_for(system):
            for layers in (3, 4):
                for pbc in ("TTT", "TTF"):
                    for noise in noises:
                        for seed in seeds:
                            keys.append(c02_key(spec["proto"], spec["name"], m, layers, pbc, noise, seed))
    return keys


# the curated quick enumeration: one line per prototype class, spread over bulk / the Miller indices /
# layers / pbc / noise; all of them small enough for the quick budget
C02_QUICK = [
    ("fcc", "Cu", "bulk", "-", "TTT", 0.0), ("fcc", "Al", "100", 3, "TTF", 0.02), ("fcc", "Au", "111", 3, "TTT", 0.05),
    ("fcc", "Pb", "110", 4, "TTF", 0.0), ("fcc", "Ca", "bulk", "-", "TTT", 0.05), ("fcc", "Pt", "bulk", "-", "TTT", 0.02),
    ("bcc", "Fe", "bulk", "-", "TTT", 0.02), ("bcc", "W", "110", 3, "TTT", 0.0), ("bcc", "Na", "100", 4, "TTF", 0.05),
    ("bcc", "Cs", "bulk", "-", "TTT", 0.0), ("bcc", "Mo", "111", 3, "TTF", 0.02),
    ("hcp", "Mg", "bulk", "-", "TTT", 0.05), ("hcp", "Ti", "001", 3, "TTF", 0.0), ("hcp", "Zn", "100", 3, "TTT", 0.02),
    ("hcp", "Co", "bulk", "-", "TTT", 0.0), ("hcp", "Y", "001", 4, "TTT", 0.05),
    ("diamond", "Si", "bulk", "-", "TTT", 0.02), ("diamond", "C", "111", 3, "TTF", 0.0), ("diamond", "Ge", "100", 3, "TTT", 0.05),
    ("sc", "Po", "bulk", "-", "TTT", 0.0), ("sc", "Po", "100", 4, "TTF", 0.05),
    ("rocksalt", "NaCl", "bulk", "-", "TTT", 0.0), ("rocksalt", "MgO", "100", 3, "TTF", 0.05), ("rocksalt", "TiC", "110", 3, "TTT", 0.02),
    ("zincblende", "GaAs", "bulk", "-", "TTT", 0.05), ("zincblende", "SiC", "110", 3, "TTF", 0.0),
    ("cesiumchloride", "CsCl", "bulk", "-", "TTT", 0.02), ("cesiumchloride", "NiAl", "110", 4, "TTF", 0.0),
    ("fluorite", "CaF2", "bulk", "-", "TTT", 0.0), ("fluorite", "OLi2", "111", 3, "TTF", 0.02), ("fluorite", "CeO2", "bulk", "-", "TTT", 0.05),
    ("wurtzite", "ZnO", "bulk", "-", "TTT", 0.02), ("wurtzite", "GaN", "001", 3, "TTF", 0.0), ("wurtzite", "AlN", "100", 3, "TTT", 0.05),
    ("perovskite", "SrTiO3", "bulk", "-", "TTT", 0.0), ("perovskite", "BaTiO3", "100", 3, "TTF", 0.02), ("perovskite", "KMgF3", "bulk", "-", "TTT", 0.05),
    ("rutile", "TiO2", "bulk", "-", "TTT", 0.0), ("rutile", "SnO2", "110", 3, "TTF", 0.02), ("rutile", "MgF2", "001", 3, "TTT", 0.05),
    # further candidates (the list is longer than the quick budget because the precondition rejects some lines)
    ("fcc", "Ag", "110", 4, "TTF", 0.0), ("bcc", "Nb", "110", 3, "TTT", 0.0), ("cesiumchloride", "CsI", "bulk", "-", "TTT", 0.02),
    ("rocksalt", "KCl", "bulk", "-", "TTT", 0.02), ("zincblende", "InP", "100", 3, "TTT", 0.02), ("hcp", "Ru", "110", 3, "TTF", 0.02),
    ("fluorite", "SrF2", "110", 3, "TTT", 0.0), ("perovskite", "KTaO3", "110", 3, "TTT", 0.0), ("fcc", "Ni", "111", 4, "TTF", 0.05),
    ("bcc", "Li", "bulk", "-", "TTT", 0.05), ("diamond", "Si", "110", 4, "TTT", 0.0), ("wurtzite", "BeO", "110", 3, "TTF", 0.02),
]


def c02_quick_keys(count=None):
    """candidate keys of the curated quick enumeration, in the fixed order above (the caller drops the lines the
    precondition rejects and keeps the first `count` admitted ones)"""
    return [c02_key(p, nme, k, l, pbc, noise, i % 3) for i, (p, nme, k, l, pbc, noise) in enumerate(C02_QUICK)]


def c02_thorough_keys(rng, count):
    """a random sample (without replacement) of the full enumeration with seeds 0..9"""
    base = c02_keys_all(seeds=(0,))
    picks = rng.sample(base, min(count, len(base)))
    out = []
    for k in picks:
        parts = k.split(":")
        parts[-1] = str(rng.randrange(10))
        out.append(":".join(parts))
    return out


# ------------------------------------------------------------------------------------------------
# C03: two-metal stacks
# ------------------------------------------------------------------------------------------------
NOT_METALS = {"Ne", "Ar", "Kr", "Xe"}


def metals(sym):
    return [(s["name"], s["a"]) for s in elemental_specs() if s["proto"] == sym and s["name"] not in NOT_METALS]


def c03_pairs():
    """ordered pairs (lattice, A, B) of distinct metals of the same lattice with |a_B - a_A| / a_A < 5 %"""
    out = []
    for lat in ("fcc", "bcc"):
        ms = metals(lat)
        for (A, aA), (B, aB) in itertools.permutations(ms, 2):
            if abs(aB - aA) / aA < 0.05:
                out.append((lat, A, B))
    return out


FACES = {"fcc": ("100", "111"), "bcc": ("100", "110")}
BUILDERS = {("fcc", "100"): fcc100, ("fcc", "111"): fcc111, ("bcc", "100"): bcc100, ("bcc", "110"): bcc110}


def c03_key(lat, A, B, face, lA, lB, rep, pbc, noise, seed):
    return "c03:%s:%s:%s:%s:%d+%d:%dx%d:%s:%s:%d" % (lat, A, B, face, lA, lB, rep, rep, pbc, ("%g" % noise), seed)


def build_stack(lat, A, B, face, lA, lB, rep, pbc):
    aA = dict(metals(lat))[A]
    aB = dict(metals(lat))[B]
    kw = {"orthogonal": False} if face in ("111", "110") else {}
    slab = BUILDERS[(lat, face)](A, size=(rep, rep, lA + lB), a=aA, vacuum=None, **kw)
    tags = slab.get_tags()           # 1 = top layer ... lA+lB = bottom layer
    layer = (lA + lB) - tags         # 0 = bottom
    z = slab.get_positions()[:, 2]
    zs = sorted(set(round(float(x), 6) for x in z))
    dA = zs[1] - zs[0]
    dB = dA * aB / aA                # B keeps its own interlayer spacing, strained in-plane to A's cell
    newz = {}
    cur = 0.0
    for L in range(lA + lB):
        if L == 0:
            cur = 0.0
        elif L < lA:
            cur += dA
        elif L == lA:
            cur += 0.5 * (dA + dB)   # interface gap: the mean spacing, B continuing the stacking registry
        else:
            cur += dB
        newz[L] = cur
    pos = slab.get_positions()
    for i in range(len(slab)):
        pos[i, 2] = newz[int(layer[i])]
    numbers = [Z_OF[A] if layer[i] < lA else Z_OF[B] for i in range(len(slab))]
    thick = max(newz.values())
    cell = np.array(slab.get_cell())
    height = max(thick + 10.0, 2 * MAX_CELL_SIZE + 0.5) if pbc == "TTT" else thick + 8.0
    cell[2] = [0.0, 0.0, height]
    pos[:, 2] += (height - thick) / 2.0
    at = Atoms(numbers=numbers, positions=pos, cell=cell, pbc=[True, True, pbc == "TTT"])
    slabA = [i for i in range(len(at)) if layer[i] < lA]
    slabB = [i for i in range(len(at)) if layer[i] >= lA]
    return at, slabA, slabB, {"aA": aA, "aB": aB, "strain": round((aA - aB) / aB, 4), "dA": round(dA, 4), "dB": round(dB, 4)}


def c03_precondition(at, slabA, slabB, lA, lB, strain, margin=MARGIN):
    radii = covalent_radii[at.get_atomic_numbers()]
    rep = {"strain": strain}
    ok = abs(strain) <= 0.0527 and 3 <= lA <= 5 and 3 <= lB <= 5   # mismatch < 5 % of a_A <=> strain of B below 5.27 %
    for nm, idx in (("A", slabA), ("B", slabB)):
        sub = at[idx]
        ncomp, rank, _ = bond_network(sub, radii[idx], BOND_THRESHOLD - margin)
        gmin, nn_gap = min_gap(sub, radii[idx])
        rep[nm] = {"components": ncomp, "rank": rank, "min_gap": round(gmin, 4), "max_nn_gap": round(max(nn_gap), 4)}
        if ncomp != 1 or rank != 2 or gmin < OVERLAP_THRESHOLD + margin or max(nn_gap) > BOND_THRESHOLD - margin:
            ok = False
    ncomp, rank, _ = bond_network(at, radii, BOND_THRESHOLD - margin)
    gmin, _ = min_gap(at, radii)
    rep["stack"] = {"components": ncomp, "rank": rank, "min_gap": round(gmin, 4)}
    if ncomp != 1 or rank != 2 or gmin < OVERLAP_THRESHOLD + margin:   # interface at a bonding, non-overlapping distance
        ok = False
    return ok, rep


def c03_member(key, max_atoms=None):
    _, lat, A, B, face, ls, reps, pbc, noise, seed = key.split(":")
    lA, lB = [int(x) for x in ls.split("+")]
    rep = int(reps.split("x")[0])
    noise = float(noise)
    ideal, slabA, slabB, meta = build_stack(lat, A, B, face, lA, lB, rep, pbc)
    ok, why = c03_precondition(ideal, slabA, slabB, lA, lB, meta["strain"])
    meta.update({"lat": lat, "A": A, "B": B, "face": face, "layers": [lA, lB], "rep": rep, "pbc": pbc, "noise": noise,
                 "seed": int(seed), "n": len(ideal)})
    out = {"key": key, "admitted": ok, "why": why, "meta": meta, "dim": 2}
    if not ok:
        return out
    rng = key_rng(key)
    at, order = present(ideal, rng, noise)
    inv = {old: new for new, old in enumerate(order)}
    out["structure"] = to_dict(at)
    out["slabs"] = [sorted(inv[i] for i in slabA), sorted(inv[i] for i in slabB)]
    out["sbc_seed"] = rng.randrange(10 ** 6)
    return out


def c03_member_asbuilt(key, k):
    """the member of `key` as ASE builds it -- no rotation, no translation, no permutation; the lower slab starts on the cell
    face z = 0 -- rattled with the member's noise, with the k-th further SBC seed.  Key: <key>:asbuilt:<k>."""
    m = c03_member(key)
    if not m.get("admitted"):
        return m
    _, lat, A, B, face, ls, reps, pbc, noise, seed = key.split(":")
    lA, lB = [int(x) for x in ls.split("+")]
    ideal, slabA, slabB, _ = build_stack(lat, A, B, face, lA, lB, int(reps.split("x")[0]), pbc)
    rng = key_rng(key + ":asbuilt:%d" % k)
    # build_stack centres the stack in its cell; ASE's builders put the lowest layer ON the face z = 0
    ideal = ideal.copy()
    p0 = ideal.get_positions()
    p0[:, 2] -= p0[:, 2].min()
    ideal.set_positions(p0)
    at, order = present(ideal, rng, float(noise), rotate=False, translate=False, permute=False)
    out = dict(m)
    out["key"] = key + ":asbuilt:%d" % k
    out["structure"] = to_dict(at)
    out["slabs"] = [sorted(slabA), sorted(slabB)]
    out["sbc_seed"] = rng.randrange(10 ** 6)
    out["meta"] = dict(m["meta"], asbuilt=k)
    return out


def c03_member_superlattice(key, k):
    """the two slabs of member `key` stacked PERIODICALLY without vacuum (cell height = stack height + the interface gap: both
    interfaces at the bonding distance), as ASE builds it (lowest layer on the face z = 0, axes aligned), rattled by 0.03 A, with
    the k-th further SBC seed.  Each slab is still a 2D object of one element; the expected answer is the two slabs.
    Key: <key>:superlattice:<k>."""
    m = c03_member(key)
    if not m.get("admitted"):
        return m
    _, lat, A, B, face, ls, reps, pbc, noise, seed = key.split(":")
    lA, lB = [int(x) for x in ls.split("+")]
    ideal, slabA, slabB, meta = build_stack(lat, A, B, face, lA, lB, int(reps.split("x")[0]), "TTT")
    at = ideal.copy()
    p0 = at.get_positions()
    p0[:, 2] -= p0[:, 2].min()
    cell = np.array(at.get_cell())
    cell[2] = [0.0, 0.0, float(p0[:, 2].max()) + 0.5 * (meta["dA"] + meta["dB"])]
    at.set_cell(cell, scale_atoms=False)
    at.set_positions(p0)
    rng = key_rng(key + ":superlattice:%d" % k)
    at2, order = present(at, rng, 0.03, rotate=False, translate=False, permute=False)
    out = dict(m)
    out["key"] = key + ":superlattice:%d" % k
    out["structure"] = to_dict(at2)
    out["slabs"] = [sorted(slabA), sorted(slabB)]
    out["sbc_seed"] = rng.randrange(10 ** 6)
    out["meta"] = dict(m["meta"], superlattice=k, pbc="TTT", noise=0.03)
    return out


def c03_keys_all(seeds=(0,)):
    keys = []
    for lat, A, B in c03_pairs():
        for face in FACES[lat]:
            for lA in (3, 4, 5):
                for lB in (3, 4, 5):
                    for rep in (4, 5):
                        for pbc in ("TTT", "TTF"):
                            for noise in NOISES_C03:
                                for seed in seeds:
                                    keys.append(c03_key(lat, A, B, face, lA, lB, rep, pbc, noise, seed))
    return keys


def c03_quick_keys(count=None):
    """candidate keys of the quick enumeration: one member per ordered pair (fcc and bcc pairs interleaved), cycling
    through faces, thicknesses, lateral sizes, pbc and noise; the caller drops the pairs the precondition rejects and
    keeps the first `count` admitted ones"""
    pairs = c03_pairs()
    f = [p for p in pairs if p[0] == "fcc"]
    b = [p for p in pairs if p[0] == "bcc"]
    inter = []
    for i in range(max(len(f), len(b))):
        if i < len(f):
            inter.append(f[i])
        if i < len(b):
            inter.append(b[i])
    keys = []
    lay = [(3, 3), (3, 4), (4, 3), (5, 3), (3, 5), (4, 4)]
    for i, (lat, A, B) in enumerate(inter):
        face = FACES[lat][(i // 2) % 2]
        lA, lB = lay[i % len(lay)]
        rep = 4 if (i // 2) % 2 == 0 else 5
        pbc = "TTF" if i % 3 == 0 else "TTT"
        noise = NOISES_C03[(i // 3) % 2]
        keys.append(c03_key(lat, A, B, face, lA, lB, rep, pbc, noise, i % 4))
    return keys


def c03_thorough_keys(rng, count):
    base = c03_keys_all(seeds=(0,))
    picks = rng.sample(base, min(count, len(base)))
    out = []
    for k in picks:
        parts = k.split(":")
        parts[-1] = str(rng.randrange(10))
        out.append(":".join(parts))
    return out
