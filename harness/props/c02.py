"""C02 -- SBC groups a single crystal (bulk or slab) into exactly one complete cluster.

LEVEL = other.  What this check is, plainly:
  (1) a CONDITIONAL theorem, kernel-checked (Properties/C02.v over coq/Sbc/Conditional*.v): IF every call
      of the periodic finder on the input honours the strong contract F1 (a region is returned and seed +
      basis indices are the whole crystal; the search mask contains the seed), THEN for every seed-choice
      sequence, set-iteration order and distance data the modelled pipeline driver -> merge -> localize ->
      clean makes exactly one finder call and returns exactly one cluster that contains every atom, and the
      dimensionality shortcut of that cluster is the direct evaluation on all atoms (C13);
  (2) a CONTRACT-CONFORMANCE RUN of the real SBC().get_clusters (default parameters) on a curated,
      deterministic enumeration of the family stated in the property (harness/props/crystal_family.py:
      prototypes x bulk/slab x Miller x layers x pbc x noise x SO(3)/translation/permutation/seed), with a
      logging wrapper around the real finder: F0/F1 are evaluated per call, and the property's own
      conclusion (exactly one cluster, all atoms, get_dimensionality() = 3 bulk / 2 slab) is evaluated
      directly on the returned clusters.
It is NOT a proof of the for-all claim: that the real finder (about 1300 lines of floating-point search
heuristics, not modelled) honours F1 on every member of the family is observed on the enumerated members.
"""
import glob
import json
import os
import time

from lib import common as C
from props import crystal_family as F
from props import sbc_terms as T

LEVEL = "other"
ENUMERATION_SEED = 20260929
STATIC = ["Sbc/ConditionalProofs.vo", "Sbc/Conditional.vo", "Sbc/PipelineProofs.vo", "Sbc/Pipeline.vo",
          "Sbc/ClusterCacheProofs.vo", "Base/CaseUtil.vo"]
PID = "C02"
IMPL = "c02_impl"
JOBS = 8
DEFAULT_PARAMS = {"bond_threshold": 0.65, "merge_threshold": 0.5, "merge_radius": 1, "max_cell_size": 6, "pos_tol": 0.7}

EXPLANATION = (
    "conditional theorem (kernel-checked: IF the periodic finder honours contract F1 on the input THEN the modelled "
    "driver/merge/localize/clean pipeline returns exactly the crystallites) + conformance run of the oracle contract "
    "and of the property's own conclusion on an enumerated family with the real finder; NOT a proof of the for-all "
    "claim -- the finder's search heuristics are an unmodelled oracle whose success is tested, not proved")


# ------------------------------------------------------------------------------------------------
# running and judging one family
# ------------------------------------------------------------------------------------------------
def run_impl(cases, jobs=JOBS):
    if not cases:
        return {}
    order = sorted(cases, key=lambda c: -len(c["structure"]["numbers"]) ** 2)
    chunks = [[] for _ in range(jobs)]
    load = [0.0] * jobs
    for c in order:                      # greedy balancing by n^2
        k = load.index(min(load))
        chunks[k].append(c)
        load[k] += len(c["structure"]["numbers"]) ** 2
    chunks = [ch for ch in chunks if ch]
    outs = C.impl_run_parallel(IMPL, [{"cases": ch} for ch in chunks], timeout=20000, jobs=jobs)
    res = {}
    for o in outs:
        for r in o["results"]:
            res[r["id"]] = r
    res["_shim"] = outs[0].get("shim") if outs else None
    return res


def judge(member, r):
    """Evaluate (a) the property's own conclusion, (b) the contracts per call.
    member: {key, structure, classes: [[indices]...], dim}.  Returns dict(fails=[...], f0=[], f1_strict=[], f1_weak=[])."""
    out = {"fails": [], "f0": [], "f1_strict": [], "f1_weak": [], "calls": 0, "none_calls": 0}
    n = len(member["structure"]["numbers"])
    if r is None:
        out["fails"].append({"what": "no result from the runner"})
        return out
    if r.get("timeout"):
        out["fails"].append({"what": "get_clusters did not return within the time limit", "calls_made": r.get("calls_made")})
        return out
    if r.get("error"):
        out["fails"].append({"what": "exception", "error": r["error"]})
        return out
    if r.get("immutable") is False:
        out["fails"].append({"what": "input structure mutated"})
    classes = [sorted(c) for c in member["classes"]]
    final = sorted(sorted(int(i) for i in c) for c in r["final"])
    if final != sorted(classes):
        out["fails"].append({"what": "clusters are not exactly the crystallites",
                             "cluster_sizes": [len(c) for c in r["final"]], "expected_sizes": [len(c) for c in classes],
                             "missing_atoms": sorted(set(range(n)) - set(i for c in r["final"] for i in c))[:20]})
    for k, d in enumerate(r.get("dims", [])):
        if d["shortcut"] != member["dim"] or d["again"] != d["shortcut"]:
            out["fails"].append({"what": "cluster dimensionality", "cluster": k, "got": d["shortcut"], "again": d["again"],
                                 "direct": d["direct"], "expected": member["dim"]})
            break
    cls_of = {}
    for ci, c in enumerate(classes):
        for i in c:
            cls_of[i] = ci
    out["calls"] = len(r["calls"])
    for k, c in enumerate(r["calls"]):
        s = c["seed"]
        ok0 = s in c["mask"] and all(0 <= i < n for i in c["mask"]) and c.get("mask_len", n) == n
        if c["basis"] is not None:
            ok0 = ok0 and all(0 <= i < n for i in c["basis"]) and c["pbc"] is not None and sum(c["pbc"]) in (2, 3) \
                and c.get("basis_raw_ok", True)
        if not ok0:
            out["f0"].append(k)
        mine = classes[cls_of[s]]
        mask_ok = all(cls_of[i] == cls_of[s] for i in c["mask"])
        if c["basis"] is None:
            out["none_calls"] += 1
            out["f1_strict"].append(k)
            if not (ok0 and mask_ok):
                out["f1_weak"].append(k)
        else:
            whole = sorted(set(c["basis"]) | {s}) == mine
            if not (ok0 and mask_ok and whole):
                out["f1_strict"].append(k)
                out["f1_weak"].append(k)
    return out


def coq_replay(name, members, res, limit_atoms, limit_count):
    """model correspondence on the logged runs: the Coq pipeline replayed on the finder log must reproduce the
    stage snapshots of the implementation (agree_run of Sbc/Pipeline.v) and F0 must hold on the log"""
    terms = []
    for m in members:
        r = res.get(m["id"])
        if r is None or r.get("error") or r.get("timeout") or "near" not in r:
            continue
        if r["n"] > limit_atoms or len(terms) >= limit_count:
            continue
        st = r.get("stages") or {}
        if not all(k in st for k in ("drive", "merge", "local", "clean")):
            continue
        case = {"params": DEFAULT_PARAMS, "structure": m["structure"]}
        term = "(%s && f0_log %d %s)" % (T.agree_run_term(case, r, T.log_finder(r["calls"])), r["n"], T.log_entries(r["calls"]))
        terms.append((m["id"], term))
    if not terms:
        return [], [], 0
    failing, errors = C.coq_case_files(name, T.PREAMBLE, terms, per_file=1)
    return failing, errors, len(terms)


def load_corpus(pid):
    out = []
    for p in sorted(glob.glob(os.path.join(C.VERIF, "corpus", pid, "*.json"))):
        with open(p) as f:
            c = json.load(f)
        c["corpus"] = os.path.basename(p)
        out.append(c)
    return out


def replay_case(member, r=None):
    rep = {"key": member["key"], "structure": member["structure"], "seed": member["seed"], "classes": member["classes"],
           "dim": member["dim"], "meta": member.get("meta")}
    return rep


def run_family(ctx, pid, members, family_text, model_atoms, model_count):
    """members: [{id, key, structure, seed, classes, dim, meta}].  Shared by C02 and C03."""
    cases = [{"id": m["id"], "key": m["key"], "structure": m["structure"], "seed": m["seed"],
              "model": len(m["structure"]["numbers"]) <= model_atoms, "time_limit": 900} for m in members]
    t0 = time.time()
    res = run_impl(cases)
    t_impl = time.time() - t0
    ctx.coverage["shim_mode"] = res.get("_shim")
    known = C.load_known(pid)
    verdicts = {}
    stats = {"members": len(members), "finder_calls": 0, "calls_returning_None": 0, "F0_violations": 0,
             "members_with_F1_strict_on_every_call": 0, "members_with_F1_weak_on_every_call": 0,
             "contract_deviation_but_property_holds": [], "region_cell_periodic_axes": {}, "by_prototype": {}, "by_kind": {},
             "by_pbc": {}, "by_noise": {}, "atoms_min": None, "atoms_max": None, "wall_per_member_max": 0.0}
    nontrivial = 0
    seen = set()
    failing = []
    for m in members:
        r = res.get(m["id"])
        v = judge(m, r)
        verdicts[m["id"]] = v
        n = len(m["structure"]["numbers"])
        stats["atoms_min"] = n if stats["atoms_min"] is None else min(n, stats["atoms_min"])
        stats["atoms_max"] = n if stats["atoms_max"] is None else max(n, stats["atoms_max"])
        meta = m.get("meta") or {}
        for fld, tgt in (("proto", "by_prototype"), ("lat", "by_prototype"), ("kind", "by_kind"), ("face", "by_kind"),
                         ("pbc", "by_pbc"), ("noise", "by_noise")):
            if fld in meta:
                stats[tgt][str(meta[fld])] = stats[tgt].get(str(meta[fld]), 0) + 1
        stats["finder_calls"] += v["calls"]
        stats["calls_returning_None"] += v["none_calls"]
        stats["F0_violations"] += len(v["f0"])
        if r and r.get("calls"):
            for c in r["calls"]:
                if c["pbc"] is not None:
                    kk = str(sum(c["pbc"]))
                    stats["region_cell_periodic_axes"][kk] = stats["region_cell_periodic_axes"].get(kk, 0) + 1
            stats["wall_per_member_max"] = max(stats["wall_per_member_max"], r.get("wall", 0.0))
        if not v["f1_strict"] and v["calls"]:
            stats["members_with_F1_strict_on_every_call"] += 1
        if not v["f1_weak"] and v["calls"]:
            stats["members_with_F1_weak_on_every_call"] += 1
        if v["fails"]:
            failing.append(m)
        elif v["f1_weak"] or v["f0"]:
            stats["contract_deviation_but_property_holds"].append(m["key"])
        productive = bool(r and any(c["basis"] is not None for c in r.get("calls", [])) and r.get("final"))
        if productive and m["key"] not in seen:
            nontrivial += 1
        seen.add(m["key"])
    # model correspondence on the logged runs
    t1 = time.time()
    cf, cerr, nterms = coq_replay(pid.lower() + "_log", members, res, model_atoms, model_count)
    t_coq = time.time() - t1
    samples = []
    for m in members[:3]:
        r = res.get(m["id"]) or {}
        samples.append({"key": m["key"], "n_atoms": len(m["structure"]["numbers"]), "finder_calls": len(r.get("calls", [])),
                        "cluster_sizes": [len(c) for c in r.get("final", [])], "dims": [d["shortcut"] for d in r.get("dims", [])]})
    ctx.add_cases(len(members), nontrivial, samples)
    ctx.coverage["rule"] = ("one evaluation = one family member run through the real SBC().get_clusters with the logging finder; "
                            "non-trivial iff the real finder returned at least one region and at least one cluster came back "
                            "(the run went through driver, merge, localize and clean with real regions); distinct by member key")
    ctx.coverage["input_distribution"] = dict(stats, family=family_text)
    ctx.coverage["counts"] = {"members": len(members), "model_replays_in_coq": nterms}
    ctx.coverage["timing_s"] = {"impl": round(t_impl, 1), "coq_replay": round(t_coq, 1)}
    ctx.coverage["exhaustive"] = False
    by_id = {m["id"]: m for m in members}
    return res, verdicts, failing, [by_id[i] for i in cf], cerr, known


def verdict(ctx, pid, broken, res, verdicts, failing, corr_fail, corr_err, known, n_members, conclusion_text):
    reported = 0
    n_known = 0
    for m in failing:
        k = C.known_match(known, m["key"])
        if k:
            ctx.known_finding(k, what="%s -- %s" % (m["key"], k.get("description", "")[:160]))
            n_known += 1
            continue
        if reported >= 3:
            continue
        rep = {"kind": "property-fails-on-implementation", "key": m["key"], "failure": verdicts[m["id"]]["fails"][:3],
               "case": replay_case(m), "finder_calls": [
                   {"seed": c["seed"], "region_atoms": None if c["basis"] is None else len(set(c["basis"]) | {c["seed"]}),
                    "region_periodic_axes": None if c["pbc"] is None else sum(c["pbc"]), "mask_atoms": len(c["mask"])}
                   for c in (res.get(m["id"]) or {}).get("calls", [])[:12]],
               "broken_obligation": broken or None,
               "how": "SBC().get_clusters(Atoms(**case.structure), seed=case.seed) with default parameters; expected " + conclusion_text,
               "shrinking": "not shrunk: removing atoms would leave the stated family"}
        ctx.violation(rep, found_input=True)
        reported += 1
    ctx.coverage["failing_members"] = [m["key"] for m in failing]
    ctx.coverage["known_findings_matched"] = n_known
    if corr_err:
        broken.append({"stage": "correspond", "error": corr_err[0]})
    if corr_fail:
        broken.append({"stage": "correspond", "relation": "agree_run / f0_log (Sbc/Pipeline.v) on the logged run",
                       "members": [m["key"] for m in corr_fail][:5]})
    if broken and not reported:
        rep = {"kind": "correspondence-or-proof-broken", "broken": broken[0],
               "searched": "the property's own conclusion (%s) evaluated on all %d enumerated members: no failing input other "
                           "than known findings" % (conclusion_text, n_members)}
        if corr_fail:
            rep["case"] = replay_case(corr_fail[0])
        ctx.violation(rep, found_input=False)


def common_context(ctx):
    ctx.coverage["explanation"] = EXPLANATION
    ctx.add_trusted(
        "hand-written Gallina model coq/Sbc/{Common,Driver,Merge,Localize,Clean,Pipeline}.v of matid/clustering/sbc.py (C01's correspondence ties it to the tree; here it is additionally replayed on the logged runs of the smaller members)",
        "ORACLE, not modelled: PeriodicFinder.get_region.  Its contract F1 (returns a region; seed + basis = the seed's crystallite; mask contains the seed and only atoms of that crystallite) is an assumption of the theorem and is only observed on the enumerated family",
        "oracles as Section variables: numpy Generator.choice (returns a member), CPython set iteration order (any duplicate-free enumeration)",
        "the family generator and the independent precondition harness/props/crystal_family.py (ASE builders, ASE neighbour list, covalent radii of ase.data; nominal lattice constants of the compound prototypes)",
        "matid.geometry.get_dimensionality as the meaning of 'cluster dimensionality' (C09/C13); harness-side logging wrapper harness/impl/sbc_common.py",
    )


# ------------------------------------------------------------------------------------------------
def build_members(keys, max_atoms, builder):
    members, rejected, skipped = [], {}, 0
    for k in keys:
        m = builder(k, max_atoms) if max_atoms is not None else builder(k)
        if m.get("skipped"):
            skipped += 1
            continue
        if not m["admitted"]:
            why = ",".join(sorted(x for x in m["why"] if x.startswith("fail"))) or "precondition"
            rejected[why] = rejected.get(why, 0) + 1
            continue
        members.append(m)
    return members, rejected, skipped


def run(ctx):
    common_context(ctx)
    ctx.assumptions += [
        "contract F1 on every finder call made on this input (ASSUMED by C02_partial; observed per call in the run)",
        "merge_threshold >= 0 (default 0.5): an overlap of 0 never exceeds it (strict >)",
        "the crystal is bonded: every atom is reached from every other by pairs with clip(D - radii) <= bond_threshold (premise of the property; evaluated independently with margin 0.15 A by the family precondition)",
        "n >= 1 atoms",
    ]
    broken = []
    pres = C.prove_property(PID)
    ctx.record_proof(pres)
    if pres["failed"]:
        broken.append({"stage": "prove", "file": pres["failed"]["path"], "error": pres["failed"]["out"][-1500:]})

    quick = ctx.tier == "quick"
    # the enumeration is fixed by a constant, NOT by VERIF_SEED: members on which the pinned tree fails are listed one by one in
    # known_findings.json, which is only possible for a fixed list (every member carries its own seed, derived from its key)
    import random as _random
    keys = F.c02_quick_keys(40) if quick else F.c02_thorough_keys(_random.Random(ENUMERATION_SEED), 2000)
    max_atoms = 330 if quick else 420
    built, rejected, skipped = build_members(keys, max_atoms, F.c02_member)
    built = built[:40] if quick else built[:600]
    # slabs with a non-periodic direction and low-coordinated surface atoms (diamond / zincblende (100), rocksalt (111)): the
    # members on which a wrong treatment of mixed periodicity in the distances shows first; appended, so that the members above
    # stay what they were
    extra_keys = [F.c02_key(p_, n_, k_, l_, "TTF", noise_, sd_)
                  for (p_, n_, k_, l_, noise_) in (("diamond", "Si", "100", 4, 0.0), ("diamond", "C", "100", 3, 0.02), ("diamond", "Ge", "100", 4, 0.0),
                                                   ("rocksalt", "NaCl", "111", 4, 0.0), ("rocksalt", "MgO", "111", 3, 0.02),
                                                   ("zincblende", "ZnS", "100", 4, 0.0), ("zincblende", "GaAs", "111", 4, 0.05))
                  for sd_ in ((1, 2) if quick else (1, 2, 3, 4, 5))]
    eb, er, es = build_members([k_ for k_ in extra_keys if k_ not in {m["key"] for m in built}], max_atoms, F.c02_member)
    built = built + eb
    members = []
    for c in load_corpus(PID):
        members.append({"id": len(members), "key": c["key"], "structure": c["structure"], "seed": c["seed"],
                        "classes": c["classes"], "dim": c["dim"], "meta": c.get("meta")})
    have = {m["key"] for m in members}
    for m in built:
        if m["key"] in have:
            continue
        n = len(m["structure"]["numbers"])
        members.append({"id": len(members), "key": m["key"], "structure": m["structure"], "seed": m["sbc_seed"],
                        "classes": [list(range(n))], "dim": m["dim"], "meta": m["meta"]})
        # slabs with a non-periodic direction once more, translated rigidly by a multiple of the non-periodic cell vector
        # (the whole slab stored outside its cell: +1, -1 or +2.5 cell lengths); every third such member in the quick tier
        pbc = m["structure"]["pbc"]
        if not all(pbc) and (not quick or len(members) % 3 == 0):
            import numpy as _np
            ax = [i for i in range(3) if not pbc[i]][0]
            kfar = (1.0, -1.0, 2.5)[len(members) % 3]
            st = dict(m["structure"])
            st["positions"] = (_np.array(st["positions"]) + kfar * _np.array(st["cell"])[ax]).tolist()
            members.append({"id": len(members), "key": m["key"] + ":far%+g" % kfar, "structure": st, "seed": m["sbc_seed"],
                            "classes": [list(range(n))], "dim": m["dim"], "meta": dict(m["meta"], far=kfar)})
    fam = ("C02 family: elemental fcc/bcc/hcp/diamond/sc (ase.data.reference_states) and rocksalt/zincblende/CsCl/(anti)fluorite/"
           "wurtzite/perovskite/rutile prototypes passing the independent precondition (<= 6 atoms and vectors < 6 A in the reduced "
           "primitive cell; bonded network connected with periodic rank 3 (bulk) / 2 (slab) and no overlap, margin 0.15 A; periodic "
           "cell heights > 12 A); bulk supercells and (100)/(110)/(111)/(001) slabs of 3-4 layers, pbc TTT/TTF, noise 0/0.02/0.05 A, "
           "random SO(3) rotation, translation, permutation, SBC seed -- all derived from the member key")
    ctx.coverage["family_enumeration"] = {"keys_drawn": len(keys), "rejected_by_precondition": rejected,
                                          "skipped_too_large_for_tier": skipped, "max_atoms": max_atoms,
                                          "corpus": len(have)}
    res, verdicts, failing, corr_fail, corr_err, known = run_family(
        ctx, PID, members, fam, model_atoms=160 if quick else 220, model_count=16 if quick else 80)
    verdict(ctx, PID, broken, res, verdicts, failing, corr_fail, corr_err, known, len(members),
            "exactly one cluster, containing every atom, with get_dimensionality() == %s" % "3 (bulk) / 2 (slab)")


def replay(ctx, rep):
    case = rep.get("case")
    if not case:
        pres = C.prove_property(PID)
        if pres["failed"]:
            ctx.violation(rep, found_input=False)
        else:
            print("replay: the proof obligations hold now")
        return
    m = {"id": 0, "key": case["key"], "structure": case["structure"], "seed": case["seed"], "classes": case["classes"],
         "dim": case["dim"], "meta": case.get("meta")}
    res = run_impl([{"id": 0, "key": m["key"], "structure": m["structure"], "seed": m["seed"], "model": len(m["structure"]["numbers"]) <= 220,
                     "time_limit": 900}], jobs=1)
    v = judge(m, res.get(0))
    if v["fails"]:
        ctx.violation(dict(rep, failure_now=v["fails"][:3]), found_input=True)
        return
    cf, cerr, _ = coq_replay(PID.lower() + "_replay", [m], res, 220, 1)
    if cf or cerr:
        ctx.violation(dict(rep, relation_now="agree_run / f0_log still disagree on the logged run"), found_input=False)
        return
    print("replay: the property's conclusion holds on this input now")
