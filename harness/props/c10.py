"""C10 -- the displacement tensor is a sound and, within range, exact minimum-image table.

prove (Properties/C10.v over the static theory Geometry/{Extend,CellList,DispTensor}*.v)
-> correspond (grid inputs; matid.geometry.get_displacement_tensor / get_distances running the
   *current* C++ sources; agreement relation GeoAgree.c10_agree evaluated inside Coq)
-> on any break: the property's own predicate (brute-force lattice sums) on the implementation.
"""
import json
import os
import time
from fractions import Fraction

from lib import common as C
from lib import geo_exact as X
from lib import geo_gen as GEN

LEVEL = "proof"
STATIC = ["Base/ZV3.vo", "Base/CaseUtil.vo", "Geometry/Extend.vo", "Geometry/ExtendProofs.vo", "Geometry/CellList.vo",
          "Geometry/CellListProofs.vo", "Geometry/DispTensor.vo", "Geometry/DispTensorProofs.vo", "Geometry/GeoAgree.vo"]
CORPUS = os.path.join(C.VERIF, "corpus", "C10")


# ------------------------------------------------------------------------------------------
def case_key(c):
    return C.sha(json.dumps([c["cell"], c["pbc"], c["pos"], c["cutoff"], c["api"]], sort_keys=True, default=list))[:16]


def load_corpus():
    out = []
    if os.path.isdir(CORPUS):
        for fn in sorted(os.listdir(CORPUS)):
            if fn.endswith(".json"):
                with open(os.path.join(CORPUS, fn)) as f:
                    d = json.load(f)
                for c in (d if isinstance(d, list) else [d]):
                    c = dict(c)
                    c["cell"] = tuple(tuple(v) for v in c["cell"])
                    c["pos"] = [tuple(p) for p in c["pos"]]
                    c["pbc"] = tuple(bool(x) for x in c["pbc"])
                    c.setdefault("api", "tensor")
                    c.setdefault("cutoff_kind", "corpus")
                    c.setdefault("cell_kind", "corpus")
                    c["corpus"] = fn
                    out.append(c)
    return out


def run_impl(cases, jobs=None):
    """returns dict id -> result"""
    jobs = jobs or C.NCPU
    chunks = [cases[i::jobs] for i in range(jobs)]
    chunks = [ch for ch in chunks if ch]
    outs = C.impl_run_parallel("c10_impl", [{"cases": ch} for ch in chunks])
    res = {}
    modes = set()
    for o in outs:
        modes.add(o["mode"])
        for r in o["results"]:
            res[r["id"]] = r
    return res, modes


def table(out):
    """canonicalise: n x n entries ('inf' | ('fin', d, disp, fac) | 'bad'), numbers as Fractions in grid units"""
    n = len(out["dist"])
    tab = []
    for i in range(n):
        row = []
        for j in range(n):
            d = X.fx(out["dist"][i][j])
            dv = [X.fx(h) for h in out["disp"][i][j]]
            fv = [X.fx_raw(h) for h in out["fac"][i][j]]
            allv = [d] + dv + fv
            if all(v == "inf" for v in allv):
                row.append("inf")
            elif any(isinstance(v, str) for v in allv):
                row.append("bad")
            else:
                row.append(("fin", d, tuple(dv), tuple(fv)))
        tab.append(row)
    return tab


def side_conditions(out):
    """observed, not modelled: the wrapper must not modify its input; get_distances' radii-corrected
    matrix is dist - (r_i + r_j) bit-exactly"""
    bad = []
    if out.get("input_unchanged") is False:
        bad.append("get_displacement_tensor modified an array argument of the caller: %s (the pbc flags are handed over as one boolean ndarray "
                   "that the caller keeps using: two calls with cutoffs 0.25 and 1.0, then the examined call)" % ", ".join(out.get("input_changed") or ["positions"]))
    if out.get("history_same") is False:
        bad.append("the table of this structure changed after other library calls on it in the same process (Classifier.classify, "
                   "SBC.get_clusters, get_dimensionality, earlier get_displacement_tensor calls with other cutoffs) or after the caller "
                   "overwrote arrays returned by an earlier call: the result is not a function of the input")
    if out.get("radii_ok") is False:
        bad.append("get_distances: dist_matrix_radii_mic != dist_matrix_mic - (r_i + r_j)")
    return bad


def coq_term(c, out):
    if "error" in out or side_conditions(out):
        return "false"
    tab = table(out)
    rows = []
    for row in tab:
        ents = []
        for e in row:
            if e == "inf":
                ents.append("IInf")
            elif e == "bad":
                ents.append("IBad")
            else:
                ents.append("(IFin %s %s %s)" % (X.ql(e[1]), X.q3l(e[2]), X.q3l(e[3])))
        rows.append(X.listl(ents))
    a, b, cc = c["cell"]
    # The padding only shapes the bins; by C10_query_eq_filter the candidates found -- hence the table --
    # are the same for every p > 0.  One case in eight is evaluated with the real padding (the double
    # nearest 0.0001, a 54-bit denominator that makes Coq's binary arithmetic slow), the others with 1/4
    # grid unit.  The C16 check compares the bin geometry itself with the real padding.
    pad = X.PAD if c.get("id", 0) % 8 == 0 else Fraction(1, 4)
    return "(c10_agree %s %s %s %s %s %s %s %s %s)" % (
        X.ql(pad), X.v3l(a), X.v3l(b), X.v3l(cc), X.pbcl(c["pbc"]), X.cutl(c["cutoff"]),
        X.listl([X.v3l(p) for p in c["pos"]]), X.v3l(out["N"]), X.listl(rows))


# ------------------------------------------------------------------------------------------
# the property's own predicate, evaluated on the implementation's output with a brute-force oracle
def predicate_failures(c, out):
    """list of human-readable failures of the C10 statement on this input (atoms must be inside the
    cell for the statement to apply; returns None when the precondition does not hold)"""
    cell, pbc, pos, cutoff = c["cell"], c["pbc"], c["pos"], c["cutoff"]
    if X.vol(cell) == 0 or not all(X.in_cell(cell, pbc, p) for p in pos):
        return None
    if "error" in out:
        return ["implementation raised " + out["error"]]
    if side_conditions(out):
        return side_conditions(out)
    tab = table(out)
    n = len(pos)
    R2 = X.longest2(cell, pbc) if cutoff is None else cutoff * cutoff
    fails = []
    if len(tab) != n:
        return ["table has %d rows for %d atoms" % (len(tab), n)]
    for i in range(n):
        for j in range(n):
            e = tab[i][j]
            if e == "bad":
                fails.append("(%d,%d): entry partly infinite / nan" % (i, j))
                continue
            if i == j:
                if e == "inf" or e[1] != 0 or any(e[2]) or any(e[3]):
                    fails.append("(%d,%d): diagonal not zero" % (i, j))
                continue
            tmin, _ = X.min_image(cell, pbc, pos[i], pos[j])
            if e == "inf":
                if cutoff is None:
                    fails.append("(%d,%d): infinite entry with an unbounded cutoff" % (i, j))
                elif tmin <= R2:
                    fails.append("(%d,%d): true minimum-image distance^2 %s <= cutoff^2 %s but reported infinite" % (i, j, tmin, R2))
                continue
            _, d, dv, fv = e
            if any(f.denominator != 1 for f in fv):
                fails.append("(%d,%d): non-integer factor" % (i, j))
                continue
            f = tuple(int(x) for x in fv)
            if any(f[k] != 0 and not pbc[k] for k in range(3)):
                fails.append("(%d,%d): factor %s non-zero along a non-periodic axis" % (i, j, f))
            v = X.sub(X.sub(pos[i], pos[j]), X.lat(cell, f))
            if tuple(dv) != tuple(Fraction(x) for x in v):
                fails.append("(%d,%d): displacement is not r_i - r_j - factor.cell" % (i, j))
                continue
            d2 = X.dot(v, v)
            if not X.d_close(d, d2):
                fails.append("(%d,%d): distance is not the norm of the displacement" % (i, j))
            if d2 < tmin:
                fails.append("(%d,%d): below the true minimum (impossible)" % (i, j))
            if tmin <= R2 and d2 != tmin:
                fails.append("(%d,%d): true minimum %s within range %s but %s reported" % (i, j, tmin, R2, d2))
            if cutoff is not None and tmin > R2:
                fails.append("(%d,%d): pair beyond the cutoff reported as finite" % (i, j))
            o = tab[j][i]
            if o in ("inf", "bad") or o[1] != d or tuple(-x for x in o[2]) != tuple(dv) or tuple(-x for x in o[3]) != tuple(fv):
                fails.append("(%d,%d): tables not antisymmetric/symmetric" % (i, j))
    return fails


def shrink(c, still_fails):
    """drop atoms while the predicate keeps failing on the implementation"""
    cur = dict(c)
    changed = True
    budget = 40
    while changed and budget > 0 and len(cur["pos"]) > 1:
        changed = False
        for k in range(len(cur["pos"])):
            budget -= 1
            if budget <= 0:
                break
            cand = dict(cur)
            cand["pos"] = cur["pos"][:k] + cur["pos"][k + 1:]
            if still_fails(cand):
                cur = cand
                changed = True
                break
    return cur


def impl_predicate(c):
    r, _ = run_impl([dict(c, id=0)], jobs=1)
    return predicate_failures(c, r[0]), r[0]


def replay_dict(c, fails, out, extra=None):
    G = X.G
    d = {"kind": "property-fails-on-implementation",
         "case": {k: c.get(k) for k in ("cell", "pbc", "pos", "cutoff", "api", "cutoff_kind", "history", "pbc_array", "twin")},
         "units": "grid units of 2**-12 Angstrom",
         "call": "matid.geometry.%s(positions=pos/4096, cell=cell/4096, pbc=%s, cutoff=%s)" % (
             "get_distances" if c["api"] == "distances" else "get_displacement_tensor", list(c["pbc"]),
             "inf" if c["cutoff"] is None else repr(c["cutoff"] / G)),
         "failures": fails[:6], "copies_used": out.get("N")}
    if extra:
        d.update(extra)
    return d


# ------------------------------------------------------------------------------------------
def classify(c, out):
    cell, pbc, cutoff = c["cell"], c["pbc"], c["cutoff"]
    ext2 = X.longest2(cell, pbc) if cutoff is None else cutoff * cutoff
    Nx = X.n_copies(cell, pbc, ext2)
    tags = {"copies_tie": X.copies_tie(cell, pbc, ext2),
            "copies_boundary_taken": ("N" in out and tuple(out["N"]) != tuple(Nx)),
            "inside": all(X.in_cell(cell, pbc, p) for p in c["pos"])}
    # pairs with more than one minimiser / pairs exactly at the cutoff
    ties = edge = finite = infinite = 0
    n = len(c["pos"])
    if n <= 6:
        for i in range(n):
            for j in range(i):
                m, arg = X.min_image(cell, pbc, c["pos"][i], c["pos"][j])
                if len(arg) > 1:
                    ties += 1
                if cutoff is not None and m == ext2:
                    edge += 1
    tags["min_ties"] = ties
    tags["at_cutoff"] = edge
    return tags


def run(ctx):
    t0 = time.time()
    ctx.add_trusted(
        "hand-written Gallina model of matid/ext/{geometry,celllist}.cpp and of the wrapper get_displacement_tensor/get_distances "
        "(coq/Geometry/Extend.v, CellList.v, DispTensor.v): exact-arithmetic semantics; float rounding outside the dyadic grid, int overflow, "
        "memory exhaustion are outside the model",
        "agreement relation coq/Geometry/GeoAgree.v (c10_agree), evaluated by vm_compute",
        "harness/lib/extshim.py + cxx/ (pybind11 stand-in) when the C++ sources differ from the shipped ones",
        "harness/lib/geo_gen.py, geo_exact.py, harness/impl/c10_impl.py (generator, canonicalisation, oracle used only to search for failing inputs)")
    ctx.assumptions += [
        "atoms inside the cell: fractional coordinates in [0,1) along periodic axes (the property's precondition); non-singular cell; cutoff > 0 or infinite",
        "model arithmetic is exact (Z/Q); the implementation computes in binary64 -- tied to the model on dyadic-grid inputs where the observable path is exact",
        "n_copies = least N with N^2 vol^2 >= ext^2 |a_j x a_k|^2; at exact ties ceil() in doubles may answer N or N+1 (both satisfy every theorem)",
    ]
    pres = C.prove_property("C10", [])
    ctx.record_proof(pres)
    broken = None
    if pres["failed"]:
        broken = {"stage": "prove", "file": pres["failed"]["path"], "error": pres["failed"]["out"][-1500:]}

    # ---- correspondence (in batches, corpus first) -----------------------------------------------
    ncases = int(os.environ.get("VERIF_C10_CASES", "0")) or (3000 if ctx.tier == "quick" else 60000)
    batch_size = int(os.environ.get("VERIF_C10_BATCH", "6000"))
    dist = {"n_atoms": {}, "pbc": {}, "cell_kind": {}, "cutoff_kind": {}, "api": {}, "copies_tie": 0, "copies_boundary_taken": 0,
            "atoms_outside_cell": 0, "pairs_with_tied_minimisers": 0, "pairs_exactly_at_cutoff": 0, "ext_mode": [],
            "max_extended_atoms": 0, "finite_entries": 0, "infinite_entries": 0, "impl_errors": 0, "real_padding_cases": 0}
    seen = set()
    state = {"nontriv": 0, "total": 0, "t_impl": 0.0}

    def account(c, out):
        if "error" in out:
            dist["impl_errors"] += 1
            return
        tags = classify(c, out)
        for key, val in (("n_atoms", len(c["pos"])), ("pbc", "".join("T" if x else "F" for x in c["pbc"])),
                         ("cell_kind", c["cell_kind"]), ("cutoff_kind", c["cutoff_kind"]), ("api", c["api"])):
            dist[key][str(val)] = dist[key].get(str(val), 0) + 1
        dist["copies_tie"] += int(tags["copies_tie"])
        dist["copies_boundary_taken"] += int(tags["copies_boundary_taken"])
        dist["atoms_outside_cell"] += int(not tags["inside"])
        dist["pairs_with_tied_minimisers"] += tags["min_ties"]
        dist["pairs_exactly_at_cutoff"] += tags["at_cutoff"]
        dist["max_extended_atoms"] = max(dist["max_extended_atoms"], out.get("n_ext", 0))
        dist["finite_entries"] += sum(1 for row in out["dist"] for h in row if h != "inf")
        dist["infinite_entries"] += sum(1 for row in out["dist"] for h in row if h == "inf")
        dist["real_padding_cases"] += int(c["id"] % 8 == 0)
        key = case_key(c)
        if key not in seen:
            seen.add(key)
            # non-trivial: at least two atoms and some periodic image actually used (a copy count > 0)
            if len(c["pos"]) >= 2 and any(out["N"]):
                state["nontriv"] += 1

    corpus = load_corpus()
    pending = [dict(c, id=k) for k, c in enumerate(corpus)]
    next_id = len(pending)
    remaining = ncases
    sample = None
    failing_cases = []   # (case, impl output)
    errors = []
    last_cases, last_impl = [], {}
    while pending or remaining > 0:
        take = min(remaining, batch_size - len(pending))
        cases = pending + [GEN.gen_c10_case(ctx.rng, next_id + k) for k in range(take)]
        pending = []
        next_id += take
        remaining -= take
        for c in cases:
            # process-history stream (no PRNG draw, so the case stream itself is unchanged): the same call is made before
            # and after other library entry points ran on the structure and earlier results were overwritten by the caller
            c.setdefault("history", (c["api"] == "distances" and c["id"] % 2 == 0) or (c["api"] == "tensor" and c["id"] % 10 == 0))
            c.setdefault("pbc_array", c["api"] == "tensor" and c["id"] % 4 == 1)
            c.setdefault("twin", c["api"] == "tensor" and c["id"] % 2 == 1)
        tb = time.time()
        impl, modes = run_impl(cases)
        state["t_impl"] += time.time() - tb
        dist["ext_mode"] = sorted(set(dist["ext_mode"]) | modes)
        terms = [(c["id"], coq_term(c, impl[c["id"]])) for c in cases]
        failing, errs = C.coq_case_files("C10", X.PREAMBLE, terms,
                                         per_file=int(os.environ.get("VERIF_C10_SHARD", "0")) or max(8, min(100, -(-len(terms) // (3 * C.NCPU)))),
                                         timeout=3000)
        del terms
        errors += errs
        by_id = {c["id"]: c for c in cases}
        failing_cases += [(by_id[i], impl[i]) for i in failing]
        for c in cases:
            account(c, impl[c["id"]])
            if c.get("history") and "history_same" in impl[c["id"]]:
                dist["history_sequences"] = dist.get("history_sequences", 0) + 1
        state["total"] += len(cases)
        if sample is None:
            gen = [c for c in cases if "corpus" not in c]
            if gen:
                sample = {"cell": gen[0]["cell"], "pbc": gen[0]["pbc"], "n_atoms": len(gen[0]["pos"]), "cutoff": gen[0]["cutoff"],
                          "copies": impl[gen[0]["id"]].get("N")}
        last_cases, last_impl = cases, impl
        C.log("[C10] %d/%d cases, %d disagreements, %.0fs" % (state["total"], ncases + len(corpus), len(failing_cases), time.time() - t0))
        if failing_cases or errors:
            break
    ctx.add_cases(state["total"], state["nontriv"], [sample] if sample else [])
    ctx.coverage["rule"] = ("each case: grid cell/positions/cutoff -> get_displacement_tensor(return_factors, return_distances) or get_distances on the "
                            "current C++ sources; all n x n x 7 numbers compared inside Coq (GeoAgree.c10_agree) with the model run on the copy counts the "
                            "implementation used (those checked against n_copies up to the tie rule). distinct = distinct (cell,pbc,positions,cutoff,api); "
                            "non-trivial = at least two atoms and at least one periodic copy taken")
    ctx.coverage["input_distribution"] = dist
    ctx.coverage["timing"] = {"impl_s": round(state["t_impl"], 1), "total_s": round(time.time() - t0, 1)}
    ctx.coverage["disagreements"] = len(failing_cases)
    cases, impl = last_cases, last_impl

    # ---- verdict ---------------------------------------------------------------------------------
    if errors:
        ctx.violation({"kind": "case-files-do-not-compile", "broken": "correspondence GeoAgree.c10_agree could not be evaluated",
                       "detail": errors[:2]}, found_input=False)
        return
    reported = False
    for c, out in failing_cases[:8]:
        fails = predicate_failures(c, out)
        if fails:
            small = shrink(c, lambda cand: bool(impl_predicate(cand)[0]))
            sf, so = impl_predicate(small)
            ctx.violation(replay_dict(small if sf else c, sf or fails, so if sf else out, {"broken_obligation": broken, "original_case_atoms": len(c["pos"])}),
                          found_input=True)
            reported = True
            break
    if failing_cases and not reported:
        # the model and the code disagree but the property's predicate holds on those inputs:
        # search the stream for an input on which the property itself fails
        hit = search_stream(ctx, cases, impl, 60 if ctx.tier == "quick" else 300)
        if not hit:
            hit = focused_search(ctx, failing_cases, 120 if ctx.tier == "quick" else 900)
        if hit:
            c, fails, out = hit
            ctx.violation(replay_dict(c, fails, out, {"broken_obligation": broken}), found_input=True)
        else:
            c, out = failing_cases[0]
            ctx.violation({"kind": "model-implementation-disagreement", "broken": "correspondence relation GeoAgree.c10_agree (model DispTensor.disp_tensor_with vs implementation)",
                           "case": {k: c[k] for k in ("cell", "pbc", "pos", "cutoff", "api")}, "impl_error": out.get("error"),
                           "n_disagreeing_cases": len(failing_cases),
                           "searched": "property predicate (brute-force lattice sums) on the %d cases of the last batch: holds; focused search around the disagreeing "
                                       "inputs (same pbc and cutoff, atoms wrapped / at extreme in-cell positions, rescaled cells of every class): %s" % (len(cases), json.dumps(ctx.coverage.get("focused_search")))},
                          found_input=False)
    elif broken and not failing_cases:
        hit = search_stream(ctx, cases, impl, 60 if ctx.tier == "quick" else 300)
        if hit:
            c, fails, out = hit
            ctx.violation(replay_dict(c, fails, out, {"broken_obligation": broken}), found_input=True)
        else:
            ctx.violation({"kind": "proof-obligation-broken", "broken": broken,
                           "searched": "property predicate on the %d cases of the last batch: holds" % len(cases)}, found_input=False)


def focused_search(ctx, failing_cases, seconds, batch=320):
    """The model and the code disagree on inputs on which the property's predicate does not fail (typically inputs with
    atoms outside the cell, where the statement does not apply).  Search the neighbourhood of those inputs for one INSIDE
    the property's family on which the predicate fails: same periodicity pattern and cutoff; (a) the atoms wrapped into
    the cell, (b) the same cell with atoms at extreme in-cell positions, (c) fresh cells of every generator class rescaled
    so that cutoff / longest body diagonal stays in the neighbourhood of the disagreeing case.  All draws from the one PRNG."""
    import math
    rng = ctx.rng
    t0 = time.time()
    G = X.G

    def diag2(cell):
        a, b, c = cell
        return max(X.dot(v, v) for v in (X.add(X.add(a, b), c), X.sub(X.add(a, b), c), X.add(X.sub(a, b), c), X.sub(X.sub(a, b), c)))

    def extreme_positions(cell, n):
        # scaled coordinates from {0, 1 - 1/64, random}: far corners of the half-open cell maximise in-cell separations
        pos = []
        for _ in range(n):
            fr = [rng.choice([Fraction(0), Fraction(63, 64), Fraction(rng.randint(0, 63), 64)]) for _k in range(3)]
            p = tuple(int(math.floor(sum(fr[k] * cell[k][m] for k in range(3)))) for m in range(3))
            p = GEN.wrap_into_cell(cell, p)
            pos.append(p)
        return pos

    def usable(c):
        ext2 = X.longest2(c["cell"], c["pbc"]) if c["cutoff"] is None else c["cutoff"] * c["cutoff"]
        return (X.vol(c["cell"]) != 0 and GEN.ext_size(c["cell"], c["pbc"], ext2, len(c["pos"])) <= 4 * GEN.MAX_EXT
                and GEN.bins_ok(c["cell"], c["pbc"], c["pos"], ext2, c["cutoff"]))

    tried = 0
    nid = 5 * 10 ** 7
    first = True
    while time.time() - t0 < seconds:
        cands = []
        if first:
            for d, _o in failing_cases[:8]:
                if X.vol(d["cell"]) != 0:
                    w = dict(d, pos=[GEN.wrap_into_cell(d["cell"], q) for q in d["pos"]], cutoff_kind="focused:wrapped")
                    cands.append(w)
            first = False
        guard = 0
        while len(cands) < batch and guard < 20 * batch:
            guard += 1
            d, _o = failing_cases[rng.randrange(min(len(failing_cases), 8))]
            if X.vol(d["cell"]) == 0:
                continue
            n = rng.randint(2, 5)
            if rng.random() < 0.3:
                cell, kind = d["cell"], "focused:same-cell"
            else:
                cell, ck = GEN.gen_cell(rng)
                if d["cutoff"] is not None:
                    # rescale so that cutoff / diagonal is near the disagreeing case's ratio
                    want = math.sqrt(diag2(d["cell"])) * rng.uniform(0.6, 1.3)
                    f = want / math.sqrt(diag2(cell))
                    cell = tuple(tuple(int(round(x * f)) for x in v) for v in cell)
                    if not GEN._ok_cell(cell):
                        continue
                kind = "focused:" + ck
            pos = extreme_positions(cell, n) if rng.random() < 0.7 else GEN.gen_positions(rng, cell, n, True)
            c = {"cell": cell, "cell_kind": kind, "pbc": d["pbc"], "pos": pos, "cutoff": d["cutoff"], "cutoff_kind": d.get("cutoff_kind", "focused"),
                 "api": d["api"] if d["cutoff"] is None else "tensor", "pbc_scalar": False, "history": False, "pbc_array": False}
            if usable(c):
                cands.append(c)
        if not cands:
            break
        for c in cands:
            nid += 1
            c["id"] = nid
        impl, _m = run_impl(cands)
        tried += len(cands)
        for c in cands:
            fails = predicate_failures(c, impl[c["id"]])
            if fails:
                ctx.coverage["focused_search"] = {"inputs_tried": tried, "found": True, "kind": c.get("cell_kind"), "seconds": round(time.time() - t0, 1)}
                small = shrink(c, lambda cand: bool(impl_predicate(cand)[0]))
                sf, so = impl_predicate(small)
                return (small, sf, so) if sf else (c, fails, impl[c["id"]])
    ctx.coverage["focused_search"] = {"inputs_tried": tried, "found": False, "seconds": round(time.time() - t0, 1)}
    return None


def search_stream(ctx, cases, impl, seconds):
    t0 = time.time()
    for c in cases:
        if time.time() - t0 > seconds:
            break
        fails = predicate_failures(c, impl[c["id"]])
        if fails:
            small = shrink(c, lambda cand: bool(impl_predicate(cand)[0]))
            sf, so = impl_predicate(small)
            return (small, sf, so) if sf else (c, fails, impl[c["id"]])
    return None


def replay(ctx, rep):
    c = rep.get("case")
    if not c:
        print("replay: no concrete input in this replay file (%s)" % rep.get("kind"))
        # re-run the check itself: the obligation may still be broken
        run(ctx)
        return
    c = dict(c)
    c["cell"] = tuple(tuple(v) for v in c["cell"])
    c["pos"] = [tuple(p) for p in c["pos"]]
    c["pbc"] = tuple(bool(x) for x in c["pbc"])
    c.setdefault("api", "tensor")
    c.setdefault("cutoff_kind", "replay")
    if c.get("history") is None:
        c["history"] = True
    if c.get("twin") is None:
        c["twin"] = True
    fails, out = impl_predicate(c)
    if fails:
        ctx.violation(replay_dict(c, fails, out), found_input=True)
        return
    # predicate holds (or does not apply): does the model still disagree?
    failing, errors = C.coq_case_files("C10replay", X.PREAMBLE, [(0, coq_term(c, out))])
    if failing or errors:
        ctx.violation({"kind": "model-implementation-disagreement", "broken": "correspondence relation GeoAgree.c10_agree", "case": rep["case"]},
                      found_input=False)
    else:
        print("replay: property holds on this input now")
