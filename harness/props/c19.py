"""C19 -- radii presets and custom radii are honoured uniformly.

translate (gen_radii) -> prove (Reflect/RadiiInst.v, Properties/C19.v) -> correspond
(exhaustive Z = 0..118 x 3 presets against the implementation; preset-vs-array consumers).
"""
import os
import sys
from fractions import Fraction

from lib import common as C

sys.path.insert(0, os.path.join(C.VERIF, "translator"))
import gen_radii  # noqa: E402
from pyast import TranslationError, NAN  # noqa: E402

LEVEL = "proof"
STATIC = ["Geometry/Radii.vo", "Reflect/RadiiReflect.vo", "Base/CaseUtil.vo"]
PRESETS = ["covalent", "vdw", "vdw_covalent"]


def model_value(tab_cov, tab_vdw, preset, z):
    """documented value (reference semantics of the property)"""
    def g(t, i):
        return t[i] if i < len(t) else "ERR"
    if preset == "covalent":
        return g(tab_cov, z)
    if preset == "vdw":
        return g(tab_vdw, z)
    v = g(tab_vdw, z)
    if v == "ERR":
        return "ERR"
    return g(tab_cov, z) if v is NAN else v


def impl_table():
    zs = list(range(0, 119))
    r = C.impl_run("c19_impl", {"table": {"zs": zs, "presets": PRESETS},
                                "custom": {"arr": [0.5, 1.25, 3.0], "nums": [1, 8, 1]}})
    return zs, r


def property_failures_on_impl(cov, vdw):
    """Evaluate the property's own predicate on the implementation, exhaustively over
    Z = 1..103 x presets.  Returns list of failing (preset, z, got, want)."""
    zs, r = impl_table()
    fails = []
    for p in PRESETS:
        for z, got in zip(zs, r["table"][p]):
            if not (1 <= z <= 103):
                continue
            want = model_value(cov, vdw, p, z)
            w = None if want is NAN else float(want)
            g = None if got is None else (got if isinstance(got, str) and got.startswith("ERR") else float.fromhex(got))
            if p == "vdw":
                ok = (g == w)
            else:
                ok = (g == w) and g is not None and g > 0
            if not ok:
                fails.append({"preset": p, "z": z, "got": g, "want": w})
    if not (r.get("custom_equal") and r.get("custom_same_object")):
        fails.append({"preset": "custom", "z": None, "got": "array changed", "want": "unchanged"})
    for b in (r.get("custom_lengths") or {}).get("bad", []):
        fails.append({"preset": "custom", "z": None, "got": b, "want": "a custom per-atom array of any length is used unchanged"})
    return fails, r


def vector_and_order_failures(cov, vdw, cases):
    """(a) resolved radii of whole structures (mixed elements) against the documented tables,
       (b) every evaluation order of the presets within one interpreter."""
    r = C.impl_run("c19_impl", {"vectors": [{"id": c["id"], "numbers": c["numbers"], "presets": PRESETS} for c in cases],
                                "orders": {"zs": list(range(1, 104)), "presets": PRESETS}})
    fails = []
    for row in r["vectors"]:
        nums = [c for c in cases if c["id"] == row["id"]][0]["numbers"]
        for p in PRESETS:
            got = row[p]
            want = [model_value(cov, vdw, p, z) for z in nums]
            w = [None if x is NAN else float(x) for x in want]
            g = got if isinstance(got, str) else [None if x is None else float.fromhex(x) for x in got]
            if g != w:
                fails.append({"kind": "vector", "preset": p, "numbers": nums, "got": g, "want": w})
    for row in r["orders"]:
        p = row["preset"]
        for z, got in zip(range(1, 104), row["values"]):
            want = model_value(cov, vdw, p, z)
            w = None if want is NAN else float(want)
            g = None if got is None else (got if got.startswith("ERR") else float.fromhex(got))
            if g != w:
                fails.append({"kind": "order", "order": row["order"], "preset": p, "z": z, "got": g, "want": w})
                break
    return fails, len(r["vectors"]) * 3 + len(r["orders"])


def gen_structures(ctx, n, with_sbc):
    rng = ctx.rng
    nan_z = [61, 84, 85, 86, 87, 88, 100, 101, 102, 103]
    common_z = [1, 6, 8, 14, 26, 29, 47, 79, 11, 17, 57, 92]
    cases = []
    for k in range(n):
        na = rng.randint(1, 10)
        use_nan = (k % 2 == 0)
        zs = [rng.choice(nan_z if (use_nan and rng.random() < 0.5) else common_z) for _ in range(na)]
        a = rng.uniform(3.0, 9.0)
        cell = [[a, 0, 0], [rng.uniform(-1, 1), a * rng.uniform(0.7, 1.3), 0], [0, rng.uniform(-1, 1), a * rng.uniform(0.7, 1.5)]]
        pos = [[rng.uniform(0, a), rng.uniform(0, a), rng.uniform(0, a)] for _ in range(na)]
        pbc = [rng.random() < 0.7 for _ in range(3)]
        cases.append({"id": k, "numbers": zs, "positions": pos, "cell": cell, "pbc": pbc,
                      "thr": rng.choice([0.35, 0.65, 1.0, 2.0]), "presets": PRESETS,
                      "sbc": bool(with_sbc and k < with_sbc)})
    return cases


def layered_structures(n, id0):
    """Radii-SENSITIVE structures for the SBC consumer: square nets of a heavy p-block element with large-vdW spacer atoms in the
    hollow sites between the nets, the net-spacer distance placed between (cov_A + cov_B + bond_threshold) and
    (vdw_A + vdw_B + bond_threshold): with covalent radii the nets are isolated sheets, with van der Waals radii the spacers
    bridge them, so the clustering (and the finder's prototype-cell validation) depends on which radii are in force.
    Deterministic enumeration (no PRNG): member k is a pure function of k."""
    from ase.data import covalent_radii
    from ase.data.vdw_alvarez import vdw_radii
    import math
    nets = [84, 52, 34, 83, 53, 82, 51]
    spacers = [36, 54, 18, 55, 37]
    out = []
    k = 0
    while len(out) < n and k < 10 * n + 70:
        A, B = nets[k % len(nets)], spacers[(k // len(nets)) % len(spacers)]
        a = [3.35, 3.0, 3.6][(k // 35) % 3]
        frac = [0.5, 0.25, 0.75][(k // 7) % 3]
        k += 1
        vA = float(vdw_radii[A]) if not math.isnan(float(vdw_radii[A])) else float(covalent_radii[A])
        vB = float(vdw_radii[B]) if not math.isnan(float(vdw_radii[B])) else float(covalent_radii[B])
        lo = float(covalent_radii[A] + covalent_radii[B]) + 0.75
        hi = vA + vB + 0.75
        d = lo + frac * (hi - lo)
        if d * d <= a * a / 2 + 0.04:
            continue
        c = 2 * math.sqrt(d * d - a * a / 2)
        nums, pos = [], []
        for ix in range(3):
            for iy in range(3):
                for iz in range(2):
                    nums += [A, B]
                    pos += [[ix * a, iy * a, iz * c], [(ix + 0.5) * a, (iy + 0.5) * a, (iz + 0.5) * c]]
        out.append({"id": id0 + len(out), "numbers": nums, "positions": pos, "cell": [[3 * a, 0, 0], [0, 3 * a, 0], [0, 0, 2 * c]],
                    "pbc": [True, True, True], "thr": 0.65, "presets": PRESETS, "sbc": True, "family": "layered:%d-%d a=%.2f f=%.2f" % (A, B, a, frac)})
    return out


def run(ctx):
    ctx.add_trusted("translator/gen_radii.py + pyast.py (ast-based, fail-closed)",
                    "reference ('documented') radii tables: ase.data.covalent_radii, ase.data.vdw_alvarez.vdw_radii, re-read on every run",
                    "float model: option Q (None = NaN) with IEEE comparison semantics, coq/Geometry/Radii.v")
    ctx.assumptions += [
        "elements Z = 1..103 (the range of ASE's vdW table) as stated in the property's quantifier",
        "numpy indexing radii[atomic_numbers] is the pointwise lookup for in-range numbers",
    ]
    broken = None
    cov = vdw = None
    try:
        cov, vdw = gen_radii.read_ase_tables()
        text, info = gen_radii.generate(C.REPO)
        ctx.coverage["translator_info"] = info
    except TranslationError as e:
        broken = {"stage": "translate", "error": str(e)}
        text = None
    if text is not None:
        pres = C.prove_property("C19", [("Generated/RadiiGen.v", text), ("Inst/RadiiInst.v", None)])
        n_inst = len(C.theorem_names(os.path.join(C.COQ, "Inst/RadiiInst.v")))
        inst_ok = any(r["path"] == "Inst/RadiiInst.v" and r["rc"] == 0 for r in pres["results"])
        ctx.add_obligations(n_inst, n_inst if inst_ok else 0, "reflection instances Inst/RadiiInst.v (vm_compute over the regenerated tables)")
        ctx.record_proof(pres)
        if pres["failed"]:
            broken = {"stage": "prove", "file": pres["failed"]["path"], "error": pres["failed"]["out"][-1500:]}
    else:
        ctx.add_obligations(1, 0, "translation of get_radii")

    # ---- correspondence: exhaustive table + consumers -------------------------------------
    if cov is None:
        cov, vdw = gen_radii.read_ase_tables()
    fails, raw = property_failures_on_impl(cov, vdw)
    n_tab = 103 * 3
    ctx.add_cases(119 * 3, n_tab, [{"preset": "vdw_covalent", "z": 61, "impl": raw["table"]["vdw_covalent"][61]},
                                   {"preset": "vdw", "z": 1, "impl": raw["table"]["vdw"][1]}])
    ctx.coverage["exhaustive"] = True
    nstruct = 40 if ctx.tier == "quick" else 400
    nsbc = 4 if ctx.tier == "quick" else 40
    cases = gen_structures(ctx, nstruct, nsbc)
    # radii-sensitive layered structures through SBC (more of them when an obligation is broken: search for a failing input)
    cases += layered_structures((24 if broken else 6) if ctx.tier == "quick" else 60, len(cases))
    chunks = [cases[i::C.NCPU] for i in range(C.NCPU)]
    chunks = [c for c in chunks if c]
    outs = C.impl_run_parallel("c19_impl", [{"consumers": c} for c in chunks])
    cons_fail = []
    nontriv = 0
    for o in outs:
        for row in o["consumers"]:
            for p in PRESETS:
                r = row.get(p, {})
                if "skipped" in r:
                    continue
                if "error" in r:
                    cons_fail.append({"case": row["id"], "preset": p, "error": r["error"]})
                    continue
                if r["dim_preset"] != r["dim_array"] or not r["clusters_equal"] or r.get("sbc_equal") is False:
                    cons_fail.append({"case": row["id"], "preset": p, "result": r})
                if r["dim_preset"] is not None:
                    nontriv += 1
    ctx.add_cases(len(cases) * 3, min(nontriv, len(cases) * 3), [dict(cases[0], positions="(%d atoms)" % len(cases[0]["numbers"]))])
    vfails, nv = vector_and_order_failures(cov, vdw, cases)
    ctx.add_cases(nv, nv, [{"vector_case": cases[0]["numbers"]}])
    ctx.coverage["vector_and_order_failures"] = vfails[:10]
    ctx.coverage["rule"] = ("exhaustive: get_radii(preset, Z) for Z=0..118 x {covalent,vdw,vdw_covalent} compared bit-exactly with the "
                            "decimal literals of the reference tables (non-trivial: the 309 pairs with Z in 1..103); plus random "
                            "structures (1-10 atoms, elements with and without vdW radius, random pbc) comparing "
                            "get_dimensionality/SBC with a preset against the same numbers as an array (non-trivial: dimensionality defined)")
    ctx.coverage["input_distribution"] = {"structures": len(cases), "with_sbc": nsbc, "radii_sensitive_layered_structures_through_SBC": sum(1 for c in cases if c.get("family", "").startswith("layered")),
                                          "with_missing_vdw_element": sum(1 for c in cases if any(z in (61, 84, 85, 86, 87, 88, 100, 101, 102, 103) for z in c["numbers"]))}

    known = C.load_known("C19")
    # ---- verdict -----------------------------------------------------------------------------
    for f in fails:
        key = "get_radii:%s:Z=%s" % (f["preset"], f["z"])
        k = C.known_match(known, key)
        if k:
            ctx.known_finding(k)
            continue
        ctx.violation({"kind": "property-fails-on-implementation", "call": "matid.geometry.get_radii(%r, [%s])" % (f["preset"], f["z"]),
                       "got": f["got"], "documented": f["want"], "key": key,
                       "broken_obligation": broken}, found_input=True, tag="getradii-%s-%s" % (f["preset"], f["z"]))
        break  # one replay is enough; the rest are listed in the evidence
    ctx.coverage["table_failures"] = fails[:40]
    for f in vfails[:1]:
        if f["kind"] == "vector":
            ctx.violation({"kind": "property-fails-on-implementation", "call": "matid.geometry.get_radii(%r, %r)" % (f["preset"], f["numbers"]),
                           "got": f["got"], "documented": f["want"], "broken_obligation": broken}, found_input=True)
        else:
            ctx.violation({"kind": "property-fails-on-implementation", "history": "presets evaluated in the order %r in one interpreter; then get_radii(%r, [%d])" % (f["order"], f["preset"], f["z"]),
                           "got": f["got"], "documented": f["want"], "broken_obligation": broken}, found_input=True)
    for f in cons_fail[:1]:
        case = [c for c in cases if c["id"] == f["case"]][0]
        ctx.violation({"kind": "preset-vs-array-differs", "case": case, "detail": f, "broken_obligation": broken},
                      found_input=True)
    ctx.coverage["consumer_failures"] = cons_fail[:10]
    if broken and not fails and not cons_fail and not vfails:
        ctx.violation({"kind": "proof-obligation-broken", "broken": broken,
                       "searched": "exhaustive Z=1..103 x presets and %d structures on the implementation: no failing input" % len(cases)},
                      found_input=False)


def replay(ctx, rep):
    cov, vdw = gen_radii.read_ase_tables()
    if rep.get("kind") == "preset-vs-array-differs":
        o = C.impl_run("c19_impl", {"consumers": [rep["case"]]})
        for p in PRESETS:
            r = o["consumers"][0].get(p, {})
            if "error" in r or r.get("dim_preset") != r.get("dim_array") or not r.get("clusters_equal", True) or r.get("sbc_equal") is False:
                ctx.violation(rep, found_input=True)
                return
        print("replay: preset and array agree on this input now")
        return
    fails, _ = property_failures_on_impl(cov, vdw)
    hit = [f for f in fails if "get_radii:%s:Z=%s" % (f["preset"], f["z"]) == rep.get("key")]
    if hit or (fails and "key" not in rep):
        ctx.violation(rep, found_input=True)
    else:
        print("replay: property holds on this input now")
