"""C13 -- Cluster.get_dimensionality agrees with get_dimensionality of the cluster's atoms.

prove (Properties/C13.v over coq/Sbc/ClusterCache.v, the cache state machine of the *repaired*
cluster.py) -> correspond:
   (i)  random operation histories (GetMatrix / SetIndices / GetDim) on real Cluster objects -- the
        clusters returned by SBC().get_clusters with the scripted finder (so that clean really removed
        atoms) and clusters built through the public constructor -- observed through a pass-through
        wrapper of matid.geometry.get_dimensionality, against the state machine evaluated in Coq;
   (ii) the property's own predicate on every cluster of scripted runs and of the C01 structure family
        with the real finder: cluster.get_dimensionality() (twice) == matid.geometry.get_dimensionality(
        cluster.get_atoms(), bond_threshold, radii=<radii used>); radii presets covalent / vdw /
        vdw_covalent / custom arrays, bond thresholds 0.4-1.0.
"""
import json
import time
import numpy as np

from lib import common as C
from props import sbc_gen as G
from props import sbc_terms as T
from props import c01 as K

LEVEL = "proof"
STATIC = ["Sbc/ClusterCacheProofs.vo", "Sbc/PipelineProofs.vo", "Sbc/Examples.vo", "Base/CaseUtil.vo", "Geometry/SubTable.vo", "Geometry/SubTableExample.vo"]
PID = "C13"
IMPL = "c13_impl"
PREAMBLE = T.PREAMBLE + "From MV Require Import Sbc.ClusterCache.\n"
SENTINEL = [4000]


def op_term(o):
    if o["op"] == "SetIndices":
        return "(SetIndices %s)" % T.natl(o["list"])
    return o["op"]


def radii_term(r):
    if r["kind"] == "default":
        return "RDefault"
    if r["kind"] == "sel":
        return "(RSel %s)" % T.natl(r["list"])
    return "(RSel %s)" % T.natl(SENTINEL)


def seen_term(s):
    c = s["call"]
    if c is None:
        call = "None"
    else:
        atoms = c["atoms"] if c["atoms"] is not None else SENTINEL
        cands = c["mat_candidates"] if (c["matrix_given"] and c.get("thr_ok", True) and c.get("n_calls", 1) == 1) else []
        call = "(Some (mkImplCall %s %s %s))" % (T.natl(atoms), radii_term(c["radii"]), C.listlit([T.natl(l) for l in cands]))
    return "(%s, %s, %s)" % (C.boollit(s["cache"]), C.boollit(s["dim"]), call)


def history_term(h):
    ops = C.listlit([op_term(o) for o in h["ops"]])
    # oracle: the atom lists on which the real get_dimensionality answered None (never cached)
    cur, nones = list(h["idx0"]), []
    for o in h["ops"]:
        if o["op"] == "SetIndices":
            cur = list(o["list"])
        elif o["op"] == "GetDim" and o["shortcut"] is None and cur not in nones:
            nones.append(list(cur))
    nl = C.listlit([T.natl(l) for l in nones])
    seen = C.listlit([seen_term(s) for s in h["seen"]])
    if h["kind"] == "pipeline":
        prefix = "[GetMatrix; SetIndices %s]" % T.natl(h["idx0"])
        start = T.natl(h["pre"])
    else:
        prefix = "[]"
        start = T.natl(h["idx0"])
    return "(agree_history_from %s %s %s %s %s %s)" % (nl, prefix, start, C.boollit(h["radii"]), ops, seen)


def property_failures(r):
    """(kind, detail) where the property itself fails on this result"""
    out = []
    for row in r.get("property", []):
        if not row.get("ok"):
            out.append(("shortcut-differs-from-direct", row))
    for hk, h in enumerate(r.get("histories", [])):
        if not h["radii"]:
            continue
        last = None
        for o in h["ops"]:
            if o["op"] == "GetDim":
                if o["shortcut"] != o["direct"]:
                    out.append(("shortcut-differs-from-direct", {"history": hk, "kind": h["kind"], "shortcut": o["shortcut"], "direct": o["direct"]}))
                    break
                if last is not None and last != o["shortcut"]:
                    out.append(("repeated-calls-differ", {"history": hk}))
                    break
                last = o["shortcut"]
            elif o["op"] == "SetIndices":
                last = None
    return out


def gen_cases(ctx, quick):
    rng = ctx.rng
    n_hist = 600 if quick else 6000
    n_sprop = 800 if quick else 8000
    n_real = 300 if quick else 2500
    max_atoms = 120 if quick else 300
    cases = []
    for c in K.load_corpus(PID):
        c = dict(c)
        c["id"] = len(cases)
        cases.append(c)
    ncorp = len(cases)
    for _ in range(n_hist):
        c = G.gen_script_case(rng, len(cases), big=not quick)
        c["history"] = {"seed": rng.randrange(10 ** 6), "n_ops": rng.randint(3, 9), "max_clusters": 3, "fresh": True}
        c["matrix"] = False
        cases.append(c)
    for _ in range(n_sprop):
        c = G.gen_script_case(rng, len(cases), big=not quick)
        c["matrix"] = False
        c["params"]["radii"] = rng.choice(["covalent", "vdw", "vdw_covalent", {"array": [round(rng.uniform(0.4, 1.4), 3) for _ in c["structure"]["numbers"]]}])
        cases.append(c)
    for _ in range(n_real):
        c = G.gen_real_case(rng, len(cases), max_atoms, twice_p=0.0,
                            kinds=["vacancies", "vacancies", "vacancies", "defective", "crystal", "two", "gas", "molecules", "degenerate", "tiny"])
        # the family of the defect: supercells with 20-60 % vacancies are over-represented here
        cases.append(c)
    for c in decimal_tie_cases(rng, 40 if quick else 400, len(cases)):
        cases.append(c)
    return cases, ncorp, (n_hist, n_sprop, n_real, max_atoms)


def decimal_tie_cases(rng, k, nid0):
    """Axis-aligned crystals with round decimal lattice constants, clustered with a per-atom radii array and a bond threshold
    such that the nearest-neighbour contacts sit on the threshold IN DECIMAL NUMBERS (d - r_i - r_j == threshold): the shortcut
    and the direct evaluation must still agree -- both have to evaluate the same floating-point expression on the same numbers."""
    from ase import Atoms
    from ase.build import bulk
    out = []
    for t in range(k):
        kind = rng.choice(["rocksalt", "rocksalt", "sc", "sc", "cscl", "fcc"])
        a = rng.choice([5.64, 4.2, 6.0, 5.0, 4.8, 5.2]) if kind == "rocksalt" else rng.choice([3.2, 2.8, 3.0, 2.6, 3.6])
        if kind == "rocksalt":
            at = bulk("NaCl", "rocksalt", a=a, cubic=True)
            dnn = a / 2
        elif kind == "sc":
            at = Atoms("Cu", cell=[a, a, a], pbc=True)
            dnn = a
        elif kind == "cscl":
            at = Atoms("CsCl", scaled_positions=[[0, 0, 0], [0.5, 0.5, 0.5]], cell=[a, a, a], pbc=True)
            dnn = None      # a * sqrt(3) / 2: not a decimal; the second-neighbour contact a is
        else:
            at = bulk("Cu", "fcc", a=a, cubic=True)
            dnn = None
        reps = rng.choice([(2, 2, 2), (3, 2, 2), (3, 3, 2), (2, 2, 1), (3, 3, 3)]) if len(at) <= 2 else rng.choice([(1, 1, 1), (2, 1, 1), (2, 2, 1), (2, 2, 2)])
        at = at * reps
        if len(at) > 70:
            continue
        mode = rng.choice(["bulk", "bulk", "slab", "finite", "vacancy"])
        if mode == "slab":
            at.center(vacuum=rng.choice([5.0, 6.0, 7.5]), axis=2)
            at.set_pbc([True, True, False])
        elif mode == "finite":
            at.center(vacuum=5.0)
            at.set_pbc(False)
        elif mode == "vacancy" and len(at) > 4:
            del at[rng.randrange(len(at))]
        species = sorted(set(at.get_atomic_numbers().tolist()))
        d = dnn if dnn is not None else a
        # two-decimal radii whose sum leaves a two-decimal threshold in (0.3, 1.0)
        cents = int(round(d * 100))
        thr_c = rng.choice([t_ for t_ in range(30, 100, 5)])
        rest = cents - thr_c
        if rest < 40:
            continue
        if len(species) == 1:
            if rest % 2:
                thr_c += 1
                rest -= 1
            rmap = {species[0]: rest // 2 / 100.0}
        else:
            r1 = rng.randrange(20, rest - 19)
            rmap = {species[0]: r1 / 100.0, species[1]: (rest - r1) / 100.0}
        radii = [rmap[z] for z in at.get_atomic_numbers().tolist()]
        st = {"numbers": [int(z) for z in at.get_atomic_numbers()], "positions": at.get_positions().tolist(),
              "cell": np.array(at.get_cell()).tolist(), "pbc": [bool(b) for b in at.get_pbc()]}
        params = {"bond_threshold": thr_c / 100.0, "merge_threshold": 0.5, "merge_radius": 1, "max_cell_size": 6, "pos_tol": 0.7,
                  "seed": rng.randrange(100), "radii": {"array": radii}}
        out.append({"id": nid0 + len(out), "mode": "real", "matrix": False, "twice": False, "structure": st, "params": params,
                    "meta": {"kind": "decimal-tie:" + kind + ":" + mode, "n": len(at), "pbc": "".join("T" if b else "F" for b in at.get_pbc()), "wrapped": True},
                    "time_limit": 240})
    return out


def run(ctx):
    ctx.add_trusted(
        "hand-written Gallina model coq/Sbc/ClusterCache.v of the caches of matid/clustering/cluster.py with fixes/c13-cluster-dimensionality-cache.diff applied (tied to the tree by random histories on real Cluster objects)",
        "matid.geometry.get_dimensionality as a Section function of (atoms, radii, matrix index list); 'direct' evaluation = matrix of exactly the cluster's atoms (that the sub-matrix of the global minimum-image matrix equals the matrix get_dimensionality computes itself is C10's theorem plus the run-time comparison here)",
        "harness-side pass-through wrapper of matid.geometry.get_dimensionality (identifies the arguments by the index lists of the history)",
    )
    ctx.assumptions += [
        "clusters come from SBC.get_clusters (built with the clustering radii: theorem C13_pipeline_clusters_have_radii) or from the public constructor with radii",
        "index lists handed to `cluster.indices = ...` are non-empty and duplicate-free",
    ]
    broken = []
    pres = C.prove_property(PID)
    ctx.record_proof(pres)
    if pres["failed"]:
        broken.append({"stage": "prove", "file": pres["failed"]["path"], "error": pres["failed"]["out"][-1500:]})

    quick = ctx.tier == "quick"
    cases, ncorp, (n_hist, n_sprop, n_real, max_atoms) = gen_cases(ctx, quick)
    by_id = {c["id"]: c for c in cases}
    t0 = time.time()
    res = K.run_impl(cases, IMPL)
    t_impl = time.time() - t0

    # ---- histories against the state machine, in Coq
    terms, tid = [], {}
    n_ops = 0
    for c in cases:
        r = res.get(c["id"], {})
        for hk, h in enumerate(r.get("histories", [])):
            k = len(terms)
            tid[k] = (c["id"], hk)
            terms.append((k, history_term(h)))
            n_ops += len(h["ops"])
    t1 = time.time()
    hfail, herr = C.coq_case_files("c13_hist", PREAMBLE, terms, per_file=max(10, min(120, len(terms) // (2 * C.NCPU) + 1))) if terms else ([], [])
    t_coq = time.time() - t1

    # ---- statistics, direct failures
    direct, noradii = [], []
    stats = {"clusters_checked": 0, "clusters_cleaned": 0, "clusters_merged": 0, "histories": len(terms), "history_ops": n_ops,
             "dims": {}, "radii": {}, "bond_threshold": {}, "kinds": {}, "timeouts": 0, "errors": {}}
    nontrivial = 0
    seen_h = set()
    for c in cases:
        r = res.get(c["id"])
        if r is None:
            continue
        kind = c.get("meta", {}).get("kind", "script")
        stats["kinds"][kind] = stats["kinds"].get(kind, 0) + 1
        if r.get("timeout"):
            stats["timeouts"] += 1
            continue
        if r.get("error"):
            stats["errors"][r["error"]["type"]] = stats["errors"].get(r["error"]["type"], 0) + 1
            continue
        rk = c["params"].get("radii", "covalent")
        rk = "array" if isinstance(rk, dict) else rk
        stats["radii"][rk] = stats["radii"].get(rk, 0) + 1
        bt = str(c["params"].get("bond_threshold", 0.65))
        stats["bond_threshold"][bt] = stats["bond_threshold"].get(bt, 0) + 1
        stats["clusters_cleaned"] += r.get("cleaned", 0)
        stats["clusters_merged"] += r.get("merged", 0)
        for row in r.get("property", []):
            stats["clusters_checked"] += 1
            d = str(row.get("direct"))
            stats["dims"][d] = stats["dims"].get(d, 0) + 1
        if any(not s["radii"] for s in r.get("state_after_pipeline", [])):
            noradii.append(c["id"])
        h = K.case_hash(c) + json.dumps(c.get("history"), sort_keys=True)
        nt = (r.get("cleaned", 0) + r.get("merged", 0) > 0) or bool(r.get("histories"))
        if nt and h not in seen_h:
            nontrivial += 1
        seen_h.add(h)
        for kind_, detail in property_failures(r):
            direct.append((c["id"], kind_, detail))
    n_eval = stats["clusters_checked"] + n_ops
    ex = next((c for c in cases if res.get(c["id"], {}).get("property")), None)
    samples = []
    if ex is not None:
        samples.append({"meta": ex.get("meta"), "params": ex["params"], "n_atoms": len(ex["structure"]["numbers"]),
                        "rows": res[ex["id"]]["property"][:3]})
    ctx.add_cases(n_eval, nontrivial, samples)
    ctx.coverage["rule"] = ("evaluations = clusters on which shortcut (twice) and direct were compared + operations of random histories compared "
                            "with the Coq state machine; a case is non-trivial iff clean removed atoms from / merge built one of its clusters, or it "
                            "carries an operation history; distinct by SHA-256 of (structure, params, script, history seed)")
    ctx.coverage["input_distribution"] = stats
    ctx.coverage["counts"] = {"corpus": ncorp, "history_cases": n_hist, "scripted_property_cases": n_sprop, "real_finder_cases": n_real, "max_atoms": max_atoms}
    ctx.coverage["timing_s"] = {"impl": round(t_impl, 1), "coq": round(t_coq, 1)}

    # ---- history stream: one SBC instance reused across structures (same atoms with another periodicity / other radii first)
    from props import sbc_gen as _G
    rcases, rrows = _G.reuse_stream(ctx.rng, quick)
    reuse_bad = [r for r in rrows if r.get("dim_mismatch") or r.get("prior_dim_mismatch") or r.get("same_as_fresh") is False]
    ctx.add_cases(len(rrows), sum(1 for r in rrows if "error" not in r))
    ctx.coverage["sbc_instance_reuse"] = {"sequences": len(rrows), "errors": sum(1 for r in rrows if "error" in r), "failures": reuse_bad[:5]}
    for r in reuse_bad[:1]:
        rc = [c for c in rcases if c["id"] == r["id"]][0]
        ctx.violation({"kind": "property-fails-on-implementation",
                       "history": "sbc = SBC(); sbc.get_clusters(structure with pbc=alt_pbc, **kwargs); for each of prior_structures (translated / permuted / other-element copy, rng seeded with the case id): sbc.get_clusters(copy, **kwargs); (odd case ids: the same Atoms object is clustered once more, then re-ordered and a third of its atoms relabelled IN PLACE, rng seeded with the case id -- see harness/impl/sbc_reuse_impl.py); for pk in prior: sbc.get_clusters(structure, **pk); clusters = sbc.get_clusters(structure, **kwargs); "
                                  "compare cluster.get_dimensionality() with matid.geometry.get_dimensionality(cluster.get_atoms(), bond_threshold, radii) "
                                  "and the clusters with those of a fresh SBC()",
                       "structure": rc["structure"], "alt_pbc": rc["alt_pbc"], "kwargs": rc["kwargs"], "prior": rc["prior"], "prior_structures": rc.get("prior_structures"), "detail": r,
                       "broken_obligation": broken or None}, found_input=True)

    # ---- verdict
    reported = bool(reuse_bad)
    seen_kinds = set()
    # real-finder structures first, then scripted runs, operation histories last
    direct.sort(key=lambda x: (by_id[x[0]]["mode"] == "script", "history" in by_id[x[0]], x[0]))
    for cid, kind, detail in direct:
        if kind in seen_kinds:
            continue
        seen_kinds.add(kind)
        c = by_id[cid]

        def still(cc, rr):
            return bool(property_failures(rr))
        small = c
        if "history" not in c:
            small = K.shrink(c, kind, still, budget_s=60 if quick else 200, impl=IMPL)
        r2 = K.run_impl([dict(small, id=0)], IMPL).get(0, {})
        f2 = property_failures(r2)
        ctx.violation({"kind": "property-fails-on-implementation", "failure": kind, "detail": f2[0][1] if f2 else detail,
                       "case": strip(small), "original_atoms": len(c["structure"]["numbers"]),
                       "how": "SBC().get_clusters(case.structure, **case.params)%s; then compare cluster.get_dimensionality() with "
                              "matid.geometry.get_dimensionality(cluster.get_atoms(), bond_threshold, radii=<radii used>)"
                              % (" with the scripted finder case.regions/case.script" if c["mode"] == "script" else ""),
                       "broken_obligation": broken or None}, found_input=True)
        reported = True
    ctx.coverage["direct_failures"] = [{"case": cid, "kind": k, "detail": d} for cid, k, d in direct[:10]]
    corr = [("agree_history (cache state machine vs real Cluster)", tid[k]) for k in hfail] + \
           [("pipeline_clusters_have_radii (a returned cluster has no radii)", (cid, None)) for cid in noradii]
    ctx.coverage["correspondence_failures"] = [{"relation": r, "case": x[0], "history": x[1]} for r, x in corr[:20]]
    if herr:
        broken.append({"stage": "correspond", "error": herr[0]})
    if (corr or broken) and not reported:
        rep = {"kind": "correspondence-or-proof-broken", "broken": broken[0] if broken else {"relation": corr[0][0]},
               "searched": "shortcut vs direct on %d clusters and every GetDim of %d histories: no failing input" % (stats["clusters_checked"], len(terms))}
        if corr:
            rel, (cid, hk) = corr[0]
            rep["relation"] = rel
            rep["case"] = strip(by_id[cid])
            rep["history_index"] = hk
            rep["n_disagreeing"] = len(corr)
        ctx.violation(rep, found_input=False)


def strip(case):
    return {k: v for k, v in case.items() if k in ("mode", "structure", "params", "regions", "script", "history", "meta", "time_limit")}


def replay(ctx, rep):
    case = dict(rep.get("case") or {})
    if not case:
        pres = C.prove_property(PID)
        if pres["failed"]:
            ctx.violation(rep, found_input=False)
        else:
            print("replay: the proof obligations hold now")
        return
    case["id"] = 0
    r = K.run_impl([case], IMPL).get(0, {})
    f = property_failures(r)
    if f:
        ctx.violation(dict(rep, detail_now=f[0][1]), found_input=True)
        return
    terms = [(k, history_term(h)) for k, h in enumerate(r.get("histories", []))]
    hfail, herr = C.coq_case_files("c13_replay", PREAMBLE, terms, per_file=50) if terms else ([], [])
    if hfail or herr or any(not s["radii"] for s in r.get("state_after_pipeline", [])):
        ctx.violation(dict(rep, relation_now="agree_history / radii still disagree"), found_input=False)
        return
    print("replay: property and correspondence hold on this input now")
