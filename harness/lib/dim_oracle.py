"""Independent dimensionality oracle for floating-point structures (used by the C17/C18 runners).

The number the property talks about: None when the bonding graph of the cell contents (atoms linked when some periodic
image distance minus radii <= threshold) is disconnected, otherwise the rank of the lattice of translations along which the
bonded network is connected to its own images -- computed here from first principles (brute-force image sums, spanning tree
potentials, exact integer rank of the cycle voltages), with no call into matid.  Coq side: Geometry/Dimensionality.v
[dim_spec], whose integer rank is proved to be that lattice rank (VoltageLattice.v).

Float inputs: a pair whose distance is within `tie` of its bond length makes the answer `undecided` (the caller skips it)."""
import math
from fractions import Fraction

import numpy as np


def _rank_int(vs):
    rows = [[Fraction(int(x)) for x in v] for v in vs]
    r = 0
    for c in range(3):
        piv = None
        for k in range(r, len(rows)):
            if rows[k][c] != 0:
                piv = k
                break
        if piv is None:
            continue
        rows[r], rows[piv] = rows[piv], rows[r]
        for k in range(len(rows)):
            if k != r and rows[k][c] != 0:
                f = rows[k][c] / rows[r][c]
                rows[k] = [a - f * b for a, b in zip(rows[k], rows[r])]
        r += 1
    return r


def _rank_gf2(vs):
    rows = [[int(x) & 1 for x in v] for v in vs]
    r = 0
    for c in range(3):
        piv = None
        for k in range(r, len(rows)):
            if rows[k][c]:
                piv = k
                break
        if piv is None:
            continue
        rows[r], rows[piv] = rows[piv], rows[r]
        for k in range(len(rows)):
            if k != r and rows[k][c]:
                rows[k] = [a ^ b for a, b in zip(rows[k], rows[r])]
        r += 1
    return r


def dimensionality(positions, cell, pbc, radii, thr, tie=1e-7, work_cap=6e7):
    """returns {"dim": None|int, "decided": bool, "why": str, "rank2": int|None}"""
    P = np.asarray(positions, dtype=float)
    C = np.asarray(cell, dtype=float)
    n = len(P)
    pbc = [bool(x) for x in pbc]
    rad = np.asarray(radii, dtype=float)
    T = thr + rad[:, None] + rad[None, :]
    tmax = float(T.max()) if n else 0.0
    N = [0, 0, 0]
    if any(pbc):
        vol = abs(np.linalg.det(C))
        if vol < 1e-12:
            return {"dim": None, "decided": False, "why": "singular cell", "rank2": None}
        for k in range(3):
            if pbc[k]:
                cr = np.cross(C[(k + 1) % 3], C[(k + 2) % 3])
                h = vol / np.linalg.norm(cr)
                N[k] = int(math.floor(tmax / h)) + 1
        # atoms need not be inside the cell: enlarge the box by the spread of the scaled coordinates
        s = np.linalg.solve(C.T, P.T).T
        for k in range(3):
            if pbc[k]:
                N[k] += int(math.ceil(s[:, k].max() - s[:, k].min()))
    noff = (2 * N[0] + 1) * (2 * N[1] + 1) * (2 * N[2] + 1)
    if noff * n * n > work_cap:
        return {"dim": None, "decided": False, "why": "too large for the brute-force oracle", "rank2": None}
    D0 = P[:, None, :] - P[None, :, :]
    E = []
    near = 0
    for x in range(-N[0], N[0] + 1):
        for y in range(-N[1], N[1] + 1):
            for z in range(-N[2], N[2] + 1):
                ov = np.array([x, y, z], dtype=float) @ C
                d = np.sqrt(((D0 - ov[None, None, :]) ** 2).sum(axis=2))
                near += int((np.abs(d - T) < tie).sum())
                ok = d <= T
                if (x, y, z) == (0, 0, 0):
                    ok = ok & ~np.eye(n, dtype=bool)
                ii, jj = np.nonzero(ok)
                for i, j in zip(ii.tolist(), jj.tolist()):
                    E.append((i, j, (x, y, z)))      # atom i is bonded to atom j displaced by (x, y, z).cell
    if near:
        return {"dim": None, "decided": False, "why": "a pair sits within %g of its bond length" % tie, "rank2": None}
    nb = [[] for _ in range(n)]
    for i, j, o in E:
        nb[i].append((j, o))
    label = [None] * n
    pot = [None] * n
    if n:
        label[0] = 0
        pot[0] = (0, 0, 0)
        stack = [0]
        while stack:
            u = stack.pop()
            for v, o in nb[u]:
                if label[v] is None:
                    label[v] = 0
                    # r_u - (r_v + o.cell) small: v sits at lattice position pot[u] - o relative to its stored copy ... sign fixed
                    pot[v] = (pot[u][0] - o[0], pot[u][1] - o[1], pot[u][2] - o[2])
                    stack.append(v)
    if n == 0 or any(x is None for x in label):
        return {"dim": None, "decided": True, "why": "disconnected", "rank2": None}
    vs = set()
    for i, j, o in E:
        v = (pot[i][0] - o[0] - pot[j][0], pot[i][1] - o[1] - pot[j][1], pot[i][2] - o[2] - pot[j][2])
        if v != (0, 0, 0):
            vs.add(v)
    vs = sorted(vs)
    rz, r2 = _rank_int(vs), _rank_gf2(vs)
    return {"dim": rz, "decided": rz == r2, "why": "ok" if rz == r2 else "integer rank %d differs from GF(2) rank %d (outside the explored family)" % (rz, r2),
            "rank2": r2}
