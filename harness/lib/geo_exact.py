"""Exact-arithmetic helpers shared by the C10 / C16 checks.

Everything is in *grid units*: an input coordinate k stands for the real number k * 2**-12.  The
functions here (i) mirror a few model quantities in Python integers so that the generator can
classify ties/boundaries and the input distribution can be measured, (ii) implement the
*property's own predicate* with a brute-force lattice sum as oracle (used only when the proof or the
correspondence breaks, to look for a concrete failing input), (iii) print Coq literals.
The deciding comparison is NOT done here: it is the Coq function in coq/Geometry/GeoAgree.v.
"""
import itertools
import math
from fractions import Fraction

G = 4096  # grid factor 2**12
PAD = Fraction(0.0001) * G  # celllist.cpp padding (exact value of the double), in grid units
INF = "inf"


# ---------------------------------------------------------------- integer vectors
def dot(a, b):
    return a[0] * b[0] + a[1] * b[1] + a[2] * b[2]


def cross(a, b):
    return (a[1] * b[2] - a[2] * b[1], a[2] * b[0] - a[0] * b[2], a[0] * b[1] - a[1] * b[0])


def sub(a, b):
    return (a[0] - b[0], a[1] - b[1], a[2] - b[2])


def add(a, b):
    return (a[0] + b[0], a[1] + b[1], a[2] + b[2])


def lat(cell, n):
    return tuple(n[0] * cell[0][k] + n[1] * cell[1][k] + n[2] * cell[2][k] for k in range(3))


def vol(cell):
    return dot(cell[0], cross(cell[1], cell[2]))


def isz(v):
    return dot(v, v) == 0


def isqrt_ceil(m):
    s = math.isqrt(m)
    return s if s * s == m else s + 1


def least_sq(A, B):
    """least N >= 0 with N*N*A >= B (A > 0, B >= 0)"""
    m = -((-B) // A)
    return isqrt_ceil(m)


def complete_cell(cell):
    a, b, c = cell
    if isz(a) and not isz(b) and not isz(c):
        return (cross(b, c), b, c)
    if isz(b) and not isz(a) and not isz(c):
        return (a, cross(a, c), c)
    if isz(c) and not isz(a) and not isz(b):
        return (a, b, cross(a, b))
    return (a, b, c)


def copies_AB(cell, pbc, ext2):
    """per axis None (no copies) or (A, B) with N = least_sq(A, B) -- mirror of Extend.n_copies"""
    a, b, c = cell
    ne = int(isz(a)) + int(isz(b)) + int(isz(c))
    out = [None, None, None]
    if ne <= 1:
        a2, b2, c2 = complete_cell(cell)
        V = vol((a2, b2, c2))
        prs = [(b2, c2), (c2, a2), (a2, b2)]
        for k in range(3):
            if pbc[k] and not isz(cell[k]):
                w = cross(*prs[k])
                out[k] = (V * V, ext2 * dot(w, w))
    elif ne == 2:
        for k in range(3):
            if pbc[k] and not isz(cell[k]):
                out[k] = (dot(cell[k], cell[k]), ext2)
    return out


def n_copies(cell, pbc, ext2):
    return tuple(0 if ab is None else (least_sq(*ab) if ab[0] > 0 else 0) for ab in copies_AB(cell, pbc, ext2))


def copies_tie(cell, pbc, ext2):
    """True when cutoff/height is exactly an integer >= 1 along some axis (the float ceil may answer N or N+1)"""
    for ab in copies_AB(cell, pbc, ext2):
        if ab is None or ab[0] <= 0:
            continue
        N = least_sq(*ab)
        if N >= 1 and N * N * ab[0] == ab[1]:
            return True
    return False


def longest2(cell, pbc):
    return max([dot(cell[k], cell[k]) for k in range(3) if pbc[k]] + [0])


def frac_num(cell, p):
    """(D1, D2, D3, V): fractional coordinate k = Dk / V"""
    a, b, c = cell
    return (dot(p, cross(b, c)), dot(p, cross(c, a)), dot(p, cross(a, b)), vol(cell))


def in_cell(cell, pbc, p):
    d1, d2, d3, V = frac_num(cell, p)
    s = 1 if V > 0 else -1
    return all((not pbc[k]) or (0 <= d * s < abs(V)) for k, d in enumerate((d1, d2, d3)))


# ---------------------------------------------------------------- brute-force oracle
def min_image(cell, pbc, ri, rj):
    """(true minimum of |ri - rj - n.cell|^2 over admissible n, list of minimisers) by lattice sum.
    Box: every minimiser is within |ri-rj|^2 of ri, hence |n_k + ds_k| <= sqrt(d0^2)/h_k."""
    d = sub(ri, rj)
    d0 = dot(d, d)
    box = []
    ab = copies_AB(cell, pbc, d0)
    d1, d2, d3, V = frac_num(cell, d)
    for k in range(3):
        if ab[k] is None or ab[k][0] <= 0:
            box.append([0])
        else:
            N = least_sq(*ab[k])
            s = Fraction((d1, d2, d3)[k], V)
            c = round(s)
            box.append(list(range(c - N - 1, c + N + 2)))
    best, arg = None, []
    for n in itertools.product(*box):
        v = sub(d, lat(cell, n))
        m = dot(v, v)
        if best is None or m < best:
            best, arg = m, [n]
        elif m == best:
            arg.append(n)
    return best, arg


def images_within(cell, pbc, q, rj, r2):
    """all admissible n with |q - rj - n.cell|^2 <= r2 (brute force)"""
    d = sub(q, rj)
    ab = copies_AB(cell, pbc, r2)
    d1, d2, d3, V = frac_num(cell, d) if vol(cell) != 0 else (0, 0, 0, 1)
    box = []
    for k in range(3):
        if ab[k] is None or ab[k][0] <= 0:
            box.append([0])
        else:
            N = least_sq(*ab[k])
            c = round(Fraction((d1, d2, d3)[k], V))
            box.append(list(range(c - N - 1, c + N + 2)))
    out = []
    for n in itertools.product(*box):
        v = sub(d, lat(cell, n))
        if dot(v, v) <= r2:
            out.append((n, dot(v, v)))
    return out


# ---------------------------------------------------------------- floats <-> exact
def fx(h):
    """hex string of a double (or 'inf'/'-inf'/'nan') -> Fraction in grid units, or the string"""
    if h in ("inf", "-inf", "nan"):
        return h
    return Fraction(float.fromhex(h)) * G


def fx_raw(h):
    if h in ("inf", "-inf", "nan"):
        return h
    return Fraction(float.fromhex(h))


def hexf(x):
    x = float(x)
    if math.isinf(x):
        return "inf" if x > 0 else "-inf"
    if math.isnan(x):
        return "nan"
    return x.hex()


def d_close(d, d2):
    return d >= 0 and abs(d * d - d2) * 2 ** 51 <= d2


# ---------------------------------------------------------------- Coq literals
def zl(n):
    n = int(n)
    return "(%d)" % n if n < 0 else "%d" % n


def v3l(v):
    return "(mk3 %s %s %s)" % (zl(v[0]), zl(v[1]), zl(v[2]))


def ql(fr):
    fr = Fraction(fr)
    return "(%s # %d)%%Q" % (zl(fr.numerator), fr.denominator)


def q3l(t):
    return "(%s, %s, %s)" % (ql(t[0]), ql(t[1]), ql(t[2]))


def pbcl(p):
    return "(mkP %s %s %s)" % tuple("true" if x else "false" for x in p)


def cutl(c):
    return "Inf" if c is None else "(Fin %s)" % zl(c)


def listl(items):
    return "[" + "; ".join(items) + "]"


PREAMBLE = ("From Coq Require Import ZArith QArith List Bool.\nImport ListNotations.\n"
            "From MV Require Import Base.ZV3 Geometry.Extend Geometry.CellList Geometry.DispTensor Geometry.Matches Geometry.GeoAgree.\n"
            "Open Scope Z_scope.\n")
