"""Generators of dyadic-grid inputs for the C10 / C16 correspondence (coordinates k * 2**-12,
|.| < 2**6): cells (orthogonal, triclinic, unimodular-sheared, needle/plate, optionally with the
Cartesian axes permuted/reflected, degenerate for extend_system), atoms inside the cell (random and
special fractional positions: faces, edges, coincident atoms), cutoffs (None, inf, grid values,
exact multiples of a cell height) and probe points (anywhere in the cell, next to bin edges, a few
outside).  All decisions come from the one PRNG handed in."""
from fractions import Fraction
import math

from lib import geo_exact as X

G = X.G
LIM = 64 * G - 1
COARSE = G // 8  # 0.125 A


def _signed_perm(rng):
    perm = [0, 1, 2]
    rng.shuffle(perm)
    sg = [rng.choice([1, -1]) for _ in range(3)]
    return perm, sg


def _apply_perm(cell, perm, sg):
    return tuple(tuple(sg[k] * v[perm[k]] for k in range(3)) for v in cell)


def _ok_cell(cell):
    if any(abs(x) > LIM // 2 for v in cell for x in v):
        return False
    V = abs(X.vol(cell))
    if V < (G // 2) ** 3:  # at least (0.5 A)^3
        return False
    # heights at least 0.3 A
    a, b, c = cell
    for w in (X.cross(b, c), X.cross(c, a), X.cross(a, b)):
        if V * V * 100 < 9 * G * G * X.dot(w, w):
            return False
    return True


def gen_cell(rng, kind=None):
    kind = kind or rng.choice(["orth", "orth", "tri", "tri_fine", "shear", "shear", "needle", "plate"])
    for _ in range(200):
        if kind == "orth":
            L = [rng.randint(8, 80) * COARSE for _ in range(3)]
            cell = ((L[0], 0, 0), (0, L[1], 0), (0, 0, L[2]))
        elif kind == "tri":
            u = COARSE * 2
            cell = tuple(tuple(rng.randint(-12, 12) * u + (rng.randint(16, 40) * u if i == j else 0) for j in range(3)) for i in range(3))
        elif kind == "tri_fine":
            cell = tuple(tuple(rng.randint(-3 * G, 3 * G) + (rng.randint(3 * G, 9 * G) if i == j else 0) for j in range(3)) for i in range(3))
        elif kind == "shear":
            L = [rng.randint(12, 48) * COARSE for _ in range(3)]
            base = [[L[0], 0, 0], [0, L[1], 0], [0, 0, L[2]]]
            if rng.random() < 0.4:
                base[1][0] = rng.randint(-8, 8) * COARSE
                base[2][1] = rng.randint(-8, 8) * COARSE
            rows = [list(r) for r in base]
            for _s in range(rng.randint(1, 4)):
                i, j = rng.sample([0, 1, 2], 2)
                k = rng.choice([-3, -2, -1, 1, 2, 3])
                rows[i] = [rows[i][m] + k * rows[j][m] for m in range(3)]
            cell = tuple(tuple(r) for r in rows)
        elif kind == "needle":  # one long, two short axes
            s1, s2 = rng.randint(6, 16) * COARSE, rng.randint(6, 16) * COARSE
            lg = rng.randint(80, 200) * COARSE
            cell = ((s1, 0, 0), (rng.randint(-4, 4) * COARSE, s2, 0), (0, rng.randint(-4, 4) * COARSE, lg))
        else:  # plate: one short axis
            s1 = rng.randint(4, 12) * COARSE
            l1, l2 = rng.randint(60, 160) * COARSE, rng.randint(60, 160) * COARSE
            cell = ((l1, 0, 0), (rng.randint(-20, 20) * COARSE, l2, 0), (rng.randint(-2, 2) * COARSE, 0, s1))
        if rng.random() < 0.5:
            cell = _apply_perm(cell, *_signed_perm(rng))
        if rng.random() < 0.3:
            rows = list(cell)
            rng.shuffle(rows)
            cell = tuple(rows)
        if _ok_cell(cell):
            return cell, kind
    L = 32 * COARSE
    return ((L, 0, 0), (0, L, 0), (0, 0, L)), "orth"


def gen_degenerate_cell(rng):
    """cells with one to three zero vectors (only meaningful for extend_system)"""
    cell, kind = gen_cell(rng, rng.choice(["orth", "tri", "shear"]))
    nz = rng.choice([1, 1, 2, 2, 3])
    idx = rng.sample([0, 1, 2], nz)
    rows = [(0, 0, 0) if i in idx else cell[i] for i in range(3)]
    return tuple(rows), "degenerate%d" % nz


def wrap_into_cell(cell, p, axes=(True, True, True)):
    d1, d2, d3, V = X.frac_num(cell, p)
    n = tuple((d // V) if axes[k] else 0 for k, d in enumerate((d1, d2, d3)))
    return X.sub(p, X.lat(cell, n))


def rand_point(rng, span=24 * G):
    return tuple(rng.randint(-span, span) for _ in range(3))


def special_point(rng, cell):
    """fractional coordinates in {0, 1/4, 1/2, 3/4} when the cell allows it on the grid"""
    fr = [rng.choice([0, 0, 1, 2, 3]) for _ in range(3)]
    p = [0, 0, 0]
    for k in range(3):
        for m in range(3):
            num = fr[k] * cell[k][m]
            if num % 4:
                return None
            p[m] += num // 4
    return tuple(p)


PYTH = [(3, 4, 0), (5, 12, 0), (1, 2, 2), (2, 3, 6), (4, 4, 7), (1, 4, 8), (0, 0, 1), (8, 15, 0), (2, 6, 9)]


def pyth_offset(rng, unit=None):
    """integer vector of integer length (Pythagorean quadruple), random signs/axes; returns (vector, length)"""
    t = list(rng.choice(PYTH))
    k = rng.randint(1, 6) * (unit or rng.choice([COARSE, COARSE // 4, 64]))
    ln = math.isqrt(sum(x * x for x in t)) * k
    rng.shuffle(t)
    return tuple(rng.choice([1, -1]) * x * k for x in t), ln


def gen_positions(rng, cell, n, inside=True, degenerate=False):
    pos = []
    V = X.vol(cell) if not degenerate else 0
    for _ in range(n):
        r = rng.random()
        p = None
        if pos and r < 0.08:
            p = rng.choice(pos)  # coincident atoms
        elif pos and r < 0.2:
            p = X.add(rng.choice(pos), pyth_offset(rng)[0])  # at an exactly representable distance
            if V != 0 and inside:
                p = wrap_into_cell(cell, p)
        elif r < 0.45 and V != 0:
            p = special_point(rng, cell)
        if p is None:
            p = rand_point(rng, 12 * G if degenerate else 24 * G)
            if V != 0 and inside:
                p = wrap_into_cell(cell, p)
        pos.append(p)
    return pos


def heights_on_grid(cell, pbc):
    """exact heights that are grid integers (candidates for cutoff = k * height)"""
    out = []
    a, b, c = cell
    V = abs(X.vol(cell))
    for k, w in enumerate((X.cross(b, c), X.cross(c, a), X.cross(a, b))):
        if not pbc[k]:
            continue
        w2 = X.dot(w, w)
        r = math.isqrt(w2)
        if r * r == w2 and r > 0 and V % r == 0:
            out.append(V // r)
    return out


def ext_size(cell, pbc, ext2, n):
    N = X.n_copies(cell, pbc, ext2)
    return n * (2 * N[0] + 1) * (2 * N[1] + 1) * (2 * N[2] + 1)


def gen_cutoff(rng, cell, pbc, allow_inf=True):
    r = rng.random()
    if allow_inf and r < 0.12:
        return None, "None"
    if allow_inf and r < 0.27:
        return None, "inf"
    hs = heights_on_grid(cell, pbc)
    if hs and r < 0.55:
        h = rng.choice(hs)
        k = rng.choice([1, 1, 2, 3])
        if h * k < 12 * G:
            return h * k, "height_multiple"
    if r < 0.8:
        return rng.randint(4, 80) * COARSE, "coarse"
    return rng.randint(G // 5, 10 * G), "fine"


def pbc_pattern(rng):
    return tuple(rng.random() < 0.6 for _ in range(3))


MAX_EXT = 1500


def bins_ok(cell, pbc, pos, ext2, cutoff):
    """keep the dense 3-d bin array of the cell list small (memory) and below 600 bins per axis
    (see CellList.v: an exact bin-edge coincidence needs 625 | 2k - nx)"""
    if cutoff is None:
        return True
    cc = X.complete_cell(cell)
    N = X.n_copies(cell, pbc, ext2)
    tot = 1
    for ax in range(3):
        sp = sum(N[k] * abs(cc[k][ax]) for k in range(3))
        span = max(p[ax] for p in pos) - min(p[ax] for p in pos) + 2 * sp + 1
        nx = max(1, span // cutoff)
        if nx > 500:
            return False
        tot *= nx
    return tot <= 200000


def gen_c10_case(rng, cid):
    for _ in range(100):
        cell, kind = gen_cell(rng)
        pbc = pbc_pattern(rng)
        n = rng.randint(1, 10)
        inside = rng.random() < 0.93
        pos = gen_positions(rng, cell, n, inside)
        cutoff, ckind = gen_cutoff(rng, cell, pbc)
        if cutoff is not None and n >= 2 and rng.random() < 0.3:
            # cutoff exactly equal to the minimum-image distance of some pair (when that is on the grid)
            for _t in range(6):
                i, j = rng.sample(range(n), 2)
                m, _arg = X.min_image(cell, pbc, pos[i], pos[j])
                r = math.isqrt(m)
                if r * r == m and G // 5 <= r < 12 * G:
                    cutoff, ckind = r, "pair_distance"
                    break
        ext2 = X.longest2(cell, pbc) if cutoff is None else cutoff * cutoff
        tries = 0
        while cutoff is not None and ext_size(cell, pbc, ext2, n) > MAX_EXT and tries < 6:
            cutoff = max(cutoff // 2, 1)
            ext2 = cutoff * cutoff
            ckind = "reduced"
            tries += 1
        if ext_size(cell, pbc, ext2, n) > MAX_EXT or not bins_ok(cell, pbc, pos, ext2, cutoff):
            continue
        api = "tensor"
        if cutoff is None and rng.random() < 0.25:
            api = "distances"
        return {"id": cid, "cell": cell, "cell_kind": kind, "pbc": pbc, "pos": pos, "cutoff": cutoff,
                "cutoff_kind": ckind, "api": api,
                "pbc_scalar": bool(rng.random() < 0.5)}
    raise RuntimeError("generator could not produce a bounded case")


def near_edge_points(rng, cell, pbc, pos, ext2, cutoff, k):
    """grid points next to bin edges of the exact bin geometry (the edges themselves are off-grid
    because of the padding)"""
    cc = X.complete_cell(cell)
    N = X.n_copies(cell, pbc, ext2)
    out = []
    for _ in range(k):
        ax = rng.randrange(3)
        # cheap approximation of xmin: scan the corner images
        vals = []
        rngs = [range(-N[j], N[j] + 1) if N[j] <= 1 else (-N[j], 0, N[j]) for j in range(3)]
        for p in pos:
            for n1 in rngs[0]:
                for n2 in rngs[1]:
                    for n3 in rngs[2]:
                        vals.append(p[ax] + n1 * cc[0][ax] + n2 * cc[1][ax] + n3 * cc[2][ax])
        lo = Fraction(min(vals)) - X.PAD
        hi = Fraction(max(vals)) + X.PAD
        nx = max(1, int((hi - lo) / cutoff))
        dx = max(Fraction(cutoff), (hi - lo) / nx)
        e = lo + rng.randint(0, nx) * dx
        q = list(rand_point(rng, 12 * G))
        q[ax] = math.floor(e) + rng.choice([0, 1])
        out.append(tuple(q))
    return out


def gen_c16_case(rng, cid, kind=None):
    kind = kind or rng.choice(["extend", "extend_deg", "query", "query", "match", "match", "simple"])
    for _ in range(100):
        if kind == "extend_deg":
            cell, ck = gen_degenerate_cell(rng)
        else:
            cell, ck = gen_cell(rng)
        pbc = pbc_pattern(rng) if rng.random() < 0.85 else (True, True, True)
        n = rng.randint(1, 12)
        deg = kind == "extend_deg"
        pos = gen_positions(rng, cell, n, rng.random() < 0.93, degenerate=deg)
        nums = [rng.choice([1, 6, 8, 14, 29]) for _ in range(n)]
        if kind in ("extend", "extend_deg"):
            ext, ek = gen_cutoff(rng, cell, pbc, allow_inf=False) if not deg else (rng.randint(1, 40) * COARSE, "coarse")
            if rng.random() < 0.05:
                ext, ek = 0, "zero"
            if deg and rng.random() < 0.3:
                # extension an exact multiple of the length of a lone vector / of a grid height
                nzv = [v for v in cell if not X.isz(v)]
                if len(nzv) == 1:
                    l2 = X.dot(nzv[0], nzv[0])
                    r = math.isqrt(l2)
                    if r * r == l2:
                        ext, ek = r * rng.choice([1, 2]), "height_multiple"
            while ext_size(cell, pbc, ext * ext, n) > 2 * MAX_EXT and ext > 1:
                ext //= 2
                ek = "reduced"
            return {"id": cid, "kind": kind, "cell": cell, "cell_kind": ck, "pbc": pbc, "pos": pos, "nums": nums,
                    "ext": ext, "ext_kind": ek}
        # 0.2 - 4 A, both orders
        ext, ek = gen_cutoff(rng, cell, pbc, allow_inf=False)
        ext = max(G // 5, min(ext, 4 * G))
        if rng.random() < 0.5:
            cutoff = max(G // 5, min(rng.choice([ext, ext, rng.randint(G // 5, ext)]), 4 * G))
        elif rng.random() < 0.5:
            cutoff = rng.randint(ext, 4 * G)  # cutoff >= extension
        else:
            cutoff = rng.randint(G // 5, 4 * G)
        if ext_size(cell, pbc, ext * ext, n) > MAX_EXT or not bins_ok(cell, pbc, pos, ext * ext, cutoff):
            continue
        probes = []
        near = []
        exact_len = []
        npr = rng.randint(2, 6)
        for _p in range(npr):
            r = rng.random()
            q = None
            near.append(None)
            if r < 0.25:
                q = special_point(rng, cell)
            elif r < 0.45:
                q = near_edge_points(rng, cell, pbc, pos, ext * ext, cutoff, 1)[0]
                if rng.random() < 0.7:
                    q = wrap_into_cell(cell, q)
            elif r < 0.6 and pos:
                # next to an atom (so that matches exist)
                near[-1] = rng.randrange(len(pos))
                a0 = pos[near[-1]]
                q = tuple(a0[m] + rng.randint(-G // 4, G // 4) for m in range(3))
                if rng.random() < 0.5:
                    q = a0
                q = wrap_into_cell(cell, q)
            elif r < 0.72 and pos:
                near[-1] = rng.randrange(len(pos))
                off, ln = pyth_offset(rng)
                q = X.add(pos[near[-1]], off)
                exact_len.append(ln)
                if rng.random() < 0.8:
                    q = wrap_into_cell(cell, q)
            if q is None:
                q = rand_point(rng)
                if rng.random() < 0.9:
                    q = wrap_into_cell(cell, q)
            probes.append(q)
        case = {"id": cid, "kind": kind, "cell": cell, "cell_kind": ck, "pbc": pbc, "pos": pos, "nums": nums,
                "ext": ext, "ext_kind": ek, "cutoff": cutoff, "probes": probes}
        if kind in ("match", "simple"):
            m = min(ext, cutoff)
            r = rng.random()
            if r < 0.75:
                tol = rng.randint(max(1, m // 8), m)
            elif r < 0.9:
                tol = m
            else:
                tol = rng.randint(1, 4 * G)  # possibly beyond cutoff/extension
            ok_len = [l for l in exact_len if l <= m]
            if ok_len and rng.random() < 0.5:
                tol = rng.choice(ok_len)  # some probe exactly at the tolerance
            case["tol"] = tol
            case["probe_nums"] = [nums[j] if (j is not None and rng.random() < 0.7) else rng.choice(nums + [1, 8]) for j in near]
            if kind == "simple":
                # probes of get_matches_simple get wrapped by ASE; start anywhere
                case["probes"] = [q if rng.random() < 0.5 else X.add(q, X.lat(cell, tuple(rng.randint(-2, 2) if pbc[k] else 0 for k in range(3))))
                                  for q in probes]
                if not any(pbc):
                    pass
        return case
    raise RuntimeError("generator could not produce a bounded case")
