"""Shared machinery for every property check.

One check = harness/check.py <ID> [--tier quick|thorough] [--replay file]

Stages offered here (see DESIGN.md section 2.1):
  * coq_static_build  : full `make` of the hand-written theory (never -vos)
  * coqc_file         : compile one (generated / property / cases) file
  * prove_property    : compile coq/Properties/<ID>.v, collect `Print Assumptions`
  * impl_run          : run an implementation-side script under /venv/bin/python
                        with PYTHONPATH=/repo (the current working tree)
  * Evidence          : writes evidence/<ID>.json on every run (also on failure)
  * report_violation  : replay file + the VIOLATION line
  * known findings    : known_findings.json, never written at run time
"""
import contextlib
import fcntl
import hashlib
import json
import os
import random
import re
import subprocess
import sys
import time

VERIF = os.path.dirname(os.path.dirname(os.path.dirname(os.path.abspath(__file__))))
REPO = os.environ.get("VERIF_REPO", "/repo")
COQ = os.path.join(VERIF, "coq")
BUILD = os.path.join(VERIF, "build")
PY = "/venv/bin/python"
NCPU = int(os.environ.get("VERIF_JOBS", "16"))
GUARD = "NOMAD_COE_MATID_VERIF"

FORBIDDEN = re.compile(
    r"\b(Admitted|admit|Axiom|Axioms|Parameter|Parameters|Conjecture|Conjectures|Admit Obligations)\b"
    r"|Unset\s+Guard|bypass_check|type-in-type|impredicative-set|Unset\s+Positivity|Unset\s+Universe"
)


def log(*a):
    print(*a, file=sys.stderr, flush=True)


def sha(s):
    if isinstance(s, str):
        s = s.encode()
    return hashlib.sha256(s).hexdigest()


def file_sha(path):
    with open(path, "rb") as f:
        return hashlib.sha256(f.read()).hexdigest()


@contextlib.contextmanager
def lock(name="coq"):
    os.makedirs(BUILD, exist_ok=True)
    fd = os.open(os.path.join(BUILD, "." + name + ".lock"), os.O_CREAT | os.O_RDWR)
    try:
        fcntl.flock(fd, fcntl.LOCK_EX)
        yield
    finally:
        fcntl.flock(fd, fcntl.LOCK_UN)
        os.close(fd)


# ----------------------------------------------------------------------------
# Coq
# ----------------------------------------------------------------------------
def strip_coq_comments(text):
    out = []
    depth = 0
    i = 0
    n = len(text)
    instr = False
    while i < n:
        c = text[i]
        if depth == 0 and c == '"':
            instr = not instr
            out.append(c)
            i += 1
            continue
        if not instr and text.startswith("(*", i):
            depth += 1
            i += 2
            continue
        if not instr and depth > 0 and text.startswith("*)", i):
            depth -= 1
            i += 2
            continue
        if depth == 0:
            out.append(c)
        i += 1
    return "".join(out)


def forbidden_gate(extra_dirs=()):
    """grep gate: no Admitted/admit/Axiom/Parameter/... anywhere in the development
    (comments and string literals are ignored)."""
    bad = []
    roots = [COQ, dyn_dir()] + list(extra_dirs)
    only = os.environ.get("VERIF_GATE_DIRS")
    if only:  # development aid only: restrict the gate to some sub-directories of coq/
        roots = [os.path.join(COQ, d) for d in only.split()] + [os.path.join(COQ, "Properties"), os.path.join(COQ, "Inst")]
    for root in roots:
        for dp, _, fns in os.walk(root):
            for fn in fns:
                if not fn.endswith(".v"):
                    continue
                p = os.path.join(dp, fn)
                with open(p, encoding="utf-8") as f:
                    txt = strip_coq_comments(f.read())
                # drop string literals
                txt = re.sub(r'"[^"]*"', '""', txt)
                for m in FORBIDDEN.finditer(txt):
                    line = txt.count("\n", 0, m.start()) + 1
                    bad.append("%s:%d:%s" % (p, line, m.group(0)))
    return bad


def coq_flags(extra=()):
    fl = ["-Q", COQ, "MV"]
    for phys, logical in extra:
        fl += ["-Q", phys, logical]
    return fl


STATIC_EXCLUDE = ("Inst", "Properties", "Generated", "Cases")


def static_files():
    """The hand-written static theory: every .v under coq/ except the per-run directories
    Inst/ (reflection instances), Properties/ (property theorems), Generated/, Cases/."""
    files = []
    for dp, dns, fns in os.walk(COQ):
        rel = os.path.relpath(dp, COQ)
        top = rel.split(os.sep)[0]
        if top in STATIC_EXCLUDE:
            dns[:] = []
            continue
        for fn in fns:
            if fn.endswith(".v"):
                files.append(os.path.normpath(os.path.join(rel, fn)))
    return sorted(files)


def coq_static_build(targets=None, timeout=3000):
    """Full .vo build (never -vos) of the static theory, or of the given .vo targets and what
    they depend on.  _CoqProject is regenerated from the directory scan.  Returns (ok, output)."""
    with lock("coq"):
        t0 = time.time()
        proj = "-Q . MV\n" + "\n".join(static_files()) + "\n"
        changed = write_if_changed(os.path.join(COQ, "_CoqProject"), proj)
        if changed or not os.path.exists(os.path.join(COQ, "Makefile")):
            r = subprocess.run(["coq_makefile", "-f", "_CoqProject", "-o", "Makefile"],
                               cwd=COQ, capture_output=True, text=True)
            if r.returncode != 0:
                return False, r.stdout + r.stderr
        cmd = ["timeout", str(timeout), "make", "-j%d" % NCPU] + list(targets or [])
        r = subprocess.run(cmd, cwd=COQ, capture_output=True, text=True)
        log("[coq] static build %s rc=%d %.1fs" % (" ".join(targets or ["(all)"]), r.returncode, time.time() - t0))
        return r.returncode == 0, r.stdout[-4000:] + r.stderr[-8000:]


def coqc_file(path, extra=(), timeout=900, cwd=None):
    """Compile one .v file (full .vo). Returns (rc, stdout+stderr)."""
    cmd = ["timeout", str(timeout), "coqc"] + coq_flags(extra) + [path]
    r = subprocess.run(cmd, capture_output=True, text=True, cwd=cwd or COQ)
    return r.returncode, r.stdout + r.stderr


def coqc_many(paths, extra=(), timeout=900, jobs=None):
    """Compile independent files in parallel. Returns dict path -> (rc, out)."""
    from concurrent.futures import ThreadPoolExecutor

    res = {}
    with ThreadPoolExecutor(max_workers=jobs or NCPU) as ex:
        futs = {p: ex.submit(coqc_file, p, extra, timeout) for p in paths}
        for p, f in futs.items():
            res[p] = f.result()
    return res


ASSUM_RE = re.compile(r"^(Closed under the global context|Axioms:)", re.M)


def parse_assumptions(out):
    """Split coqc output into the blocks printed by successive `Print Assumptions`."""
    blocks = []
    lines = out.splitlines()
    i = 0
    while i < len(lines):
        ln = lines[i]
        if ln.startswith("Closed under the global context"):
            blocks.append("Closed under the global context")
            i += 1
        elif ln.startswith("Axioms:"):
            blk = []
            i += 1
            while i < len(lines) and (lines[i].startswith(" ") or lines[i].strip() == "" or re.match(r"^[A-Za-z_][\w.']*\s*:", lines[i])):
                if lines[i].startswith("Closed under") or lines[i].startswith("Axioms:"):
                    break
                if lines[i].strip():
                    blk.append(lines[i].strip())
                i += 1
            blocks.append("Axioms: " + " | ".join(blk))
        else:
            i += 1
    return blocks


def theorem_names(vfile):
    with open(vfile, encoding="utf-8") as f:
        txt = strip_coq_comments(f.read())
    return re.findall(r"^\s*(?:Theorem|Lemma|Corollary|Example)\s+([\w']+)", txt, re.M)


def prove_property(pid, pre_steps=(), timeout=1800, newer_than=0.0):
    """Compile (always) coq/Properties/<pid>.v in the per-run directory after `pre_steps`
    (generated files / reflection instances).  Returns a dict for Ctx.record_proof plus
    `results` (per-file) and `failed` (first failing step or None)."""
    rel = "Properties/%s.v" % pid
    steps = list(pre_steps) + [(rel, None)]
    res = build_dynamic(steps, timeout=timeout, always=(rel,), newer_than=newer_than)
    ff = first_failure(res)
    names = theorem_names(os.path.join(COQ, rel))
    last = res[-1]
    ok = ff is None and last["path"] == rel
    return {
        "ok": ok, "theorems": names, "results": res, "failed": ff,
        "assumptions": parse_assumptions(last["out"]) if last["path"] == rel else [],
        "wall_s": sum(r["wall_s"] for r in res),
        "cmd": "coqc -Q coq MV -Q build/dyn-<repo> MVD " + " ".join(s[0] for s in steps) + "  (via harness/check.py %s)" % pid,
    }


def coq_eval(name, text, extra=(), timeout=900):
    """Write <dyn_dir>/Cases/<name>.v with `text`, compile it (MV and MVD visible), return (rc, out)."""
    d = os.path.join(dyn_dir(), "Cases")
    os.makedirs(d, exist_ok=True)
    p = os.path.join(d, name + ".v")
    with open(p, "w") as f:
        f.write(text)
    return coqc_file(p, tuple(extra) + tuple(dyn_flags()), timeout, cwd=d)


def coq_eval_many(named_texts, extra=(), timeout=900):
    """Same for several independent case files, compiled in parallel; returns [(rc, out)]."""
    d = os.path.join(dyn_dir(), "Cases")
    os.makedirs(d, exist_ok=True)
    paths = []
    for name, text in named_texts:
        p = os.path.join(d, name + ".v")
        with open(p, "w") as f:
            f.write(text)
        paths.append(p)
    res = coqc_many(paths, tuple(extra) + tuple(dyn_flags()), timeout)
    return [res[p] for p in paths]


def coq_case_files(name, preamble, cases, per_file=250, timeout=900):
    """Correspondence by evaluation inside Coq.
    cases: list of (case_id:int, term:str) with `term` a closed Coq expression of type bool
    (the agreement relation applied to the input and to the implementation's output).
    Writes shards <dyn>/Cases/<name>_<k>.v = preamble + one Eval, compiles them in parallel and
    returns (failing_ids, errors) where errors lists shards that did not compile."""
    shards = [cases[i:i + per_file] for i in range(0, len(cases), per_file)]
    texts = []
    for k, sh in enumerate(shards):
        body = [preamble, "From MV Require Import Base.CaseUtil.", "Set Printing Width 1000000.", "Set Printing Depth 1000000."]
        for cid, term in sh:
            body.append("Definition case_%d : bool := %s." % (cid, term))
        body.append("Eval vm_compute in (failing [%s])." % "; ".join("(%d%%nat, case_%d)" % (cid, cid) for cid, _ in sh))
        texts.append(("%s_%d" % (name, k), "\n".join(body) + "\n"))
    res = coq_eval_many(texts, timeout=timeout)
    # a shard whose coqc died without a message (killed under memory pressure / shell timeout while other checks run)
    # is compiled once more on its own before it is reported
    for i, ((nm, text), (rc, out)) in enumerate(zip(texts, res)):
        if rc != 0 and not out.strip():
            log("[coq] shard %s died silently (rc=%s); retrying once" % (nm, rc))
            res[i] = coq_eval(nm, text, timeout=timeout)
    failing, errors = [], []
    for (nm, _), (rc, out) in zip(texts, res):
        if rc != 0:
            errors.append({"shard": nm, "out": out[-2000:]})
            continue
        lists = parse_eval_lists(out)
        if len(lists) != 1:
            errors.append({"shard": nm, "out": "unparsable: " + out[-500:]})
            continue
        inner = lists[0].strip()
        if inner:
            failing += [int(x.replace("%nat", "")) for x in inner.split(";")]
    return failing, errors


def parse_eval_lists(out):
    """Return, for each `= [ ... ] : list ...` printed by Eval, the raw inner text."""
    txt = out.replace("\n", " ")
    return [m.group(1).strip() for m in re.finditer(r"=\s*\[(.*?)\]\s*:\s*list", txt)]


def parse_eval_values(out):
    """Return every value printed as `= v : T` (single-token or bracketed)."""
    txt = re.sub(r"\s+", " ", out)
    return [m.group(1).strip() for m in re.finditer(r"= (.*?) : [A-Za-z(]", txt)]


# ----------------------------------------------------------------------------
# Coq literal emitters
# ----------------------------------------------------------------------------
def zlit(n):
    n = int(n)
    return "(%d)%%Z" % n if n < 0 else "%d%%Z" % n


def qlit(fr):
    """fractions.Fraction -> Coq Q literal"""
    return "(%d # %d)%%Q" % (fr.numerator, fr.denominator) if fr.numerator >= 0 else "((%d) # %d)%%Q" % (fr.numerator, fr.denominator)


def listlit(items):
    return "[" + "; ".join(items) + "]"


def boollit(b):
    return "true" if b else "false"


# ----------------------------------------------------------------------------
# implementation side
# ----------------------------------------------------------------------------
def impl_env(hooks=True):
    env = dict(os.environ)
    env["PYTHONPATH"] = REPO + ":" + os.path.join(VERIF, "harness")
    env["PYTHONHASHSEED"] = "0"
    env["OMP_NUM_THREADS"] = "1"
    env["OPENBLAS_NUM_THREADS"] = "1"
    env["MKL_NUM_THREADS"] = "1"
    env["VERIF_REPO"] = REPO
    if hooks:
        env[GUARD] = "1"
    else:
        env.pop(GUARD, None)
    return env


def _limit_resources():
    import resource
    lim = int(os.environ.get("VERIF_IMPL_MEM_GB", "8")) * (1 << 30)
    resource.setrlimit(resource.RLIMIT_AS, (lim, lim))


def impl_run(script, payload, timeout=3000):
    """Run harness/impl/<script>.py in a fresh interpreter against /repo's working tree.
    stdin: JSON payload; stdout: last line is JSON result."""
    p = os.path.join(VERIF, "harness", "impl", script + ".py")
    r = subprocess.run(
        ["timeout", str(timeout), PY, "-W", "ignore", p],
        input=json.dumps(payload), capture_output=True, text=True, env=impl_env(),
        preexec_fn=_limit_resources,
    )
    if r.returncode != 0:
        raise RuntimeError("impl script %s failed rc=%d\n%s" % (script, r.returncode, r.stderr[-4000:]))
    lines = [l for l in r.stdout.splitlines() if l.strip()]
    return json.loads(lines[-1])


def impl_run_parallel(script, payloads, timeout=3000, jobs=None):
    from concurrent.futures import ThreadPoolExecutor

    with ThreadPoolExecutor(max_workers=jobs or NCPU) as ex:
        return list(ex.map(lambda pl: impl_run(script, pl, timeout), payloads))


# ----------------------------------------------------------------------------
# known findings
# ----------------------------------------------------------------------------
def load_known(pid):
    p = os.path.join(VERIF, "known_findings.json")
    if not os.path.exists(p):
        return []
    with open(p) as f:
        data = json.load(f)
    return [e for e in data.get("findings", []) if e.get("property") == pid and e.get("status") == "known"]


def known_match(known, key):
    """A finding is identified by an exact key string (table coordinate, call site or input hash)."""
    for e in known:
        if e.get("key") == key:
            return e
    return None


# ----------------------------------------------------------------------------
# evidence / violations
# ----------------------------------------------------------------------------
class Ctx:
    def __init__(self, pid, tier, seed, level="proof"):
        self.pid = pid
        self.tier = tier
        self.seed = seed
        self.level = level
        self.rng = random.Random(seed)
        self.t0 = time.time()
        self.coverage = {
            "obligations": 0, "discharged": 0, "checker_cmd": "", "trusted_base": [],
            "evaluations": 0, "distinct_nontrivial": 0, "rule": "", "samples": [],
        }
        self.assumptions = []
        self.violations = 0
        self.known_printed = 0
        self.notes = []

    # proof bookkeeping ------------------------------------------------------
    def add_obligations(self, n, discharged, what=None):
        self.coverage["obligations"] += n
        self.coverage["discharged"] += discharged
        if what:
            self.coverage.setdefault("obligation_groups", []).append(
                {"what": what, "obligations": n, "discharged": discharged})

    def add_trusted(self, *items):
        for it in items:
            if it not in self.coverage["trusted_base"]:
                self.coverage["trusted_base"].append(it)

    def record_proof(self, res, pid=None):
        """res from prove_property"""
        n = len(res["theorems"])
        self.add_obligations(n, n if res["ok"] else 0, "theorems of Properties/%s.v: %s" % (pid or self.pid, ", ".join(res["theorems"])))
        self.coverage["checker_cmd"] = (self.coverage["checker_cmd"] + "; " if self.coverage["checker_cmd"] else "") + res["cmd"]
        self.coverage.setdefault("print_assumptions", []).extend(res["assumptions"])
        for b in res["assumptions"]:
            if b.startswith("Axioms:"):
                self.add_trusted("Print Assumptions: " + b)
        if res["ok"] and res["assumptions"] and all(b.startswith("Closed") for b in res["assumptions"]):
            self.add_trusted("Print Assumptions of all %d property theorems of %s: Closed under the global context" % (len(res["assumptions"]), pid or self.pid))

    # correspondence bookkeeping ---------------------------------------------
    def add_cases(self, n, distinct_nontrivial, samples=()):
        self.coverage["evaluations"] += n
        self.coverage["distinct_nontrivial"] += distinct_nontrivial
        for s in samples:
            if len(self.coverage["samples"]) < 12:
                self.coverage["samples"].append(s)

    # reporting ----------------------------------------------------------------
    def violation(self, replay, found_input=True, tag=None):
        os.makedirs(os.path.join(VERIF, "replays"), exist_ok=True)
        replay = dict(replay)
        replay["property"] = self.pid
        replay["found_failing_input"] = bool(found_input)
        body = json.dumps(replay, sort_keys=True, default=str)
        h = sha(body)[:12]
        path = os.path.join(VERIF, "replays", "%s-%s.json" % (self.pid, tag or h))
        with open(path, "w") as f:
            f.write(json.dumps(replay, indent=1, sort_keys=True, default=str))
        self.violations += 1
        line = "VIOLATION property=%s replay=%s" % (self.pid, path)
        if not found_input:
            line += " no-failing-input-found"
        print(line, flush=True)
        return path

    def known_finding(self, entry, what=None):
        self.known_printed += 1
        print("KNOWN-FINDING: property=%s %s" % (self.pid, what or entry.get("description", entry.get("key"))), flush=True)

    def write_evidence(self):
        cov = dict(self.coverage)
        if not cov["samples"]:
            cov["samples"] = ["(no correspondence cases in this run)"]
        if cov["obligations"] == 0 or cov["discharged"] == 0:
            # nothing discharged in this run (no obligations, or a broken proof): the proof-level keys
            # are withheld and the exploration-style counts stand alone; the numbers are kept visible
            cov["obligations_attempted"] = cov.pop("obligations")
            cov["obligations_discharged"] = cov.pop("discharged")
        ev = {
            "property_id": self.pid,
            "tier": self.tier,
            "seed": int(self.seed),
            "level": self.level,
            "coverage": cov,
            "assumptions": self.assumptions,
            "wall_s": round(time.time() - self.t0, 2),
            "violations": self.violations,
            "known_findings_reported": self.known_printed,
            "notes": self.notes,
        }
        # evidence/ is only ever written by a run against /repo itself; a run against a scratch tree
        # (VERIF_REPO=..., seeded changes) writes under its own per-repository build directory
        evdir = os.path.join(VERIF, "evidence") if os.path.abspath(REPO) == "/repo" else os.path.join(dyn_dir(), "evidence")
        if getattr(self, "is_replay", False):
            evdir = os.path.join(dyn_dir(), "evidence-replay")
        os.makedirs(evdir, exist_ok=True)
        with open(os.path.join(evdir, self.pid + ".json"), "w") as f:
            json.dump(ev, f, indent=1, default=str)
        return ev


def base_trusted():
    return [
        "Coq 8.16.1 kernel + vm_compute (no native_compute); full .vo builds only",
        "no Axiom/Parameter/Admitted in /verif/coq (grep gate run by every check)",
        "harness/lib/common.py, the generators and impl runners (correspondence harness)",
    ]


# ----------------------------------------------------------------------------
# per-run (dynamic) Coq files: generated tables, reflection instances, property files
# ----------------------------------------------------------------------------
def write_if_changed(path, text):
    os.makedirs(os.path.dirname(path), exist_ok=True)
    if os.path.exists(path):
        with open(path, encoding="utf-8") as f:
            if f.read() == text:
                return False
    with open(path, "w", encoding="utf-8") as f:
        f.write(text)
    return True


STATIC_TARGETS = None  # set by check.py to the property's STATIC list (.vo targets)


def newest_static_vo():
    """newest compiled static file this property depends on (a rebuilt dependency also rebuilds
    the target, so the targets' own mtimes suffice)"""
    m = 0.0
    rels = [r[:-1] for r in STATIC_TARGETS] if STATIC_TARGETS else static_files()
    for rel in rels:
        p = os.path.join(COQ, rel[:-2] + ".vo")
        if os.path.exists(p):
            m = max(m, os.path.getmtime(p))
    return m


def dyn_dir():
    """Per-repository directory for everything compiled per run (generated tables, reflection
    instances, property files, case files).  Logical root MVD.  Keyed by the repository path so
    that checks against different trees (scratch worktrees) never share compiled files."""
    d = os.path.join(BUILD, "dyn-" + sha(os.path.abspath(REPO))[:10])
    os.makedirs(d, exist_ok=True)
    return d


def dyn_flags():
    return [(dyn_dir(), "MVD")]


def dyn_vo_mtime(rels):
    """max mtime of the compiled per-run files `rels` (0 if one is missing -> forces rebuild)"""
    m = 0.0
    for rel in rels:
        vo = os.path.join(dyn_dir(), rel[:-2] + ".vo")
        if not os.path.exists(vo):
            return float("inf")
        m = max(m, os.path.getmtime(vo))
    return m


def build_dynamic(steps, timeout=1800, always=(), newer_than=0.0):
    """steps: list of (relative .v path, text or None).  With text=None the source is copied
    from coq/<relpath> (hand-written per-run files: Reflect/*Inst.v, Properties/*.v); otherwise
    `text` is the generated source.  Files are compiled in order inside dyn_dir() under logical
    root MVD; a file is recompiled when its text changed, its .vo is missing/older than the
    source or than any static .vo, or an earlier step was recompiled.  Paths in `always` are
    always recompiled (property files, so that Print Assumptions is captured on every run).
    Returns list of dicts {path, rc, out, recompiled}; stops after the first failure."""
    res = []
    d = dyn_dir()
    with lock("dyn-" + os.path.basename(d)):
        dirty = False
        chain = 0.0
        stat = max(newest_static_vo(), newer_than)
        for rel, text in steps:
            p = os.path.join(d, rel)
            if text is None:
                with open(os.path.join(COQ, rel), encoding="utf-8") as f:
                    text = f.read()
            if write_if_changed(p, text):
                dirty = True
            vo = p[:-2] + ".vo"
            # stale also when an earlier step's .vo is newer (another check may have recompiled it)
            need = dirty or rel in always or not os.path.exists(vo) \
                or os.path.getmtime(vo) < os.path.getmtime(p) or os.path.getmtime(vo) < max(stat, chain)
            if need:
                if os.path.exists(vo):
                    os.remove(vo)
                t0 = time.time()
                rc, out = coqc_file(p, dyn_flags(), timeout, cwd=d)
                dirty = True
                res.append({"path": rel, "rc": rc, "out": out, "recompiled": True, "wall_s": time.time() - t0})
                if rc != 0:
                    break
            else:
                res.append({"path": rel, "rc": 0, "out": "", "recompiled": False, "wall_s": 0.0})
            if os.path.exists(vo):
                chain = max(chain, os.path.getmtime(vo))
    return res


def build_dynamic_parallel(steps, timeout=1800, jobs=None, newer_than=0.0):
    """Like build_dynamic for a set of mutually independent files (e.g. one generated file per
    space group): all are (re)compiled in parallel when needed.  Returns list of result dicts
    in the order of `steps`."""
    d = dyn_dir()
    out = []
    with lock("dyn-" + os.path.basename(d)):
        stat = max(newest_static_vo(), newer_than)
        todo = []
        for rel, text in steps:
            p = os.path.join(d, rel)
            if text is None:
                with open(os.path.join(COQ, rel), encoding="utf-8") as f:
                    text = f.read()
            changed = write_if_changed(p, text)
            vo = p[:-2] + ".vo"
            need = changed or not os.path.exists(vo) or os.path.getmtime(vo) < os.path.getmtime(p) \
                or os.path.getmtime(vo) < stat
            if need:
                if os.path.exists(vo):
                    os.remove(vo)
                todo.append(p)
        t0 = time.time()
        r = coqc_many(todo, dyn_flags(), timeout, jobs) if todo else {}
        for rel, _ in steps:
            p = os.path.join(d, rel)
            if p in r:
                out.append({"path": rel, "rc": r[p][0], "out": r[p][1], "recompiled": True, "wall_s": time.time() - t0})
            else:
                out.append({"path": rel, "rc": 0, "out": "", "recompiled": False, "wall_s": 0.0})
    return out


def first_failure(results):
    for r in results:
        if r["rc"] != 0:
            return r
    return None
