"""Shared by all table-dependent properties (C14, C15, C08, C12, C05, C06, C07):
translate matid/data/symmetry_data.py -> Generated/*.v, reference ops from spglib, certificates,
per-group reflection instances, collection.  Cached by a stamp (hash of every input) so that the
second property checked on the same tree reuses the compiled files."""
import json
import os
import sys
import time
from concurrent.futures import ProcessPoolExecutor

from lib import common as C

sys.path.insert(0, os.path.join(C.VERIF, "translator"))
import gen_symdata  # noqa: E402
import gen_certs  # noqa: E402
import gen_chk  # noqa: E402
import gen_ref_spglib  # noqa: E402
from pyast import TranslationError  # noqa: E402

STATIC = ["Symmetry/Table.vo", "Symmetry/Affine.vo", "Symmetry/Expr.vo", "Symmetry/GroundState.vo", "Reflect/GroupChecks.vo",
          "Reflect/NormChecks.vo", "Reflect/GroundChecks.vo", "Base/CaseUtil.vo"]


def _cert_job(args):
    sg, w, n = args
    return sg, gen_certs.certificates(w, n)


def _stamp_inputs(ref_sha):
    h = [C.file_sha(os.path.join(C.REPO, gen_symdata.DATA)), ref_sha]
    for fn in ("gen_symdata.py", "gen_certs.py", "gen_chk.py", "gen_ref_spglib.py", "pyast.py"):
        h.append(C.file_sha(os.path.join(C.VERIF, "translator", fn)))
    m = 0.0
    for rel in STATIC:  # the static files the generated ones are compiled against
        vo = os.path.join(C.COQ, rel)
        m = max(m, os.path.getmtime(vo) if os.path.exists(vo) else float("inf"))
    h.append(repr(m))
    return C.sha("|".join(h))


def build(want_norms=True):
    """Returns dict: ok, broken (None | {stage, ...}), tables (parsed python data or None), meta,
    failed (list of failing per-group files with output), wall_s, cached."""
    t0 = time.time()
    out = {"ok": False, "broken": None, "tables": None, "meta": {}, "failed": [], "cached": False}
    try:
        files, meta, tables = gen_symdata.generate(C.REPO)
    except TranslationError as e:
        out["broken"] = {"stage": "translate", "error": str(e)}
        out["wall_s"] = time.time() - t0
        return out
    out["tables"] = tables
    out["meta"] = meta
    ref_txt, ref_meta = gen_ref_spglib.generate()
    with open(gen_ref_spglib.snapshot_path()) as f:
        snap = json.load(f)
    out["meta"]["ref_spglib_sha"] = ref_meta["sha"]
    out["meta"]["ref_spglib_matches_snapshot"] = (snap["sha"] == ref_meta["sha"])
    stamp_path = os.path.join(C.dyn_dir(), "Generated", ".tables.stamp")
    stamp = _stamp_inputs(ref_meta["sha"])
    if os.path.exists(stamp_path):
        with open(stamp_path) as f:
            old = json.load(f)
        if old.get("stamp") == stamp and os.path.exists(os.path.join(C.dyn_dir(), "Generated", "ChkAll.vo" if old.get("ok") else "SGAll.vo")):
            out.update(ok=old["ok"], failed=old["failed"], cached=True)
            out["meta"]["missing_certs"] = old.get("missing_certs", {})
            out["wall_s"] = time.time() - t0
            if not old["ok"]:
                out["broken"] = {"stage": "reflect", "files": [f["path"] for f in old["failed"]]}
            return out
    info, wyck, norms = tables
    # certificates (untrusted generator), in parallel
    with ProcessPoolExecutor(max_workers=C.NCPU) as ex:
        res = dict(ex.map(_cert_job, [(sg, wyck[sg], norms.get(sg, [])) for sg in range(1, 231)], chunksize=4))
    cert_files = []
    missing = {}
    for sg in range(1, 231):
        c, m = res[sg]
        if m:
            missing[sg] = m
        cert_files.append(("Generated/Certs%03d.v" % sg, gen_certs.cert_text(sg, c)))
    out["meta"]["missing_certs"] = missing
    r1 = C.build_dynamic_parallel(files[:-1] + cert_files + [("Generated/RefSpglib.v", ref_txt)])
    bad = [r for r in r1 if r["rc"] != 0]
    if bad:
        out["broken"] = {"stage": "compile-generated", "files": [b["path"] for b in bad], "error": bad[0]["out"][-1500:]}
        out["wall_s"] = time.time() - t0
        return out
    phase1 = [f[0] for f in files[:-1]]
    r2 = C.build_dynamic([files[-1]], newer_than=C.dyn_vo_mtime(phase1))
    chk_files, all_file = gen_chk.generate()
    dep = C.dyn_vo_mtime(phase1 + [f[0] for f in cert_files] + ["Generated/RefSpglib.v"])
    r3 = C.build_dynamic_parallel(chk_files, newer_than=dep, timeout=3000)
    failed = [{"path": r["path"], "out": r["out"][-600:]} for r in r3 if r["rc"] != 0]
    ok = not failed and r2[0]["rc"] == 0
    if ok:
        dep2 = max(C.dyn_vo_mtime([f[0] for f in chk_files]), C.dyn_vo_mtime([files[-1][0]]))
        r4 = C.build_dynamic([all_file], newer_than=dep2, timeout=3000)
        if r4[0]["rc"] != 0:
            ok = False
            failed.append({"path": all_file[0], "out": r4[0]["out"][-1500:]})
    out["ok"] = ok
    out["failed"] = failed
    if not ok:
        out["broken"] = {"stage": "reflect", "files": [f["path"] for f in failed]}
    with open(stamp_path, "w") as f:
        json.dump({"stamp": stamp, "ok": ok, "failed": failed, "missing_certs": missing}, f)
    out["wall_s"] = time.time() - t0
    return out


def all_vo_mtime():
    return C.dyn_vo_mtime(["Generated/ChkAll.v"])


DIAG = """From Coq Require Import ZArith List String Bool.
Import ListNotations.
From MV Require Import Symmetry.Table Symmetry.Affine Reflect.GroupChecks Reflect.NormChecks Reflect.GroundChecks.
From MVD Require Import Generated.SG%(sg)03d Generated.Certs%(sg)03d Generated.RefSpglib.
Set Printing Width 100000. Set Printing Depth 100000.
Eval vm_compute in (chk_letters SG%(sg)03d.table, chk_exprs SG%(sg)03d.table, chk_group SG%(sg)03d.table (ref_of %(sg)d), chk_orbits SG%(sg)03d.table, chk_info SG%(sg)03d.table, chk_proper_perms_closed SG%(sg)03d.table).
Eval vm_compute in (exprs_offenders SG%(sg)03d.table).
Eval vm_compute in (orbits_offenders SG%(sg)03d.table).
Eval vm_compute in (norms_diag SG%(sg)03d.table Certs%(sg)03d.certs).
"""


def diagnose(groups):
    """For groups whose reflection instance failed: which clause, which table coordinates.
    Returns {sg: {clauses: [6 bools], exprs: [(letter, idx)], orbits: [letters], norms: [[6 bools] per normalizer]}}"""
    import re
    texts = [("diag%03d" % sg, DIAG % {"sg": sg}) for sg in groups]
    res = C.coq_eval_many(texts, timeout=1800)
    out = {}
    for sg, (rc, o) in zip(groups, res):
        if rc != 0:
            out[sg] = {"error": o[-800:]}
            continue
        vals = C.parse_eval_values(o)
        d = {"raw": vals}
        try:
            d["clauses"] = [x == "true" for x in re.findall(r"true|false", vals[0])]
            d["exprs"] = [(m.group(1), int(m.group(2))) for m in re.finditer(r'\("(\w)", (\d+)%nat\)', vals[1])]
            d["orbits"] = re.findall(r'"([^"]+)"', vals[2])
            rows = re.findall(r"\[([^\[\]]*)\]", vals[3].replace("::", ";"))
            # list printed either with [..;..] or with :: notation
            if not rows:
                rows = [r for r in re.split(r"\)\s*::\s*\(|nil", vals[3]) if "true" in r or "false" in r]
            d["norms"] = [[x == "true" for x in re.findall(r"true|false", r)] for r in rows]
        except Exception as e:  # keep raw
            d["parse_error"] = str(e)
        out[sg] = d
    return out
