"""Crystal generator shared by the symmetry properties (C05-C08, C12, C14, C15).

Crystals are built from spglib's Hall-symbol database (the operations of the first Hall setting of
each space group) -- independent of MatID's tables -- by applying all operations to random
representative points.  Special Wyckoff positions are reached by evaluating the first representative
expression of a MatID table entry at random parameter values; the letter is then *confirmed* by
spglib's own assignment on the finished crystal (never trusted from the table).

All randomness comes from the `random.Random` instance handed in.
"""
import math

import numpy as np
import spglib

_REF = {}
_FIRST_HALL = {}


def first_hall(sg):
    if not _FIRST_HALL:
        for hall in range(1, 531):
            t = spglib.get_spacegroup_type(hall)
            num = t["number"] if isinstance(t, dict) else t.number
            _FIRST_HALL.setdefault(num, hall)
    return _FIRST_HALL[sg]


def ref_ops(sg):
    if sg not in _REF:
        d = spglib.get_symmetry_from_database(first_hall(sg))
        _REF[sg] = (np.array(d["rotations"]), np.array(d["translations"]))
    return _REF[sg]


def crystal_system(sg):
    for hi, name in ((2, "triclinic"), (15, "monoclinic"), (74, "orthorhombic"), (142, "tetragonal"),
                     (167, "trigonal"), (194, "hexagonal"), (230, "cubic")):
        if sg <= hi:
            return name


def cellpar_to_cell(a, b, c, al, be, ga):
    al, be, ga = (math.radians(x) for x in (al, be, ga))
    va = np.array([a, 0.0, 0.0])
    vb = np.array([b * math.cos(ga), b * math.sin(ga), 0.0])
    cx = c * math.cos(be)
    cy = c * (math.cos(al) - math.cos(be) * math.cos(ga)) / math.sin(ga)
    cz = math.sqrt(max(c * c - cx * cx - cy * cy, 1e-12))
    return np.array([va, vb, [cx, cy, cz]])


def lattice(sg, rng):
    """random lattice respecting the crystal system, in the axes of the standard setting
    (monoclinic unique axis b; trigonal/hexagonal groups in hexagonal axes)"""
    s = crystal_system(sg)
    a = rng.uniform(3.5, 6.5)
    b = a * rng.uniform(1.15, 1.45)
    c = a * rng.uniform(1.55, 1.9)
    if s == "triclinic":
        return cellpar_to_cell(a, b, c, rng.uniform(70, 85), rng.uniform(95, 110), rng.uniform(62, 80))
    if s == "monoclinic":
        return cellpar_to_cell(a, b, c, 90, rng.uniform(98, 115), 90)
    if s == "orthorhombic":
        return cellpar_to_cell(a, b, c, 90, 90, 90)
    if s == "tetragonal":
        return cellpar_to_cell(a, a, c, 90, 90, 90)
    if s in ("trigonal", "hexagonal"):
        return cellpar_to_cell(a, a, c, 90, 90, 120)
    return cellpar_to_cell(a, a, a, 90, 90, 90)


def orbit(sg, p, tol=1e-6):
    R, t = ref_ops(sg)
    pts = (np.einsum("nij,j->ni", R, np.asarray(p, dtype=float)) + t) % 1.0
    out = []
    for q in pts:
        dup = False
        for r in out:
            d = np.abs(q - r)
            d = np.minimum(d, 1.0 - d)
            if d.max() < tol:
                dup = True
                break
        if not dup:
            out.append(q)
    return np.array(out)


def table_letters(tables, sg):
    """[(letter, multiplicity, n_free)] from parsed MatID tables (gen_symdata.read_tables)"""
    _, wyck, _ = tables
    w = wyck[sg]
    ntr = len(w["translations"]) + 1
    return [(l, len(e["expressions"]) * ntr, len(e["variables"])) for l, e in w.items() if l != "translations"]


def first_representative(tables, sg, letter, params):
    """evaluate the first representative expression of (sg, letter) at params = (x, y, z)"""
    _, wyck, _ = tables
    e = wyck[sg][letter]
    M = np.array([[float(v) for v in row] for row in e["matrices"][0]])
    C = np.array([float(v) for v in e["constants"][0]])
    return np.dot(np.asarray(params, dtype=float), M) + C


SPECIES = [1, 3, 6, 8, 11, 13, 14, 16, 20, 22, 26, 29, 31, 34, 38, 40, 47, 50, 56, 74, 79, 82]


def make_crystal(sg, rng, orbits, tables=None, min_dist=0.6, tries=40):
    """orbits: list of ("general" | letter, atomic_number).  Returns dict or None when no
    overlap-free realisation was found."""
    cell = lattice(sg, rng)
    for _ in range(tries):
        pos, nums, meta = [], [], []
        ok = True
        for kind, z in orbits:
            params = [round(rng.uniform(0.03, 0.47), 4) + rng.choice([0, 0.5]) * 0 for _ in range(3)]
            # keep parameters away from rational special values
            params = [p + 0.0137 * (i + 1) for i, p in enumerate(params)]
            if kind == "general":
                p = np.array(params)
            else:
                p = first_representative(tables, sg, kind, params)
            o = orbit(sg, p)
            pos.append(o)
            nums += [z] * len(o)
            meta.append({"kind": kind, "z": z, "params": params, "size": len(o)})
        P = np.vstack(pos)
        # overlap test (minimum image through 27 neighbours is enough for these cell sizes)
        cart = P @ cell
        n = len(P)
        if n > 1:
            shifts = np.array([[i, j, k] for i in (-1, 0, 1) for j in (-1, 0, 1) for k in (-1, 0, 1)]) @ cell
            dmin = np.inf
            for s in shifts:
                d = np.linalg.norm(cart[:, None, :] - cart[None, :, :] - s, axis=2)
                if not s.any():
                    d = d + np.eye(n) * 1e9
                dmin = min(dmin, d.min())
            ok = dmin >= min_dist
        if ok:
            return {"sg": sg, "cell": cell.tolist(), "scaled_positions": P.tolist(), "numbers": [int(z) for z in nums],
                    "orbits": meta}
    return None


def spg_dataset(cr, symprec):
    ds = spglib.get_symmetry_dataset((np.array(cr["cell"]), np.array(cr["scaled_positions"]), np.array(cr["numbers"])), symprec=symprec)
    return ds


def ds_get(ds, key):
    return ds[key] if isinstance(ds, dict) else getattr(ds, key)


def stable_group(cr, lo=1e-5, hi=1e-3):
    """the detected space-group number if it is the same at both ends of a 100x tolerance window"""
    try:
        a = spg_dataset(cr, lo)
        b = spg_dataset(cr, hi)
    except Exception:
        return None
    if a is None or b is None:
        return None
    na, nb = ds_get(a, "number"), ds_get(b, "number")
    return na if na == nb else None


def choose_orbits(sg, rng, tables, max_atoms=120, n_orbits=None):
    """1-3 occupied orbits (general or special), distinct random species, at most max_atoms atoms"""
    letters = table_letters(tables, sg)
    gen_mult = max(m for _, m, _ in letters)
    n_orb = n_orbits or rng.choice([1, 2, 2, 3])
    zs = rng.sample(SPECIES, n_orb)
    out, total = [], 0
    for k in range(n_orb):
        cands = [(l, m) for l, m, nf in letters if total + m <= max_atoms]
        if not cands:
            break
        use_general = (gen_mult + total <= max_atoms) and rng.random() < 0.4
        if use_general:
            out.append(("general", zs[k]))
            total += gen_mult
        else:
            l, m = rng.choice(cands)
            out.append((l, zs[k]))
            total += m
    return out


def generate(sg, rng, tables, max_atoms=120, n_orbits=None, require_group=True, tries=12):
    """A crystal whose spglib-detected group is `sg` (stable over a 100x tolerance window).
    Returns (crystal | None, n_discarded)."""
    disc = 0
    for _ in range(tries):
        orbs = choose_orbits(sg, rng, tables, max_atoms, n_orbits)
        if not orbs:
            continue
        cr = make_crystal(sg, rng, orbs, tables)
        if cr is None:
            disc += 1
            continue
        if require_group and stable_group(cr) != sg:
            disc += 1
            continue
        return cr, disc
    return None, disc


# ---- re-presentations of one crystal -------------------------------------------------------------
def random_rotation(rng, proper=True):
    q = np.array([rng.gauss(0, 1) for _ in range(4)])
    q /= np.linalg.norm(q)
    w, x, y, z = q
    R = np.array([[1 - 2 * (y * y + z * z), 2 * (x * y - z * w), 2 * (x * z + y * w)],
                  [2 * (x * y + z * w), 1 - 2 * (x * x + z * z), 2 * (y * z - x * w)],
                  [2 * (x * z - y * w), 2 * (y * z + x * w), 1 - 2 * (x * x + y * y)]])
    return R if proper else -R


def random_unimodular(rng, steps=4):
    M = np.eye(3, dtype=int)
    for _ in range(steps):
        i, j = rng.sample(range(3), 2)
        E = np.eye(3, dtype=int)
        E[i, j] = rng.choice([-1, 1])
        M = E @ M
    return M


def random_supercell_matrix(rng, max_det=4):
    while True:
        d = [rng.choice([1, 1, 2, 3, 4]) for _ in range(3)]
        if d[0] * d[1] * d[2] <= max_det:
            break
    H = np.diag(d).astype(int)
    # upper-triangular Hermite-like mixing
    for i in range(3):
        for j in range(i + 1, 3):
            H[i, j] = rng.randrange(0, d[j]) if d[j] > 1 else 0
    return H


def transform_basis(cr, T):
    """new cell rows = T @ old cell (integer T, |det| >= 1); atoms replicated for supercells"""
    T = np.array(T, dtype=int)
    cell = np.array(cr["cell"])
    P = np.array(cr["scaled_positions"])
    nums = list(cr["numbers"])
    det = int(round(abs(np.linalg.det(T))))
    newcell = T @ cell
    Tinv = np.linalg.inv(T)
    # all integer translations of the old lattice inside the new cell
    rng_ = range(-6, 7)
    pts, zz = [], []
    for i in rng_:
        for j in rng_:
            for k in rng_:
                fr = (P + np.array([i, j, k])) @ Tinv
                inside = np.all((fr >= -1e-9) & (fr < 1 - 1e-9), axis=1)
                for idx in np.nonzero(inside)[0]:
                    pts.append(fr[idx] % 1.0)
                    zz.append(nums[idx])
    if len(pts) != det * len(nums):
        return None
    out = dict(cr)
    out["cell"] = newcell.tolist()
    out["scaled_positions"] = np.array(pts).tolist()
    out["numbers"] = [int(z) for z in zz]
    return out


def represent(cr, rng, rotate=True, translate=True, permute=True, shear=True, supercell=False, wrap=True):
    """another description of the same crystal; returns (crystal, description)"""
    out = dict(cr)
    desc = {}
    if supercell:
        H = random_supercell_matrix(rng)
        t = transform_basis(out, H)
        if t is not None:
            out = t
            desc["supercell"] = H.tolist()
    if shear:
        U = random_unimodular(rng)
        if rng.random() < 0.35:
            # a LEFT-handed lattice basis (two vectors exchanged or one reversed): still a basis of the same lattice
            S = np.eye(3, dtype=int)
            if rng.random() < 0.5:
                i, j = rng.sample(range(3), 2)
                S[[i, j]] = S[[j, i]]
            else:
                S[rng.randrange(3)] *= -1
            U = S @ U
            desc["lefthanded_basis"] = True
        t = transform_basis(out, U)
        if t is not None:
            out = t
            desc["unimodular"] = U.tolist()
    cell = np.array(out["cell"])
    P = np.array(out["scaled_positions"])
    nums = list(out["numbers"])
    cart = P @ cell
    if rotate:
        R = random_rotation(rng, proper=True)
        cell = cell @ R.T
        cart = cart @ R.T
        desc["rotation"] = R.tolist()
    if translate:
        tv = np.array([rng.uniform(-5, 5) for _ in range(3)])
        cart = cart + tv
        desc["translation"] = tv.tolist()
    P = cart @ np.linalg.inv(cell)
    if wrap:
        P = P % 1.0
    if permute:
        perm = list(range(len(nums)))
        rng.shuffle(perm)
        P = P[perm]
        nums = [nums[i] for i in perm]
        desc["permuted"] = True
    out = dict(out)
    out["cell"] = cell.tolist()
    out["scaled_positions"] = P.tolist()
    out["numbers"] = nums
    return out, desc


def to_atoms(cr):
    from ase import Atoms
    return Atoms(numbers=cr["numbers"], cell=cr["cell"], scaled_positions=cr["scaled_positions"], pbc=True)
